#!/usr/bin/env python3
"""recfix.py PROP KEY COMMIT "what failed"  -- record a repaired finding:
copies the saved replay of KEY (from replays/PROP/) to known/PROP/, checks that it
now passes on the current tree, appends a 'fixed:' line to KNOWN_FINDINGS.txt.
recfix.py --open PROP KEY "what fails" records an open (unrepaired) finding."""
import sys, os, glob, shutil, re
HERE = os.path.dirname(os.path.abspath(__file__))
sys.path.insert(0, HERE)
import driver, hbuild
def main():
    args = sys.argv[1:]
    is_open = False
    if args[0] == "--open":
        is_open = True
        args = args[1:]
        prop, key, desc = args
        commit = None
    else:
        prop, key, commit, desc = args
    cands = []
    for p in sorted(glob.glob(os.path.join(driver.REPLAY_DIR, prop, "*.case"))):
        if p.endswith(".raw.case"):
            continue
        txt = open(p, errors="replace").read()
        m = re.search(r"^# key: (.*)$", txt, re.M)
        if m and m.group(1).strip() == key:
            cands.append(p)
    if not cands:
        print("no replay for", key); sys.exit(1)
    src = min(cands, key=lambda p: len(open(p).read().split("\n")[2]))
    dd = os.path.join(driver.VERIF, "known", prop)
    os.makedirs(dd, exist_ok=True)
    dst = os.path.join(dd, re.sub(r"[^A-Za-z0-9_.-]+", "_", key)[:110] + ".case")
    while os.path.exists(dst):  # never overwrite the replay of another record
        dst = dst[:-5] + "_.case"
    shutil.copy(src, dst)
    mod, libcfg = driver.case_meta(dst)
    code, rkey, txt = driver.replay_case(hbuild.build_harness(libcfg), mod, dst, libcfg)
    rel = os.path.relpath(dst, driver.VERIF)
    if is_open:
        if code != 1:
            print("WARNING: replay does not fail on the current tree:", txt)
        line = "open: property=%s key=%s replay=%s %s\n" % (prop, key, rel, desc)
    else:
        if code == 1:
            print("ERROR: replay still fails after the fix:\n" + txt); os.remove(dst); sys.exit(1)
        line = "fixed: property=%s %s key=%s replay=%s %s\n" % (prop, commit, key, rel, desc)
    open(driver.KNOWN_FILE, "a").write(line)
    print(line.strip())
main()
