#!/usr/bin/env python3
"""autorec.py PROP -- for every saved replay in replays/PROP whose key is not yet in
KNOWN_FINDINGS.txt and which now PASSES on the current tree, find the /repo 'fix:'
commit that touched the row's source file and record it as fixed."""
import sys, os, glob, re, subprocess, shutil
HERE = os.path.dirname(os.path.abspath(__file__))
sys.path.insert(0, HERE)
import driver, hbuild
prop = sys.argv[1]
opn, fixed = driver.load_known()
have = {e["key"] for e in opn.get(prop, []) + fixed.get(prop, [])}
log = subprocess.run(["git", "-C", "/repo", "log", "--format=%h %s", "--name-only"], capture_output=True, text=True).stdout
commits = []  # (hash, subject, files)
cur = None
for l in log.splitlines():
    m = re.match(r"^([0-9a-f]{7,}) (fix: .*)$", l)
    if m:
        cur = [m.group(1), m.group(2), []]; commits.append(cur)
    elif re.match(r"^[0-9a-f]{7,} ", l):
        cur = None
    elif l.strip() and cur is not None:
        cur[2].append(l.strip())
hc = {}
def H(cfg):
    if cfg not in hc: hc[cfg] = hbuild.build_harness(cfg)
    return hc[cfg]
best = {}
for p in sorted(glob.glob(os.path.join(driver.REPLAY_DIR, prop, "*.case"))):
    if p.endswith(".raw.case"): continue
    txt = open(p, errors="replace").read()
    m = re.search(r"^# key: (.*)$", txt, re.M)
    if not m: continue
    key = m.group(1).strip()
    if key in have: continue
    if len(sys.argv) > 3 and not re.search(sys.argv[3], key): continue
    if not re.search(r"^kase ", txt, re.M): continue   # stale (pre-kase) file: decoding may have changed
    if key not in best or len(txt) < len(open(best[key], errors="replace").read()): best[key] = p
for key, p in sorted(best.items()):
    mod, cfg = driver.case_meta(p)
    code, rkey, out = driver.replay_case(H(cfg), mod, p, cfg)
    if code != 0:
        print("still failing:", key); continue
    row = key.split(":")[1]
    cands = [c for c in commits if any(os.path.basename(f) == row + ".c" for f in c[2])]
    if len(sys.argv) > 2 and sys.argv[2] != "-":
        cands = [c for c in commits if c[0].startswith(sys.argv[2])]
    if not cands:
        print("passes now but no commit found for row", row, key); continue
    c = cands[0]
    dd = os.path.join(driver.VERIF, "known", prop); os.makedirs(dd, exist_ok=True)
    dst = os.path.join(dd, re.sub(r"[^A-Za-z0-9_.-]+", "_", key)[:110] + ".case")
    while os.path.exists(dst):  # never overwrite the replay of another record
        dst = dst[:-5] + "_.case"
    shutil.copy(p, dst)
    line = "fixed: property=%s %s key=%s replay=%s %s\n" % (prop, c[0], key, os.path.relpath(dst, driver.VERIF), c[1][5:])
    open(driver.KNOWN_FILE, "a").write(line)
    print(line.strip())
