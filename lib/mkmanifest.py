#!/usr/bin/env python3
"""Regenerate MANIFEST.json from the table below (single source of truth)."""
import json, os
VERIF = os.path.dirname(os.path.dirname(os.path.abspath(__file__)))
CLAIMED = {}   # id -> dict(technique, level_text, level_note, design_ref, category)
exec(open(os.path.join(VERIF, "lib", "claims.py")).read())
props = [json.loads(l)["id"] for l in open(os.path.join(VERIF, "properties.jsonl"))]
m = {
    "version": 1,
    "setup_cmd": "./setup.sh",
    "hooks": {
        "guard": "SAFECLIB_VERIF",
        "enable": "lib/vlib.py compiles /repo/src with -DSAFECLIB_VERIF=1 (no guarded source hooks exist: observation is external - guard pages, --wrap, ELF snapshots)",
        "baseline_off_cmd": "cd /repo && make -k check",
        "source_commits": [],
        "add_only": True,
    },
    "engines": [
        {"name": "cs", "path": "engine/", "serves_properties": sorted(k for k, v in CLAIMED.items() if v.get("engine", "cs") == "cs"),
         "kind_free_text": "choice-sequence property-based testing engine in C: random / exhaustive small-scope enumeration / replay / shrinking over one decoder, forked workers, guard-page arena"},
        {"name": "c18-program-generator", "path": "props/c18/", "serves_properties": ["C18"], "kind_free_text": "seeded generator of client programs x build matrix with spy TU and positive controls"},
        {"name": "c19-native+valgrind", "path": "props/c19/", "serves_properties": ["C19"], "kind_free_text": "exhaustive/random result enumeration (native) and secret-taint tracking under Valgrind memcheck"},
        {"name": "c17-hypothesis", "path": "props/c17/", "serves_properties": ["C17"], "kind_free_text": "Python + ctypes: exhaustive code point sweeps and Hypothesis string strategies against CPython unicodedata"},
    ],
    "checks": [],
    "not_applicable": [],
    "notes": "All checks: ./check <ID> --tier quick|thorough ; replay: ./check <ID> --replay <file>. Findings workflow: KNOWN_FINDINGS.txt (open/fixed), DESIGN.md section 4/7.",
}
for p in props:
    if p in CLAIMED:
        c = CLAIMED[p]
        m["checks"].append({
            "property_id": p,
            "quick_cmd": "./check %s --tier quick" % p,
            "thorough_cmd": "./check %s --tier thorough" % p,
            "evidence_file": "evidence/%s.json" % p,
            "replay_cmd_template": "./check %s --replay {path}" % p,
            "engine": c.get("engine", "cs"),
            "level_claimed": {"category": c.get("category", "exploration"), "text": c["level_text"], "design_ref": c["design_ref"]},
            "level_note": c["level_note"],
            "technique": c["technique"],
        })
    else:
        m["not_applicable"].append({"property_id": p, "reason": UNCLAIMED.get(p, "check not built yet in this round (planned, see DESIGN.md section 9)")})
json.dump(m, open(os.path.join(VERIF, "MANIFEST.json"), "w"), indent=1)
print("claimed:", sorted(CLAIMED), "unclaimed:", [p for p in props if p not in CLAIMED])
