"""driver.py -- shared logic of /verif/check: run cs campaigns, triage violations
against KNOWN_FINDINGS.txt, shrink + replay, write evidence."""
import json, os, subprocess, sys, time, shutil, hashlib, re, glob

HERE = os.path.dirname(os.path.abspath(__file__))
sys.path.insert(0, HERE)
import vlib, hbuild

VERIF = vlib.VERIF
KNOWN_FILE = os.path.join(VERIF, "KNOWN_FINDINGS.txt")
EVID_DIR = os.environ.get("VERIF_EVIDENCE_DIR") or os.path.join(VERIF, "evidence")  # override: scratch runs against other trees (back-attribution) must not touch the real evidence
REPLAY_DIR = os.environ.get("VERIF_REPLAY_DIR") or os.path.join(VERIF, "replays")
SCHEMA = "/root/.vp/EVIDENCE.schema.json"
SCHEMA_LOCAL = os.path.join(VERIF, "support", "EVIDENCE.schema.json")


def seed():
    try:
        return int(os.environ.get("VERIF_SEED", "1"))
    except ValueError:
        return 1


def load_known():
    """returns (open: {key: text}, fixed: {key: text}) for all properties"""
    opn, fixed = {}, {}
    if not os.path.exists(KNOWN_FILE):
        return opn, fixed
    for line in open(KNOWN_FILE, errors="replace"):
        line = line.strip()
        if not line or line.startswith("#"):
            continue
        m = re.match(r"(open|fixed):\s+property=(\S+)\s+(.*)$", line)
        if not m:
            continue
        kind, prop, rest = m.groups()
        km = re.search(r"key=(\S+)", rest)
        key = km.group(1) if km else None
        entry = dict(prop=prop, key=key, text=rest)
        rm = re.search(r"replay=(\S+)", rest)
        entry["replay"] = rm.group(1) if rm else None
        (opn if kind == "open" else fixed).setdefault(prop, []).append(entry)
    return opn, fixed


def key_matches(pattern, key):
    """known-finding keys are exact, or shell-style patterns with '*' standing for one
    row name / class segment (never spanning the whole key)"""
    if "*" in pattern:
        import fnmatch
        return fnmatch.fnmatchcase(key, pattern)
    return pattern == key


_LOCPATH = None
def harness_env():
    """environment of every harness process: UTC, C locale, and a LOCPATH holding clones of C.utf8 under Turkish, Azeri and
    Lithuanian NAMES -- wcsfc_s branches on the locale's name, and no such locale is installed (harness/props_extra.c, XLOC)"""
    global _LOCPATH
    if _LOCPATH is None:
        _LOCPATH = ""
        src = "/usr/lib/locale/C.utf8"
        d = os.path.join(VERIF, "build", "locales")
        try:
            if os.path.isdir(src):
                for name in ("tr_TR.UTF-8", "lt_LT.UTF-8", "az_AZ.UTF-8"):
                    t = os.path.join(d, name)
                    if not os.path.isdir(t):
                        tmp = t + ".tmp%d" % os.getpid()
                        shutil.copytree(src, tmp)
                        try:
                            os.rename(tmp, t)
                        except OSError:
                            shutil.rmtree(tmp, ignore_errors=True)
                _LOCPATH = d
        except OSError:
            _LOCPATH = ""
    env = dict(os.environ, TZ="UTC", LC_ALL="C")
    if _LOCPATH:
        env["LOCPATH"] = _LOCPATH
    return env


class Campaign:
    """one harness run of a cs module against one library config"""

    def __init__(self, module, libcfg="plain", cases=None, extra=(), ldflags=(), keymap=None):
        """keymap=(regex, prop): the campaign of another property's module contributes to this check:
        only violation keys matching regex are kept and their property prefix is rewritten to prop"""
        self.module, self.libcfg, self.cases, self.extra, self.ldflags = module, libcfg, cases, list(extra), tuple(ldflags)
        self.summary, self.viols = None, []
        self.keymap = keymap

    def run(self, tier, outdir):
        h = hbuild.build_harness(self.libcfg, self.ldflags)
        self.harness = h
        od = os.path.join(outdir, "%s-%s" % (self.module, self.libcfg))
        shutil.rmtree(od, ignore_errors=True)
        os.makedirs(od)
        cmd = [h, "--module", self.module, "--tier", tier, "--seed", str(seed()), "--out", od, "--libcfg", self.libcfg,
               "--workers", str(min(16, os.cpu_count() or 4))] + self.extra
        if self.cases is not None:
            cmd += ["--cases", str(self.cases)]
        env = harness_env()
        r = subprocess.run(cmd, capture_output=True, text=True, errors="replace", env=env)
        self.stderr = r.stderr
        if r.returncode != 0 or not os.path.exists(os.path.join(od, "summary.json")):
            raise RuntimeError("harness failed (%s): rc=%d\n%s" % (" ".join(cmd), r.returncode, r.stderr[-2000:]))
        self.summary = json.load(open(os.path.join(od, "summary.json")))
        self.viols = []
        for f in sorted(glob.glob(os.path.join(od, "viol.*.jsonl"))):
            for line in open(f, errors="replace"):
                line = line.strip()
                if line:
                    try:
                        self.viols.append(json.loads(line))
                    except json.JSONDecodeError:
                        pass
        self.outdir = od
        if self.keymap:
            rx, prop = re.compile(self.keymap[0]), self.keymap[1]
            def conv(k):
                return prop + k[k.index(":"):] if ":" in k else k
            self.viols = [dict(v, key=conv(v["key"])) for v in self.viols if rx.search(v["key"])]
            labs = {}
            for k, n in self.summary["labels"].items():
                if k.startswith("VIOL "):
                    if rx.search(k[5:]):
                        labs["VIOL " + conv(k[5:])] = n
                else:
                    labs[k] = n
            self.summary["labels"] = labs
        return self


def write_case(path, module, phase, choices, key="", detail="", case="", kase=""):
    with open(path, "w") as f:
        f.write("module %s\nphase %d\nchoices %s\n" % (module, phase, " ".join(str(c) for c in choices)))
        if kase:
            f.write("kase %s\n" % kase)
        f.write("# key: %s\n# detail: %s\n# case: %s\n" % (key, detail, case))


def replay_case(harness, module, path, libcfg="plain"):
    """returns (code, key, text). code 0 ok, 1 violation"""
    env = harness_env()
    r = subprocess.run([harness, "--module", module, "--libcfg", libcfg, "--replay", path], capture_output=True, text=True, errors="replace", env=env)
    key = None
    for l in r.stdout.splitlines():
        if l.startswith("key: "):
            key = l[5:].strip()
    return r.returncode, key, r.stdout


def shrink_case(harness, module, path, outpath, libcfg="plain"):
    env = harness_env()
    r = subprocess.run([harness, "--module", module, "--libcfg", libcfg, "--shrink", path, "--shrink-out", outpath],
                       capture_output=True, text=True, errors="replace", env=env)
    return r.returncode == 0 and os.path.exists(outpath)


def validate_evidence(ev):
    try:
        import jsonschema
    except ImportError:
        return None
    sp = SCHEMA if os.path.exists(SCHEMA) else SCHEMA_LOCAL
    if not os.path.exists(sp):
        return None
    jsonschema.validate(ev, json.load(open(sp)))
    return True


def write_evidence(prop, tier, level, coverage, assumptions, wall, violations):
    os.makedirs(EVID_DIR, exist_ok=True)
    ev = dict(property_id=prop, tier=tier, seed=seed(), level=level, coverage=coverage,
              assumptions=assumptions, wall_s=round(wall, 2), violations=violations)
    validate_evidence(ev)
    p = os.path.join(EVID_DIR, prop + ".json")
    tmp = p + ".tmp"
    with open(tmp, "w") as f:
        json.dump(ev, f, indent=1, sort_keys=True)
        f.write("\n")
    os.replace(tmp, p)
    return p


def triage(prop, campaigns, dev=False, max_new=int(os.environ.get('VERIF_MAX_NEW', '12'))):
    """Group violations by key; split into known (open) and new. New ones are
    shrunk, saved under replays/<prop>/ and replayed 3x. Returns
    (known_hits {key:count}, new [(key, replaypath, detail)], lines to print)."""
    opn, fixed = load_known()
    opn = opn.get(prop, [])
    lines = []
    bykey = {}
    counts = {}
    for c in campaigns:
        for k, v in c.summary["labels"].items():
            if k.startswith("VIOL "):
                counts[k[5:]] = counts.get(k[5:], 0) + v
        for v in c.viols:
            bykey.setdefault(v["key"], []).append((c, v))
    for k in bykey:
        counts.setdefault(k, len(bykey[k]))
    known_hits, new = {}, []
    os.makedirs(os.path.join(REPLAY_DIR, prop), exist_ok=True)
    for key in sorted(counts):
        ent = [e for e in opn if e["key"] and key_matches(e["key"], key)]
        if ent:
            known_hits[key] = counts[key]
            continue
        if key not in bykey:
            continue
        if len(new) >= max_new and not dev:
            new.append((key, None, "(not shrunk: more than %d distinct new keys)" % max_new))
            continue
        c, v = bykey[key][0]
        h = hashlib.sha1((key + json.dumps(v["choices"])).encode()).hexdigest()[:10]
        safe = re.sub(r"[^A-Za-z0-9_.-]+", "_", key)[:100]
        raw = os.path.join(REPLAY_DIR, prop, "%s-%s.raw.case" % (safe, h))
        out = os.path.join(REPLAY_DIR, prop, "%s-%s.case" % (safe, h))
        write_case(raw, c.module, v.get("phase", 1), v["choices"], key, v.get("detail", ""), v.get("case", ""), v.get("kase", ""))
        if dev or not shrink_case(c.harness, c.module, raw, out, c.libcfg):
            shutil.copy(raw, out)
        # replay 3x
        ok = 0
        for _ in range(3):
            code, rkey, _txt = replay_case(c.harness, c.module, out, c.libcfg)
            if code == 1 and rkey and c.keymap and ":" in rkey:
                rkey = c.keymap[1] + rkey[rkey.index(":"):]
            if code == 1 and rkey == key:
                ok += 1
        if ok == 0 and not key.startswith(prop + ":crash"):
            # does not reproduce from its file: do not raise an alarm, but say so
            lines.append("UNREPRODUCED: property=%s key=%s (0 of 3 replays failed) file=%s" % (prop, key, out))
            continue
        with open(out, "a") as f:
            f.write("# libcfg: %s\n" % c.libcfg)
        new.append((key, out, v.get("detail", "")))
    for e in opn:
        hit = sum(n for k, n in known_hits.items() if key_matches(e["key"], k))
        if hit:
            lines.append("KNOWN-FINDING: property=%s %s (hits this run: %d)" % (prop, e["text"], hit))
    return known_hits, new, lines


def regression_replays(prop, harness_for):
    """replay every 'fixed:' and 'open:' entry's saved case. A fixed entry that
    fails again is a violation; an open entry that no longer fails is noted."""
    opn, fixed = load_known()
    res = []
    for e in fixed.get(prop, []):
        if not e["replay"]:
            continue
        p = os.path.join(VERIF, e["replay"])
        if not os.path.exists(p):
            continue
        mod, libcfg = case_meta(p)
        try:
            h = harness_for(libcfg)
        except Exception:
            if libcfg in ("fuzz", "tsan", "asan"):
                continue  # sanitizer build unavailable here: that replay cannot be judged
            raise
        code, key, _ = replay_case(h, mod, p, libcfg)
        res.append(("fixed", e, p, code, key))
    for e in opn.get(prop, []):
        if not e["replay"]:
            continue
        p = os.path.join(VERIF, e["replay"])
        if not os.path.exists(p):
            continue
        mod, libcfg = case_meta(p)
        try:
            h = harness_for(libcfg)
        except Exception:
            if libcfg in ("fuzz", "tsan", "asan"):
                continue
            raise
        code, key, _ = replay_case(h, mod, p, libcfg)
        res.append(("open", e, p, code, key))
    return res


def case_meta(path):
    mod, libcfg = None, "plain"
    for l in open(path, errors="replace"):
        if l.startswith("module "):
            mod = l.split()[1]
        if l.startswith("# libcfg: "):
            libcfg = l.split(":", 1)[1].strip()
    return mod, libcfg


INTERNAL_EXPORTS = {  # exported helpers that are not API entry points (reached through the API rows)
    "_decomp_s", "_towcase", "_towfc_single", "_towupper", "handle_mem_bos_chk_warn", "handle_str_bos_chk_warn",
    "handle_str_bos_overflow", "handle_str_src_bos_chk_warn", "invoke_safe_mem_constraint_handler",
    "invoke_safe_str_constraint_handler", "isComp2nd", "isExclusion", "isNonStDecomp", "isSingleton", "mem_prim_move",
    "mem_prim_move16", "mem_prim_move32", "mem_prim_move8", "mem_prim_set", "mem_prim_set16", "mem_prim_set32",
    "safec_fmt_has_n", "safec_wfmt_has_n", "safec_vsnprintf_s", "_dec_w16", "_combin_class", "_composite_cp"}


def uncovered_exports(libdir):
    """'all functions' is measured, not assumed: exported text symbols of the freshly built library that no harness,
    model or external check refers to by name (minus the internal helpers above)"""
    lib = os.path.join(libdir, "libsafec.a")
    if not os.path.exists(lib):
        return None
    r = subprocess.run(["nm", "-g", "--defined-only", lib], capture_output=True, text=True)
    syms = sorted({l.split()[2] for l in r.stdout.splitlines() if len(l.split()) == 3 and l.split()[1] == "T"})
    text = ""
    for pat in ("harness/*.c", "harness/*.h", "props/*/*.py", "props/*/*.c"):
        for f in glob.glob(os.path.join(VERIF, pat)):
            text += open(f, errors="replace").read()
    words = set(re.findall(r"[A-Za-z_][A-Za-z0-9_]*", text))
    out = []
    for sym in syms:
        if sym in INTERNAL_EXPORTS:
            continue
        base = sym[1:-4] if sym.startswith("_") and sym.endswith("_chk") else sym
        if sym not in words and base not in words:
            out.append(sym)
    return out


def run_cs_property(prop, tier, campaigns, level="exploration", assumptions=(), dev=False, extra_cov=None):
    """Standard flow for a property decided by cs modules."""
    t0 = time.time()
    outdir = os.path.join(os.environ.get("VERIF_RUNS_DIR") or os.path.join(VERIF, "build", "runs"), prop)
    os.makedirs(outdir, exist_ok=True)
    skipped = []
    for c in campaigns:
        try:
            c.run(tier, outdir)
        except Exception as e:  # a sanitizer-based extra campaign that cannot be built or run here is reported, never a verdict
            if not getattr(c, "optional", False):
                raise
            c.summary = None
            skipped.append("NOTE: optional campaign %s/%s not run: %s" % (c.module, c.libcfg, str(e).strip().splitlines()[0][:200]))
    campaigns = [c for c in campaigns if c.summary is not None]
    known_hits, new, lines = triage(prop, campaigns, dev=dev)
    lines = skipped + lines
    # regression tier: saved cases of fixed/open findings
    hcache = {}

    def harness_for(libcfg):
        if libcfg not in hcache:
            hcache[libcfg] = hbuild.build_harness(libcfg)
        return hcache[libcfg]

    reg = regression_replays(prop, harness_for)
    nviol = 0
    out_lines = []
    for kind, e, p, code, key in reg:
        if kind == "fixed" and code == 1:
            out_lines.append("VIOLATION property=%s replay=%s" % (prop, p))
            out_lines.append("  (regression of fixed finding: %s)" % e["text"])
            nviol += 1
    for key, path, detail in new:
        if path:
            out_lines.append("VIOLATION property=%s replay=%s" % (prop, path))
            out_lines.append("  key=%s %s" % (key, detail))
        else:
            out_lines.append("VIOLATION property=%s replay=%s" % (prop, "(none)"))
            out_lines.append("  key=%s %s" % (key, detail))
        nviol += 1
    ev_total = sum(c.summary["evaluations"] for c in campaigns)
    distinct = sum(c.summary["distinct_nontrivial"] for c in campaigns)
    labels = {}
    for c in campaigns:
        for k, v in c.summary["labels"].items():
            kk = "%s/%s" % (c.libcfg, k) if len({x.libcfg for x in campaigns}) > 1 else k
            labels[kk] = labels.get(kk, 0) + v
    samples = []
    for c in campaigns:
        samples += c.summary["samples"][:6]
    cov = dict(evaluations=ev_total, distinct_nontrivial=distinct,
               rule="; ".join(sorted({c.summary["rule"] for c in campaigns})),
               samples=samples[:12],
               exhaustive=all(c.summary.get("enum_complete", False) for c in campaigns if c.libcfg != "fuzz") and all(c.summary.get("enum_cases", 0) > 0 for c in campaigns if c.libcfg != "fuzz"),
               exhaustive_note="the phase-0 small-scope lattice of each module was enumerated completely (enum_cases); the random phase is sampled",
               enum_cases=sum(c.summary.get("enum_cases", 0) for c in campaigns),
               campaigns=[dict(module=c.module, libcfg=c.libcfg, evaluations=c.summary["evaluations"],
                               nontrivial=c.summary["nontrivial"], distinct_nontrivial=c.summary["distinct_nontrivial"],
                               enum_cases=c.summary.get("enum_cases", 0), enum_complete=c.summary.get("enum_complete"),
                               wall_s=c.summary["wall_s"], workers_died=c.summary.get("workers_died", 0)) for c in campaigns],
               class_histogram={k: v for k, v in sorted(labels.items()) if not k.startswith("VIOL ") and "/VIOL " not in k},
               known_hits=known_hits, new_violation_keys=[k for k, _, _ in new],
               regression_replays=[dict(kind=k, replay=os.path.relpath(p, VERIF), fails=(code == 1)) for k, e, p, code, key in reg])
    if extra_cov:
        cov.update(extra_cov)
    try:
        unc = uncovered_exports(os.path.dirname(campaigns[0].harness))
        if unc is not None:
            cov["uncovered_exports"] = unc
            for sym in unc:
                lines.append("UNCOVERED-EXPORT: %s (exported by the library, referenced by no check; not a violation)" % sym)
    except Exception:
        pass
    if distinct < 2:
        lines.append("BROKEN: generator produced fewer than 2 distinct non-trivial cases")
    write_evidence(prop, tier, level, cov, list(assumptions), time.time() - t0, nviol)
    for l in lines + out_lines:
        print(l)
    print("%s %s: %d cases, %d distinct non-trivial, %d known-finding hits, %d new violation keys, %.1fs" %
          (prop, tier, ev_total, distinct, sum(known_hits.values()), nviol, time.time() - t0))
    return 1 if nviol else 0
