import argparse, os, sys
HERE = os.path.dirname(os.path.abspath(__file__))
sys.path.insert(0, HERE)
import driver
from driver import Campaign, run_cs_property

ASSUME_GENERIC = [
    "x86-64 Linux, glibc; guard pages detect accesses at page granularity flush against the declared extent",
    "library rebuilt from the repository working tree by lib/vlib.py (gcc -O1), called through its exported _chk entry points",
    "callers are truthful: every non-NULL buffer has at least the declared number of elements; object sizes passed as destbos/srcbos are exact or unknown",
]

def c01(tier, dev):
    return run_cs_property("C01", tier, [Campaign("C01", "plain"), Campaign("C01", "plain-noslack", cases=(100000 if tier == "quick" else 1000000))] + foreign_campaigns("C01", tier) + fuzz_campaigns("C01", tier, FUZZ_MODS["C01"]),
                           assumptions=ASSUME_GENERIC, dev=dev)

def c02(tier, dev):
    return run_cs_property("C02", tier, [Campaign("C02", "plain")] + foreign_campaigns("C02", tier) + fuzz_campaigns("C02", tier, FUZZ_MODS["C02"]), assumptions=ASSUME_GENERIC, dev=dev)

# rows of other families are served by the dedicated modules of C14/C15 (tokenizer, conversions) and by the FMT
# harness: their violations of *this* property's statement are selected by key and re-labelled
FOREIGN = {
    "C01": [("C01X", r"^C01:"), ("C15", r":store-|:wild-access"), ("C14", r":write-at-dmax|:wrote-outside-objects"), ("C06B", r"^C01:")],
    "C02": [("C02X", r"^C02:"), ("C15", r":load-"), ("C14", r":read-at-dmax|:read-via-unset-ptr")],
    "C03": [("C03X", r"^C03:"), ("C15", r":not-terminated|:no-space-accepted")],
    "C04": [("C04X", r"^C04:"), ("C15", r":not-cleared"), ("C07C", r"^C04:")],
    "C05": [("C05X", r"^C05:"), ("C07H", r"^C05:"), ("C13", r":handler-calls-[02-9]|:wrong-handler|:handler-code-differs|:handler-on-wrong-thread")],  # "exactly once" also with thread-local and global handlers registered together
    "C06": [("C06X", r"^C06:"), ("C15", r":no-space-accepted|:wrong-characters|:wrong-count"), ("C06B", r"^C06:")],
    "C07": [("C06B", r"^C07:")],
    "C08": [("C08X", r"^C08:"), ("C15", r":stale-slack|:not-terminated")],
}

def foreign_campaigns(prop, tier):
    out = []
    for mod, rx in FOREIGN.get(prop, []):
        # C06B (large operands, ~1 ms per case) and C13 (thread histories) keep their own budgets
        out.append(Campaign(mod, "plain", cases=(None if mod in ("C06B", "C13") else (1500000 if tier == "quick" else 15000000)), keymap=(rx, prop)))
        if mod.endswith("X") or mod == "C15":
            out.append(Campaign(mod, "plain-noslack", cases=(400000 if tier == "quick" else 4000000), keymap=(rx, prop)))
    return out

def optional(c):
    c.optional = True
    return c


def fuzz_campaigns(prop, tier, mods):
    """coverage-guided phase: libFuzzer mutates the choice bytes of the same decoders, against the ASan build of the library"""
    n = 400000 if tier == "quick" else 8000000
    out = []
    for mod in mods:
        km = None if mod == prop else (r"^%s:" % prop, prop)
        c = Campaign(mod, "fuzz", extra=["--fuzz-runs", str(n)], keymap=km)
        c.optional = True
        out.append(c)
    return out


FUZZ_MODS = {"C01": ["C01", "C01X"], "C02": ["C02", "C02X"], "C07": ["C07"], "C09": ["C09"], "C11": ["C11"], "C14": ["C14"], "C15": ["C15"], "C16": ["C16"]}


def two_builds(prop):
    def f(tier, dev):
        n2 = 500000 if tier == "quick" else 5000000
        camps = [Campaign(prop, "plain"), Campaign(prop, "plain-noslack", cases=n2)]
        if prop in FOREIGN:
            camps += foreign_campaigns(prop, tier)
        camps += fuzz_campaigns(prop, tier, FUZZ_MODS.get(prop, []))
        return run_cs_property(prop, tier, camps, assumptions=ASSUME_GENERIC, dev=dev)
    return f

PROPS = {"C01": c01, "C02": c02, "C03": two_builds("C03"), "C04": two_builds("C04"), "C08": two_builds("C08"),
         "C06": two_builds("C06"),
         "C07": two_builds("C07"),
         "C10": lambda tier, dev: run_cs_property("C10", tier, [Campaign("C10", "plain")], assumptions=ASSUME_GENERIC, dev=dev),
         "C09": lambda tier, dev: run_cs_property("C09", tier, [Campaign("C09", "plain")] + fuzz_campaigns("C09", tier, ["C09"]), assumptions=ASSUME_GENERIC[:2] + ["variadic calls are made through libffi with arguments matching every directive; stdout/stdin/FILE sinks are memory streams"], dev=dev),
         "C11": lambda tier, dev: run_cs_property("C11", tier, [Campaign("C11", "plain")] + fuzz_campaigns("C11", tier, ["C11"]), assumptions=ASSUME_GENERIC[:2] + ["glibc snprintf is the reference for the C standard's printf; arguments are passed identically to both through libffi"], dev=dev),
         "C14": two_builds("C14"),
         "C15": two_builds("C15"),
         "C16": lambda tier, dev: run_cs_property("C16", tier, [Campaign("C16", "plain")] + fuzz_campaigns("C16", tier, ["C16"]), assumptions=ASSUME_GENERIC[:2] + ["comparators are consistent total preorders"], dev=dev),
         "C20": lambda tier, dev: run_cs_property("C20", tier, [Campaign("C20", "plain")], level="fault_enumeration", assumptions=ASSUME_GENERIC[:2] + ["allocation requests of the statically linked library are intercepted with -Wl,--wrap=malloc,calloc,realloc,free; allocations made inside libc on the library's behalf are not"], dev=dev),
         "C13": lambda tier, dev: run_cs_property("C13", tier, [Campaign("C13", "plain"), Campaign("C20", "plain", keymap=(r":wrong-handler-kind", "C13"))], assumptions=ASSUME_GENERIC[:2] + ["the harness owns the schedule: real pthreads execute one operation at a time, so the interleaving is the generated sequence", "the default handler is observed through -Wl,--wrap=ignore_handler_s"], dev=dev),
         "C12": lambda tier, dev: run_cs_property("C12", tier, [Campaign("C12", "shared"), optional(Campaign("C12T", "tsan", cases=(3000 if tier == "quick" else 60000))),
                                                                         Campaign("C05", "plain", cases=(600000 if tier == "quick" else 6000000), keymap=(r"^C12:", "C12")),
                                                                         Campaign("C05X", "plain", cases=(600000 if tier == "quick" else 6000000), keymap=(r"^C12:", "C12"))], assumptions=["O-B: the same calls made by two threads on private buffers under ThreadSanitizer (clang -fsanitize=thread build of library and harness); a reported race on an object of the executable is attributed by symbol", "x86-64 Linux/glibc; the harness is linked against libsafec.so built from the working tree (gcc -O1 -fPIC); the writable PT_LOAD segment of the library minus RELRO is its static storage", "state kept inside libc on the library's behalf is libc's reentrancy, not judged", "the handler registration words str_handler/mem_handler are the allowed mutable state", "O-D: in the statically linked plain build, umask/chdir/setenv/unsetenv/putenv/srand/rand/strtok/asctime/ctime/gmtime/localtime/tmpnam(NULL)/setlocale(non-null) are interposed at link time; a call of one of them from inside a generated library call is use of process-wide state"], dev=dev),
         "C05": lambda tier, dev: run_cs_property("C05", tier, [Campaign("C05", "plain")] + foreign_campaigns("C05", tier), assumptions=ASSUME_GENERIC, dev=dev)}

def external(prop, script):
    """properties decided by a self-contained program under props/ (same CLI contract)"""
    def f(tier, dev):
        import subprocess
        r = subprocess.run([sys.executable, os.path.join(driver.VERIF, script), "--tier", tier])
        return r.returncode
    return f

PROPS["C18"] = external("C18", "props/c18/run.py")
PROPS["C19"] = external("C19", "props/c19/run.py")
PROPS["C17"] = external("C17", "props/c17/run.py")
EXTERNAL_REPLAY = {"C18": "props/c18/run.py", "C19": "props/c19/run.py", "C17": "props/c17/run.py"}

def main():
    ap = argparse.ArgumentParser()
    ap.add_argument("prop")
    ap.add_argument("--tier", default=os.environ.get("VERIF_TIER", "quick"), choices=["quick", "thorough"])
    ap.add_argument("--replay")
    ap.add_argument("--dev", action="store_true", help="development: skip shrinking, list every key")
    a = ap.parse_args()
    os.chdir(driver.VERIF)
    if a.replay and a.prop in EXTERNAL_REPLAY:
        import subprocess
        sys.exit(subprocess.run([sys.executable, os.path.join(driver.VERIF, EXTERNAL_REPLAY[a.prop]), "--replay", a.replay]).returncode)
    if a.replay:
        mod, libcfg = driver.case_meta(a.replay)
        import hbuild
        h = hbuild.build_harness(libcfg)
        code, key, txt = driver.replay_case(h, mod, a.replay, libcfg)
        print(txt)
        sys.exit(1 if code == 1 else 0)
    if a.prop not in PROPS:
        print("unknown property", a.prop)
        sys.exit(2)
    try:
        rc = PROPS[a.prop](a.tier, a.dev)
    except SystemExit:
        raise
    except BaseException as e:  # a failure of the machinery is never a verdict: exit 2, no VIOLATION line
        import traceback
        traceback.print_exc()
        print("BROKEN: the check itself failed (%s: %s); nothing was decided" % (type(e).__name__, str(e).splitlines()[0][:200] if str(e) else ""))
        sys.exit(2)
    sys.exit(rc)

main()
