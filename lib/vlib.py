#!/usr/bin/env python3
"""Build libsafec from the *current working tree* of the repository into
/verif/build/<config>/<hash>/ (content-hash keyed cache; stale dirs deleted).

Configs:
  plain          gcc -O1 -g static lib
  plain-noslack  same, SAFECLIB_STR_NULL_SLACK undefined (as --disable-null-slack)
  asan           clang -O1 -g -fsanitize=address,undefined (+fuzzer-no-link)
  shared         gcc -O1 -g -fPIC libsafec.so
  tsan           clang -O1 -g -fsanitize=thread
VERIF_SRC=<dir> points at a scratch copy instead of /repo (mutation self-tests).
"""
import hashlib, os, subprocess, sys, shutil, fcntl, re
from concurrent.futures import ThreadPoolExecutor

VERIF = os.path.dirname(os.path.dirname(os.path.abspath(__file__)))
SUPPORT = os.path.join(VERIF, "support")
GUARD = "SAFECLIB_VERIF"

EXCLUDE = {"slkm/slkm_init.c", "extwchar/wcsstr.c", "io/tmpnam_s.c"}

CONFIGS = {
    "plain": dict(cc="gcc", cflags=["-O1", "-g", "-fno-strict-aliasing", "-fno-delete-null-pointer-checks", "-fno-lifetime-dse"], kind="static"),
    "plain-noslack": dict(cc="gcc", cflags=["-O1", "-g", "-fno-strict-aliasing", "-fno-delete-null-pointer-checks", "-fno-lifetime-dse"], kind="static", noslack=True),
    "asan": dict(cc="clang", cflags=["-O1", "-g", "-fno-omit-frame-pointer", "-fsanitize=fuzzer-no-link,address,undefined",
                                     "-fno-sanitize-recover=undefined", "-fno-sanitize=alignment,shift-base,pointer-overflow,function",
                                     "-fno-strict-aliasing"], kind="static"),
    # coverage-instrumented + ASan build for the libFuzzer phase of the runner (memory errors inside the library's own
    # stack/global/heap objects become visible; no UBSan: undefined behaviour outside the 20 properties is not judged)
    "fuzz": dict(cc="clang", cflags=["-O1", "-g", "-fno-omit-frame-pointer", "-fsanitize=fuzzer-no-link,address", "-fno-strict-aliasing"], kind="static"),
    "shared": dict(cc="gcc", cflags=["-O1", "-g", "-fPIC", "-fno-strict-aliasing", "-fno-delete-null-pointer-checks", "-fno-lifetime-dse"], kind="shared"),
    "tsan": dict(cc="clang", cflags=["-O1", "-g", "-fsanitize=thread", "-fno-strict-aliasing"], kind="static"),
}


def src_root():
    return os.environ.get("VERIF_SRC", "/repo")


def list_sources(root):
    out = []
    for d, _, fs in os.walk(os.path.join(root, "src")):
        for f in fs:
            if f.endswith(".c"):
                rel = os.path.relpath(os.path.join(d, f), os.path.join(root, "src"))
                if rel not in EXCLUDE:
                    out.append(rel)
    return sorted(out)


def gen_headers(root):
    """The configure outputs; use the tree's if present else /verif/support."""
    res = {}
    for rel in ["config.h", "include/safe_config.h", "include/safe_types.h", "include/safe_lib_errno.h"]:
        p = os.path.join(root, rel)
        if not os.path.exists(p):
            p = os.path.join(SUPPORT, os.path.basename(rel))
        res[rel] = p
    return res


def tree_hash(root):
    h = hashlib.sha256()
    files = []
    for sub in ["src", "include"]:
        for d, _, fs in os.walk(os.path.join(root, sub)):
            for f in fs:
                if f.endswith((".c", ".h")):
                    files.append(os.path.join(d, f))
    for p in gen_headers(root).values():
        files.append(p)
    for p in sorted(set(files)):
        h.update(p.encode())
        with open(p, "rb") as fh:
            h.update(hashlib.sha256(fh.read()).digest())
    return h.hexdigest()[:16]


def build(config, quiet=True):
    root = src_root()
    cfg = CONFIGS[config]
    th = tree_hash(root)
    base = os.path.join(VERIF, "build", config)
    os.makedirs(base, exist_ok=True)
    out = os.path.join(base, th)
    lockf = open(os.path.join(base, ".lock"), "w")
    fcntl.flock(lockf, fcntl.LOCK_EX)
    try:
        libname = "libsafec.so" if cfg["kind"] == "shared" else "libsafec.a"
        if os.path.exists(os.path.join(out, "OK")):
            os.utime(out, None)   # LRU: builds in use stay recent
            return out
        # remove stale builds of this config (disk): keep the 5 most recently used
        old = sorted((os.path.join(base, d) for d in os.listdir(base) if os.path.isdir(os.path.join(base, d))),
                     key=lambda p: os.path.getmtime(p), reverse=True)
        for p in old[5:]:
            shutil.rmtree(p, ignore_errors=True)
        if os.path.exists(out):
            shutil.rmtree(out, ignore_errors=True)   # partial build (a previous compile error)
        os.makedirs(os.path.join(out, "obj"))
        inc = os.path.join(out, "inc")
        os.makedirs(os.path.join(inc, "include"))
        gh = gen_headers(root)
        # private include dir holding the configure outputs (so a tree lacking
        # them still builds, and so the noslack variant can override safe_config.h)
        shutil.copy(gh["config.h"], os.path.join(inc, "config.h"))
        for rel in ["include/safe_config.h", "include/safe_types.h", "include/safe_lib_errno.h"]:
            shutil.copy(gh[rel], os.path.join(inc, rel))
        if cfg.get("noslack"):
            p = os.path.join(inc, "include/safe_config.h")
            s = open(p).read()
            s2 = re.sub(r"#define SAFECLIB_STR_NULL_SLACK 1", "#undef SAFECLIB_STR_NULL_SLACK", s)
            assert s != s2
            open(p, "w").write(s2)
        # all other public headers are taken from the tree
        for f in os.listdir(os.path.join(root, "include")):
            if f.endswith(".h") and not os.path.exists(os.path.join(inc, "include", f)):
                os.symlink(os.path.join(root, "include", f), os.path.join(inc, "include", f))
        flags = ["-DHAVE_CONFIG_H", "-D" + GUARD + "=1", "-I" + inc, "-I" + os.path.join(inc, "include"),
                 "-I" + os.path.join(root, "src"), "-w"] + cfg["cflags"]
        srcs = list_sources(root)
        objs = []

        def cc(rel):
            o = os.path.join(out, "obj", rel.replace("/", "_")[:-2] + ".o")
            cmd = [cfg["cc"]] + flags + ["-c", os.path.join(root, "src", rel), "-o", o]
            r = subprocess.run(cmd, capture_output=True, text=True)
            if r.returncode != 0:
                raise RuntimeError("compile failed: %s\n%s" % (" ".join(cmd), r.stderr))
            return o

        with ThreadPoolExecutor(16) as ex:
            objs = list(ex.map(cc, srcs))
        if cfg["kind"] == "shared":
            r = subprocess.run(["gcc", "-shared", "-o", os.path.join(out, libname), "-Wl,-z,now,-z,relro"] + objs,
                               capture_output=True, text=True)
        else:
            r = subprocess.run(["ar", "rcs", os.path.join(out, libname)] + objs, capture_output=True, text=True)
        if r.returncode != 0:
            raise RuntimeError("link failed: " + r.stderr)
        open(os.path.join(out, "OK"), "w").write(th + "\n")
        return out
    finally:
        fcntl.flock(lockf, fcntl.LOCK_UN)
        lockf.close()


def include_flags(libdir):
    root = src_root()
    inc = os.path.join(libdir, "inc")
    return ["-DHAVE_CONFIG_H", "-I" + inc, "-I" + os.path.join(inc, "include"), "-I" + os.path.join(root, "src")]


if __name__ == "__main__":
    for c in sys.argv[1:]:
        print(build(c))
