#!/usr/bin/env python3
"""Build the cs harness binary against a freshly built libsafec config."""
import os, subprocess, sys, hashlib
sys.path.insert(0, os.path.dirname(os.path.abspath(__file__)))
import vlib

VERIF = vlib.VERIF
ENGINE = [os.path.join(VERIF, "engine", f) for f in ["arena.c", "run.c"]]

# libc entry points that read or change process-wide state / use static result buffers (harness/wraps.c, C12)
GLOBSTATE_WRAPS = ["umask", "chdir", "setenv", "unsetenv", "putenv", "srand", "rand", "strtok", "asctime", "ctime", "gmtime", "localtime", "tmpnam", "setlocale"]

def harness_sources():
    d = os.path.join(VERIF, "harness")
    return sorted(os.path.join(d, f) for f in os.listdir(d) if f.endswith(".c"))

def build_harness(config="plain", extra_ldflags=()):
    libdir = vlib.build(config)
    out = os.path.join(libdir, "harness")
    srcs = ENGINE + harness_sources()
    hdrs = [os.path.join(VERIF, "engine", f) for f in os.listdir(os.path.join(VERIF, "engine")) if f.endswith(".h")] + \
           [os.path.join(VERIF, "harness", f) for f in os.listdir(os.path.join(VERIF, "harness")) if f.endswith(".h")]
    h = hashlib.sha256()
    for p in srcs + hdrs:
        h.update(open(p, "rb").read())
    stamp = os.path.join(libdir, "harness.stamp")
    hv = h.hexdigest()
    if os.path.exists(out) and os.path.exists(stamp) and open(stamp).read() == hv:
        return out
    cc = "clang" if config in ("asan", "tsan", "fuzz") else "gcc"
    cflags = ["-O1", "-g", "-std=gnu11", "-Wall", "-Wno-unused-function", "-Wno-format-truncation", "-fno-strict-aliasing"]
    if config == "asan":
        cflags += ["-fsanitize=address,undefined", "-fno-sanitize-recover=undefined"]
    if config == "fuzz":
        cflags += ["-fsanitize=address", "-fno-omit-frame-pointer", "-DCS_LIBFUZZER"]
    if config == "tsan":
        cflags += ["-fsanitize=thread"]
    objs = []
    from concurrent.futures import ThreadPoolExecutor
    od = os.path.join(libdir, "hobj")
    os.makedirs(od, exist_ok=True)
    def cc1(s):
        o = os.path.join(od, os.path.basename(s)[:-2] + ".o")
        cmd = [cc] + cflags + vlib.include_flags(libdir) + ["-I" + os.path.join(VERIF, "engine"), "-c", s, "-o", o]
        r = subprocess.run(cmd, capture_output=True, text=True)
        if r.returncode != 0:
            if os.path.basename(s).startswith("props_") and not os.environ.get("VERIF_STRICT"):
                # modules are linked weakly: a property file that does not compile only disables its own module
                sys.stderr.write("WARNING: %s does not compile, its modules are left out\n%s\n" % (s, r.stderr[-1500:]))
                return None
            raise RuntimeError("harness compile failed: %s\n%s" % (" ".join(cmd), r.stderr))
        if r.stderr.strip():
            sys.stderr.write(r.stderr)
        return o
    with ThreadPoolExecutor(16) as ex:
        objs = [o for o in ex.map(cc1, srcs) if o]
    libargs = [os.path.join(libdir, "libsafec.a")] if config != "shared" else ["-L" + libdir, "-lsafec", "-Wl,-rpath," + libdir]
    if config == "fuzz":
        import glob as _g
        rt = _g.glob("/usr/lib/llvm-14/lib/clang/*/lib/linux/libclang_rt.fuzzer_no_main-x86_64.a")
        if not rt:
            raise RuntimeError("libFuzzer runtime (libclang_rt.fuzzer_no_main) not found")
        libargs = libargs + [rt[0], "-lstdc++"]
    cmd = [cc] + cflags + objs + libargs + ["-lffi", "-lpthread", "-lm", "-ldl", "-Wl,--wrap=malloc,--wrap=calloc,--wrap=realloc,--wrap=free,--wrap=ignore_handler_s", "-Wl," + ",".join("--wrap=" + x for x in GLOBSTATE_WRAPS), "-o", out] + list(extra_ldflags)
    r = subprocess.run(cmd, capture_output=True, text=True)
    if r.returncode != 0:
        raise RuntimeError("harness link failed:\n" + r.stderr)
    open(stamp, "w").write(hv)
    return out

if __name__ == "__main__":
    print(build_harness(sys.argv[1] if len(sys.argv) > 1 else "plain"))
