GEN_NOTE = ("Trusted base: x86-64 Linux/glibc page protection and signal delivery; gcc -O1 builds of the working tree made by lib/vlib.py; "
            "the harness' reading of each function's doc comment (rows.c flags). Exploration only: absence of findings on the explored cases, no proof. "
            "Families covered so far: COPY CAT MEMCPY FILL INPLACE QUERY rows of harness/rows.c.")
CLAIMED = {
 "C01": dict(technique="property-based testing: exhaustive small-scope enumeration + seeded random generation over a choice-sequence engine, read-only guard pages and canaries as oracle, shrinking to a replay file",
             level_text="Every generated call with truthful size declarations is executed with its buffers flush against write-protected guard pages and surrounded by canaries; a store outside the declared destination faults or corrupts a canary and is reported. Small-scope lattice enumerated exhaustively, larger sizes sampled.",
             level_note=GEN_NOTE, design_ref="DESIGN.md 3 C01"),
 "C02": dict(technique="property-based testing: exhaustive small-scope enumeration + seeded random generation, PROT_NONE guard pages flush against every declared extent as oracle, shrinking",
             level_text="Every operand is placed so that its declared extent ends (or starts) at an inaccessible page; any load outside the declared extents faults and is attributed to the operand. Unterminated arrays exactly filling their size are a generated class.",
             level_note=GEN_NOTE, design_ref="DESIGN.md 3 C02"),
 "C03": dict(technique="property-based testing: generated calls incl. every failure class, garbage-prefilled destinations, oracle = a NUL exists within dmax after return; two library builds (null-slack on/off)",
             level_text="After each generated call to a string-producing function with a usable destination the harness looks for a terminator inside the first dmax elements; documented zero-length no-ops are exempt.",
             level_note=GEN_NOTE, design_ref="DESIGN.md 3 C03"),
 "C04": dict(technique="property-based testing: generated failing calls, position-coded destination prefill vs disjoint source alphabet, oracle = dest[0]==0, no source value visible, all dmax cells zero for the failure classes the property names, source unchanged",
             level_text="Failures are forced through every argument class; anything a failed call wrote is recognisable because destination prefill and source alphabets are disjoint.",
             level_note=GEN_NOTE, design_ref="DESIGN.md 3 C04"),
 "C05": dict(technique="property-based testing: arguments drawn independently from violation classes, counting constraint handlers as observers, oracle = handler invoked exactly once with the returned code when a documented constraint is definitely violated, never on benign-by-construction calls",
             level_text="A reference constraint model (clear-cut predicates only) decides when a violation is certain and when a call is certainly valid; in between only the generic invariants (at most one handler call, handler code == returned code, failure return implies handler) are judged.",
             level_note=GEN_NOTE, design_ref="DESIGN.md 3 C05"),
 "C08": dict(technique="property-based testing: dirty destinations, result-length x dmax sweep across the 0x20 loop/memset switch, oracle = every element from the terminator to dmax is zero (null-slack build) / terminator present (no-slack build)",
             level_text="Success cases of the rows whose documentation promises nulled slack are checked element by element behind the terminator.",
             level_note=GEN_NOTE, design_ref="DESIGN.md 3 C08"),
}
UNCLAIMED = {}
