GEN_NOTE = ("Trusted base: x86-64 Linux/glibc page protection and signal delivery; gcc -O1 builds of the working tree made by lib/vlib.py; "
            "the harness' reading of each function's doc comment (rows.c flags). Exploration only: absence of findings on the explored cases, no proof. "
            "Families covered so far: COPY CAT MEMCPY FILL INPLACE QUERY rows of harness/rows.c.")
CLAIMED = {
 "C01": dict(technique="property-based testing: exhaustive small-scope enumeration + seeded random generation over a choice-sequence engine, read-only guard pages and canaries as oracle, shrinking to a replay file",
             level_text="Every generated call with truthful size declarations is executed with its buffers flush against write-protected guard pages and surrounded by canaries; a store outside the declared destination faults or corrupts a canary and is reported. Small-scope lattice enumerated exhaustively, larger sizes sampled.",
             level_note=GEN_NOTE, design_ref="DESIGN.md 3 C01"),
 "C02": dict(technique="property-based testing: exhaustive small-scope enumeration + seeded random generation, PROT_NONE guard pages flush against every declared extent as oracle, shrinking",
             level_text="Every operand is placed so that its declared extent ends (or starts) at an inaccessible page; any load outside the declared extents faults and is attributed to the operand. Unterminated arrays exactly filling their size are a generated class.",
             level_note=GEN_NOTE, design_ref="DESIGN.md 3 C02"),
 "C03": dict(technique="property-based testing: generated calls incl. every failure class, garbage-prefilled destinations, oracle = a NUL exists within dmax after return; two library builds (null-slack on/off)",
             level_text="After each generated call to a string-producing function with a usable destination the harness looks for a terminator inside the first dmax elements; documented zero-length no-ops are exempt.",
             level_note=GEN_NOTE, design_ref="DESIGN.md 3 C03"),
 "C04": dict(technique="property-based testing: generated failing calls, position-coded destination prefill vs disjoint source alphabet, oracle = dest[0]==0, no source value visible, all dmax cells zero for the failure classes the property names, source unchanged",
             level_text="Failures are forced through every argument class; anything a failed call wrote is recognisable because destination prefill and source alphabets are disjoint.",
             level_note=GEN_NOTE, design_ref="DESIGN.md 3 C04"),
 "C05": dict(technique="property-based testing: arguments drawn independently from violation classes, counting constraint handlers as observers, oracle = handler invoked exactly once with the returned code when a documented constraint is definitely violated, never on benign-by-construction calls",
             level_text="A reference constraint model (clear-cut predicates only) decides when a violation is certain and when a call is certainly valid; in between only the generic invariants (at most one handler call, handler code == returned code, failure return implies handler) are judged.",
             level_note=GEN_NOTE, design_ref="DESIGN.md 3 C05"),
 "C08": dict(technique="property-based testing: dirty destinations, result-length x dmax sweep across the 0x20 loop/memset switch, oracle = every element from the terminator to dmax is zero (null-slack build) / terminator present (no-slack build)",
             level_text="Success cases of the rows whose documentation promises nulled slack are checked element by element behind the terminator.",
             level_note=GEN_NOTE, design_ref="DESIGN.md 3 C08"),
}

CLAIMED.update({
 "C06": dict(technique="property-based testing: valid operands from enumerated lattices and seeded random generation, differential oracle against reference models (libc counterpart on bounded private copies / doc-derived naive implementations), both library builds",
             level_text="Success must yield exactly the reference result (contents, returned pointer, counts); when the reference result including the terminator does not fit in dmax the call must fail. Rows whose doc is ambiguous are declined by the model and listed in evidence.",
             level_note=GEN_NOTE + " Reference models: harness/model.c.", design_ref="DESIGN.md 3 C06"),
 "C07": dict(technique="property-based testing: exhaustive enumeration of every element offset of src relative to dest inside one object (small sizes) + random larger sizes, three-zone oracle (disjoint / hard overlap / in between) against a copy-through-temporary reference",
             level_text="For each of the 22 copy/concatenate/memcpy/memmove rows every placement is classified from the elements the reference reads and writes; disjoint operands must behave normally, hard overlaps must fail with dest cleared, memmove rows must equal the temporary-copy result, nothing outside dest may change.",
             level_note=GEN_NOTE + " Identical pointers are accepted only for the rows that special-case them in code pinned by the test suite.", design_ref="DESIGN.md 3 C07"),
 "C10": dict(technique="property-based testing: exhaustive enumeration of all operand contents over a 4-symbol alphabet (case pair, high-bit byte) for lengths 0..3 x declared sizes, plus random longer operands; differential oracle against standard-function semantics",
             level_text="Sign of comparisons, found positions, span counts, lengths, first/last same/diff indices, prefix and character-class predicates are compared with reference implementations; operands must be unchanged.",
             level_note=GEN_NOTE + " Not modelled (declined): strnatcmp_s, wcsnatcmp_s, wcsicmp_s, strismixedcase_s, strispassword_s, empty-string corner cases the docs leave open; collation only in the C locale.", design_ref="DESIGN.md 3 C10"),
 "C18": dict(engine="c18-program-generator", technique="generated client programs (seeded program generator) x compiler/optimisation/LTO build matrix, out-of-band observation of the dead buffer by a non-LTO spy TU, plain-memset positive control per victim",
             level_text="Each generated victim erases a dying stack/heap/static buffer as its last action; a spy reads the bytes afterwards. A configuration only counts when the plain-memset control in the same binary shows residual data.",
             level_note="gcc 12 and clang 14 on x86-64 only, -O0..-O3/-Os, with and without -flto; file-static victims always count as void controls; memzero_s delegates to glibc explicit_bzero.", design_ref="DESIGN.md 3 C18"),
 "C19": dict(engine="c19-native+valgrind", technique="exhaustive byte-pair enumeration at every first-difference position (n<=8) plus random regions for the result; secret-tainting under Valgrind memcheck (operands marked undefined, error-count delta) for data independence across 8 compiler/optimisation variants, with a leaky comparator as live-channel control",
             level_text="Result oracle: bcmp==0 iff equal, memcmp == sign of the first unsigned difference, regions flush against PROT_NONE pages. Independence oracle: any branch or address depending on operand bytes raises a memcheck error inside the function.",
             level_note="Decides control-flow/address independence as seen by memcheck definedness tracking, not cycle-level timing; gcc 12/clang 14, x86-64.", design_ref="DESIGN.md 3 C19"),
})
CLAIMED["C09"] = dict(technique="property-based testing: grammar-generated format strings (exhaustive small lattice of n-directive shapes + random multi-directive formats) over all 28 entry points called through libffi; oracle = 16-byte sentinel behind every n argument unchanged, negative/EOF return and constraint handler invoked",
    level_text="Every generated format with a real n conversion must leave its sentinel argument bit-identical and be rejected through the constraint handler; escaped look-alikes are generated and counted but never judged.",
    level_note=GEN_NOTE.split(" Families")[0] + " Arguments always match the directives (libc is the delegate for 21 entry points); stdout/stdin/FILE* are memory streams.", design_ref="DESIGN.md 3 C09")
UNCLAIMED = {}
