#!/usr/bin/env python3
"""C19 -- timingsafe comparisons are correct and data-independent.

O-1 (native, guard pages): exhaustive byte pairs for n<=8 + random n<=4096,
    against libsafec.a built from the tree.
O-2 (Valgrind memcheck, secrets = undefined memory): the two source files at
    {gcc,clang} x {-O0..-O3}; any error inside the call = secret-dependent
    branch/address.  A leaky comparator in the same binary is the live-channel
    control.

  run.py [--tier quick|thorough] [--replay FILE] [--keep]
env: VERIF_SEED (default 1), VERIF_TIER, VERIF_SRC
exit: 0 nothing new, 1 VIOLATION, 2 BROKEN (machinery; never a finding)
"""
import argparse, hashlib, json, os, re, shutil, subprocess, sys, time
from concurrent.futures import ThreadPoolExecutor

HERE = os.path.dirname(os.path.abspath(__file__))
sys.path.insert(0, "/verif/lib")
import vlib, driver

PROP = "C19"
VERIF = "/verif"
BUILD = os.path.join(VERIF, "build", "c19")
REPLAYS = os.path.join(VERIF, "replays", PROP)
TS_SRC = ["extmem/timingsafe_bcmp.c", "extmem/timingsafe_memcmp.c"]
DEP_SRC = ["mem/safe_mem_constraint.c", "ignore_handler_s.c", "abort_handler_s.c"]
VARIANTS = [dict(cc=cc, opt=o) for cc in ("gcc", "clang") for o in ("-O0", "-O1", "-O2", "-O3")]
FNS = ["timingsafe_bcmp", "timingsafe_memcmp"]
VG_TIMEOUT = {"quick": 900, "thorough": 7200}


O1_SAMPLES = []


class Broken(Exception):
    pass


def vname(v):
    return "%s%s" % (v["cc"], v["opt"])


def run(cmd, timeout=600, **kw):
    return subprocess.run(cmd, capture_output=True, text=True, timeout=timeout, **kw)


def must(cmd, what):
    r = run(cmd)
    if r.returncode != 0:
        raise Broken("%s failed: %s\n%s" % (what, " ".join(cmd), r.stderr[-1500:]))


# ----------------------------------------------------------------------- O-1
def build_o1(libdir, incflags, d):
    os.makedirs(d, exist_ok=True)
    exe = os.path.join(d, "o1")
    must(["gcc", "-O1", "-g", "-w"] + incflags + [os.path.join(HERE, "o1.c"), os.path.join(libdir, "libsafec.a"), "-o", exe], "O-1 harness build")
    return exe


def parse_viol_o1(line):
    m = re.match(r"VIOL (\S+) fn=(\d) n=(\d+) bos=(\d) place=(\d) a=(\S+) b=(\S+) got=(-?\d+) want=(-?\d+) ?(.*)$", line)
    if not m:
        return None
    key, fn, n, bos, place, a, b, got, want, extra = m.groups()
    return dict(oracle="O1", key=key, fn=FNS[int(fn)], n=int(n), bosmode=int(bos), place=int(place), a=a, b=b, got=int(got),
                want=int(want), extra=extra)


def run_o1(exe, seed, nrandom):
    r = run([exe, "run", str(seed), str(nrandom)], timeout=1800)
    if r.returncode != 0 or "DONE" not in r.stdout:
        raise Broken("O-1 harness did not finish (rc=%s): %s" % (r.returncode, (r.stdout + r.stderr)[-400:]))
    stat, viols, keys = {}, [], {}
    for line in r.stdout.splitlines():
        if line.startswith("SAMPLE "):
            O1_SAMPLES.append(dict(oracle="O-1", case=line[7:], run_as="both functions x 4 object-size modes x 2 guard placements"))
        if line.startswith("STAT "):
            stat = {k: int(v) for k, v in (kv.split("=") for kv in line.split()[1:])}
        elif line.startswith("VIOL "):
            v = parse_viol_o1(line)
            if v:
                viols.append(v)
        elif line.startswith("KEY "):
            _, k, c = line.split()
            keys[k] = int(c)
    return stat, viols, keys


def replay_o1(exe, c):
    if c["a"] == "LONG":
        return None
    r = run([exe, "one", c["fn"], str(c["n"]), str(c["bosmode"]), str(c["place"]), c["a"], c["b"]])
    if r.returncode not in (0, 1):
        return None
    return r.returncode == 1


# ----------------------------------------------------------------------- O-2
def build_o2(v, root, incflags, d):
    vd = os.path.join(d, vname(v))
    shutil.rmtree(vd, ignore_errors=True)
    os.makedirs(vd)
    objs = []
    for rel in TS_SRC:
        o = os.path.join(vd, os.path.basename(rel)[:-2] + ".o")
        must([v["cc"], v["opt"], "-gdwarf-4", "-w"] + incflags + ["-c", os.path.join(root, "src", rel), "-o", o], "variant compile")
        objs.append(o)
    for rel in DEP_SRC:
        o = os.path.join(vd, os.path.basename(rel)[:-2] + ".o")
        must(["gcc", "-O1", "-g", "-w"] + incflags + ["-c", os.path.join(root, "src", rel), "-o", o], "dependency compile")
        objs.append(o)
    exe = os.path.join(vd, "o2")
    must(["gcc", "-O1", "-g", "-w"] + incflags + [os.path.join(HERE, "o2.c")] + objs + ["-o", exe], "O-2 harness link")
    return exe


def valgrind_cmd(logf):
    return ["valgrind", "--tool=memcheck", "-q", "--error-limit=no", "--leak-check=no", "--undef-value-errors=yes",
            "--num-callers=6", "--log-file=" + logf]


def parse_viol_o2(line, v, wrong=False):
    m = re.match(r"VIOL fn=(\S+) n=(\d+) a1=(\d+) a2=(\d+) bos=(\d) cls=(\S+) idx=(-?\d+) (?:delta=(\d+)|got=(-?\d+) want=(-?\d+)) a=(\S+) b=(\S+)", line)
    if not m:
        return None
    fn, n, a1, a2, bos, cls, idx, delta, got, want, a, b = m.groups()
    vn = "%s-%s" % (v["cc"], v["opt"].lstrip("-"))
    c = dict(oracle="O2", fn=fn, variant=v, n=int(n), a1=int(a1), a2=int(a2), bosmode=int(bos), cls=cls, idx=int(idx), a=a, b=b)
    if wrong:
        c.update(key="%s:%s:result:wrong-when-compiled-%s" % (PROP, fn, vn), what="wrong", got=int(got), want=int(want), delta=0)
    else:
        c.update(key="%s:%s:secret-dependent:%s" % (PROP, fn, vn), what="secret", delta=int(delta))
    return c


def run_o2(v, exe, seed, tier):
    maxn, nalign, fullpos = (160, 16, 160) if tier == "quick" else (512, 16, 160)
    logf = os.path.join(os.path.dirname(exe), "valgrind.log")
    t0 = time.time()
    try:
        r = run(valgrind_cmd(logf) + [exe, "run", str(seed), str(maxn), str(nalign), str(fullpos)], timeout=VG_TIMEOUT[tier])
    except subprocess.TimeoutExpired:
        return dict(variant=v, status="timeout", wall=time.time() - t0)
    if r.returncode != 0 or "DONE" not in r.stdout:
        return dict(variant=v, status="broken", err=(r.stdout + r.stderr)[-400:], wall=time.time() - t0)
    stat, viols, samples = {}, [], []
    for line in r.stdout.splitlines():
        if line.startswith("SAMPLE "):
            samples.append(dict(oracle="O-2", variant=vname(v), case=line[7:], regions="both VALGRIND_MAKE_MEM_UNDEFINED during the call"))
        if line.startswith("STAT "):
            stat = {k: int(x) for k, x in (kv.split("=") for kv in line.split()[1:])}
        elif line.startswith("VIOL "):
            x = parse_viol_o2(line, v)
            if x:
                viols.append(x)
        elif line.startswith("WRONG "):
            x = parse_viol_o2(line.replace("WRONG ", "VIOL ", 1), v, wrong=True)
            if x:
                viols.append(x)
    log = ""
    try:
        log = open(logf, errors="replace").read(400000)
    except OSError:
        pass
    return dict(variant=v, status="ok", stat=stat, viols=viols, log=log, samples=samples, wall=time.time() - t0, params=dict(maxn=maxn, nalign=nalign, fullpos=fullpos),
                on_valgrind="NOTE not running on valgrind" not in r.stdout)


def first_report(log, fn):
    """the first memcheck report whose stack goes through the function under test"""
    blocks = re.split(r"\n==\d+== *\n", log)
    for b in blocks:
        if "_" + fn + "_chk" in b:
            return " | ".join(l.split("==")[-1].strip() for l in b.splitlines()[:3])
    return "(no report naming the function in the log excerpt)"


def replay_o2(exe, c):
    """-> True violates / False passes / None unobservable"""
    logf = os.path.join(os.path.dirname(exe), "valgrind-replay.log")
    try:
        r = run(valgrind_cmd(logf) + [exe, "one", c["fn"], str(c["n"]), str(c["a1"]), str(c["a2"]), str(c["bosmode"]), c["a"], c["b"]], timeout=300)
    except subprocess.TimeoutExpired:
        return None
    m = re.search(r"ONE fn=\S+ n=\d+ delta=(\d+) leaky_dead=(\d+) wrong=(\d+)", r.stdout)
    if not m or "NOTE not running on valgrind" in r.stdout:
        return None
    if c.get("what") == "wrong":
        return int(m.group(3)) > 0
    if int(m.group(2)) and c["n"] >= 1:
        return None  # channel dead for this case
    return int(m.group(1)) > 0


# ------------------------------------------------------------------- replays
def save_replay(c):
    os.makedirs(REPLAYS, exist_ok=True)
    blob = dict(c, property=PROP, note="run: /verif/props/c19/run.py --replay <this file>")
    h = hashlib.sha1(json.dumps(blob, sort_keys=True).encode()).hexdigest()[:10]
    p = os.path.join(REPLAYS, "%s-%s.json" % (re.sub(r"[^A-Za-z0-9_.-]+", "_", c["key"]), h))
    with open(p, "w") as f:
        json.dump(blob, f, indent=1)
        f.write("\n")
    return p


class Ctx:
    def __init__(self, rundir):
        self.root = vlib.src_root()
        self.libdir = vlib.build("plain")
        self.inc = vlib.include_flags(self.libdir)
        self.rundir = rundir
        self._o1 = None
        self._o2 = {}

    def o1(self):
        if not self._o1:
            self._o1 = build_o1(self.libdir, self.inc, os.path.join(self.rundir, "o1"))
        return self._o1

    def o2(self, v):
        k = vname(v)
        if k not in self._o2:
            self._o2[k] = build_o2(v, self.root, self.inc, os.path.join(self.rundir, "o2"))
        return self._o2[k]


def replay_blob(ctx, c):
    if c.get("oracle") == "O1":
        return replay_o1(ctx.o1(), c)
    return replay_o2(ctx.o2(c["variant"]), c)


def sweep_stale(base):
    """remove scratch dirs of earlier runs whose process is gone (disk hygiene)"""
    if not os.path.isdir(base):
        return
    for d in os.listdir(base):
        m = re.search(r"-(\d+)$", d)
        if m and not os.path.exists("/proc/%s" % m.group(1)):
            shutil.rmtree(os.path.join(base, d), ignore_errors=True)


def main():
    ap = argparse.ArgumentParser()
    ap.add_argument("--tier", default=os.environ.get("VERIF_TIER", "quick"), choices=["quick", "thorough"])
    ap.add_argument("--replay")
    ap.add_argument("--keep", action="store_true")
    a = ap.parse_args()
    t0 = time.time()
    seed = driver.seed()
    th = vlib.tree_hash(vlib.src_root())
    rundir = os.path.join(BUILD, "%s-s%d-%s-%d" % (th, seed, a.tier, os.getpid()))
    sweep_stale(BUILD)
    shutil.rmtree(rundir, ignore_errors=True)
    os.makedirs(rundir)
    try:
        ctx = Ctx(rundir)
        if a.replay:
            c = json.load(open(a.replay))
            res = replay_blob(ctx, c)
            shutil.rmtree(rundir, ignore_errors=True)
            if res:
                print("VIOLATION property=%s replay=%s" % (PROP, a.replay))
                print("  key=%s fn=%s n=%s a=%s b=%s" % (c.get("key"), c.get("fn"), c.get("n"), c.get("a"), c.get("b")))
                sys.exit(1)
            if res is None:
                print("BROKEN: replay could not be observed (harness/valgrind channel)")
                sys.exit(2)
            print("replay passes (key %s not reproduced)" % c.get("key"))
            sys.exit(0)

        lines, broken, notes = [], [], []
        # build everything first (parallel), then run O-1 and the 8 Valgrind variants concurrently
        with ThreadPoolExecutor(16) as ex:
            f_o1 = ex.submit(ctx.o1)
            exes = list(ex.map(lambda v: build_o2(v, ctx.root, ctx.inc, os.path.join(rundir, "o2")), VARIANTS))
            o1exe = f_o1.result()
        for v, e in zip(VARIANTS, exes):
            ctx._o2[vname(v)] = e
        nrandom = 100000 if a.tier == "quick" else 1000000
        with ThreadPoolExecutor(16) as ex:
            f1 = ex.submit(run_o1, o1exe, seed, nrandom)
            f2 = [ex.submit(run_o2, v, e, seed, a.tier) for v, e in zip(VARIANTS, exes)]
            t1 = time.time()
            o1stat, o1viols, o1keys = f1.result()
            o1wall = time.time() - t1
            o2res = [f.result() for f in f2]

        # ---- the channel must be live
        for r in o2res:
            n = vname(r["variant"])
            if r["status"] == "timeout":
                notes.append("NOTE: valgrind variant %s timed out (not a finding; variant not judged)" % n)
            elif r["status"] != "ok":
                broken.append("valgrind variant %s did not run: %s" % (n, r.get("err", "")))
            elif (not r["on_valgrind"]) or r["stat"].get("leaky_cases", 0) == 0 or r["stat"].get("leaky_dead", 1) != 0 or r["stat"].get("leaky_errors", 0) == 0:
                broken.append("valgrind channel not live")
                notes.append("  (variant %s: leaky comparator raised errors in %d of %d cases)" %
                             (n, r["stat"].get("leaky_cases", 0) - r["stat"].get("leaky_dead", 0), r["stat"].get("leaky_cases", 0)))

        # ---- triage
        opn, fixed = driver.load_known()
        opn, fixed = opn.get(PROP, []), fixed.get(PROP, [])
        cands = {}
        counts = dict(o1keys)
        for v in o1viols:
            cands.setdefault(v["key"], []).append(v)
        for r in o2res:
            if r["status"] != "ok":
                continue
            for v in r["viols"]:
                cands.setdefault(v["key"], []).append(v)
            for i, fn in enumerate(FNS):
                cnt = r["stat"].get("viol_bcmp" if i == 0 else "viol_memcmp", 0)
                if cnt:
                    counts["%s:%s:secret-dependent:%s-%s" % (PROP, fn, r["variant"]["cc"], r["variant"]["opt"].lstrip("-"))] = cnt
                cnt = r["stat"].get("wrong_bcmp" if i == 0 else "wrong_memcmp", 0)
                if cnt:
                    counts["%s:%s:result:wrong-when-compiled-%s-%s" % (PROP, fn, r["variant"]["cc"], r["variant"]["opt"].lstrip("-"))] = cnt
        # a wrong result already shown by O-1 (gcc -O1 library build) is one root cause: do not repeat it per variant
        for fn in FNS:
            if any(k.startswith("%s:%s:result:" % (PROP, fn)) and "wrong-when-compiled" not in k for k in cands):
                for k in [k for k in cands if k.startswith("%s:%s:result:wrong-when-compiled" % (PROP, fn))]:
                    del cands[k]
        nviol, known_hits, new_keys = 0, {}, []
        for key in sorted(cands):
            if any(e["key"] and driver.key_matches(e["key"], key) for e in opn):
                known_hits[key] = counts.get(key, len(cands[key]))
                continue
            chosen, path = None, None
            for c in cands[key]:
                res = [replay_blob(ctx, c) for _ in range(3)]
                if all(x is True for x in res):
                    chosen = c
                    break
            if not chosen:
                lines.append("UNREPRODUCED: property=%s key=%s (no candidate case failed 3 of 3 replays)" % (PROP, key))
                continue
            path = save_replay(chosen)
            lines.append("VIOLATION property=%s replay=%s" % (PROP, path))
            if chosen["oracle"] == "O1" and key.endswith(":overread"):
                lines.append("  key=%s %s(b1,b2,n=%d) touched memory outside its n-byte regions (%s; offsets relative to the region starts; regions are flush against PROT_NONE pages, placement %d, bosmode %d) (%d failing cases)" %
                             (key, chosen["fn"], chosen["n"], chosen["extra"], chosen["place"], chosen["bosmode"], counts.get(key, 1)))
            elif chosen["oracle"] == "O1":
                lines.append("  key=%s %s(a,b,n=%d) returned %d, expected %s%d; a=%s b=%s bosmode=%d place=%d %s (%d failing cases)" %
                             (key, chosen["fn"], chosen["n"], chosen["got"], "nonzero/" if "differ" in key else "", chosen["want"], chosen["a"], chosen["b"],
                              chosen["bosmode"], chosen["place"], chosen["extra"], counts.get(key, 1)))
            elif chosen.get("what") == "wrong":
                lines.append("  key=%s %s compiled with %s returned %d, expected %s%d: n=%d a=%s b=%s align=(%d,%d) (%d failing cases)" %
                             (key, chosen["fn"], vname(chosen["variant"]), chosen["got"], "nonzero/" if (chosen["fn"] == "timingsafe_bcmp" and chosen["want"]) else "",
                              chosen["want"], chosen["n"], chosen["a"], chosen["b"], chosen["a1"], chosen["a2"], counts.get(key, 1)))
            else:
                vg = [r for r in o2res if r["variant"] == chosen["variant"]][0]
                first = first_report(vg["log"], chosen["fn"])
                lines.append("  key=%s memcheck raised %d error(s) inside %s with both regions secret: n=%d class=%s idx=%d align=(%d,%d); %d failing cases in %s; first report: %s" %
                             (key, chosen["delta"], chosen["fn"], chosen["n"], chosen["cls"], chosen["idx"], chosen["a1"], chosen["a2"],
                              counts.get(key, 1), vname(chosen["variant"]), first[:300]))
            new_keys.append(key)
            nviol += 1
        for e in opn:
            hit = sum(n for k, n in known_hits.items() if driver.key_matches(e["key"], k))
            if hit:
                lines.append("KNOWN-FINDING: property=%s %s (hits this run: %d)" % (PROP, e["text"], hit))
        regress = []
        for e in fixed:
            if not e["replay"]:
                continue
            p = os.path.join(VERIF, e["replay"])
            if not os.path.exists(p):
                continue
            res = replay_blob(ctx, json.load(open(p)))
            regress.append(dict(replay=e["replay"], fails=bool(res)))
            if res:
                lines.append("VIOLATION property=%s replay=%s" % (PROP, p))
                lines.append("  (regression of fixed finding: %s)" % e["text"])
                nviol += 1

        # ---- evidence
        ok2 = [r for r in o2res if r["status"] == "ok"]
        o2_evals = sum(r["stat"]["evaluations"] for r in ok2)
        o2_nontriv = sum(r["stat"]["nontrivial"] for r in ok2)
        per_variant = {vname(r["variant"]): (dict(status=r["status"], wall_s=round(r["wall"], 1), **r.get("stat", {})) if r["status"] == "ok"
                                             else dict(status=r["status"], wall_s=round(r["wall"], 1))) for r in o2res}
        params = ok2[0]["params"] if ok2 else {}
        samples = O1_SAMPLES[:5]
        for i, r in enumerate(ok2):
            samples += r["samples"][i % 6:i % 6 + 1]
        if not samples:
            samples = [dict(note="no sample emitted")]
        cov = dict(
            evaluations=o1stat.get("evaluations", 0) + o2_evals,
            distinct_nontrivial=o1stat.get("distinct_nontrivial", 0) + o2_nontriv,
            rule=("O-1: a case is (n, contents of both regions); each is run for 4 object-size modes x 2 guard placements x 2 functions; non-trivial iff n>=1; "
                  "distinct = distinct (n, contents) by 64-bit hash. O-2: a case is (compiler-opt variant, function, alignment pair, n, content class, difference index) "
                  "with both regions marked undefined; non-trivial iff n>=1 AND the leaky early-exit comparator run on the same secret input raised >=1 memcheck error "
                  "(the channel is demonstrably live for that very case); distinct by construction of the enumeration (repeated sampled positions are not counted)"),
            samples=samples,
            exhaustive=True,
            exhaustive_note=("O-1 enumerates completely: n=1..8 x every first-difference position x all 65536 byte pairs there (%d cases), x4 bos modes x2 placements; "
                             "every single-bit difference for n=1..160 and 15 sizes up to 4096 (%d cases) under six placement/alignment pairs; "
                             "random n<=4096 and all of O-2 are sampled/enumerated over the stated lattice only, contents there are covered symbolically by memcheck's "
                             "definedness tracking (one run per shape stands for all contents as far as branches and addresses are concerned)" % (o1stat.get("exhaustive_cases", 0), o1stat.get("single_bit_cases", 0))),
            o1=dict(o1stat, wall_s=round(o1wall, 1), bos_modes=4, placements=2, functions=2),
            o2=dict(variants=len(VARIANTS), evaluations=o2_evals, nontrivial=o2_nontriv, per_variant=per_variant, params=params,
                    trivial_void_controls=sum(r["stat"].get("leaky_dead", 0) for r in ok2) + sum(r["stat"]["evaluations"] - r["stat"]["leaky_cases"] for r in ok2)),
            trivial_void_controls=sum(r["stat"].get("leaky_dead", 0) for r in ok2),
            trivial_n0=sum(r["stat"]["evaluations"] - r["stat"]["leaky_cases"] for r in ok2) + 1,
            variants_timed_out=[vname(r["variant"]) for r in o2res if r["status"] == "timeout"],
            known_hits=known_hits, new_violation_keys=new_keys, regression_replays=regress, tree_hash=th)
        assumptions = [
            "x86-64 Linux; gcc 12 and clang 14 at -O0..-O3 are 'the optimiser'; Valgrind 3.19 memcheck definedness tracking is the secret-taint model",
            "O-2 decides control-flow and address independence from the region contents, not cycle-level timing of individual instructions",
            "object sizes passed to the _chk entry points are truthful (unknown or exactly n)",
            "O-1 runs against libsafec.a built by lib/vlib.py (gcc -O1) from the tree under test",
        ]
        if broken:
            lines.append("BROKEN: " + broken[0])
            for b in broken[1:]:
                notes.append("  also: " + b)
        try:
            driver.write_evidence(PROP, a.tier, "exploration", cov, assumptions, time.time() - t0, nviol)
        except Exception as e:
            lines.append("BROKEN: evidence not written: %s" % str(e).splitlines()[0])
            broken.append("evidence")
        for l in lines + notes:
            print(l)
        print("%s %s: O-1 %d cases (%d calls, %d exhaustive), O-2 %d cases over %d variants (%d non-trivial), %d known-finding hits, %d new violation keys, %.1fs" %
              (PROP, a.tier, o1stat.get("evaluations", 0), o1stat.get("calls", 0), o1stat.get("exhaustive_cases", 0), o2_evals, len(ok2), o2_nontriv,
               sum(known_hits.values()), nviol, time.time() - t0))
        if not a.keep:
            shutil.rmtree(rundir, ignore_errors=True)
        sys.exit(1 if nviol else 2 if broken else 0)
    except Broken as e:
        print("BROKEN: %s" % e)
        sys.exit(2)


if __name__ == "__main__":
    main()
