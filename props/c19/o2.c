/* C19 oracle O-2: data independence, run UNDER VALGRIND memcheck.
 *
 *   o2 run <seed> <maxn> <nalign> <fullpos_upto>
 *   o2 one <fn> <n> <a1> <a2> <bosmode> <hexA|-> <hexB|->
 *
 * Per case: both regions are marked undefined ("secret"), the function is
 * called, the result is made defined again.  Any memcheck error raised in
 * between (VALGRIND_COUNT_ERRORS delta) means a conditional branch or an
 * address inside the function depended on secret bytes.
 * A deliberately leaky comparator is run on the very same (still secret)
 * input right afterwards and MUST raise errors, otherwise the channel is dead
 * for that case.
 */
#include <stdio.h>
#include <stdlib.h>
#include <string.h>
#include <stdint.h>
#include <valgrind/memcheck.h>
#include "safe_mem_lib.h"

#define UNK ((size_t)-1)
#define MAXN 520

static unsigned char buf1[MAXN + 64] __attribute__((aligned(64)));
static unsigned char buf2[MAXN + 64] __attribute__((aligned(64)));

static uint64_t rs;
static uint64_t rnd(void) {
    uint64_t z = (rs += 0x9e3779b97f4a7c15ULL);
    z = (z ^ (z >> 30)) * 0xbf58476d1ce4e5b9ULL;
    z = (z ^ (z >> 27)) * 0x94d049bb133111ebULL;
    return z ^ (z >> 31);
}

/* the positive control: early-exit comparison */
__attribute__((noinline)) static int leaky_cmp(const unsigned char *a, const unsigned char *b, size_t n) {
    size_t i;
    for (i = 0; i < n; i++)
        if (a[i] != b[i])
            return a[i] < b[i] ? -1 : 1;
    return 0;
}

static int ref_cmp(const unsigned char *a, const unsigned char *b, size_t n) {
    size_t i;
    for (i = 0; i < n; i++)
        if (a[i] != b[i])
            return a[i] < b[i] ? -1 : 1;
    return 0;
}

static unsigned char seen_pos[MAXN + 1], pair_seen[16][16];
static unsigned long nsamples, wprinted[2];
static int dup_case; /* set by the generator when this (fn,a1,a2,n,class,idx) tuple was already run */
static unsigned long evals, nontrivial, viol[2], wrong[2], leaky_dead, leaky_cases, printed[2], leaky_errs;
static const char *FN[2] = {"timingsafe_bcmp", "timingsafe_memcmp"};

static void hex(const unsigned char *p, size_t n) {
    size_t i;
    if (n == 0)
        putchar('-');
    for (i = 0; i < n; i++)
        printf("%02x", p[i]);
}

/* content already in p1/p2 (defined). returns number of errors inside fn */
static unsigned one_case(int fn, unsigned char *p1, unsigned char *p2, size_t n, int bosmode, int a1, int a2, const char *cls,
                         long idx) {
    size_t bos1 = (bosmode & 1) ? n : UNK, bos2 = (bosmode & 1) ? n : UNK;
    int want = ref_cmp(p1, p2, n);
    unsigned e0, e1, l0, l1;
    size_t ln = n <= 16 ? n : 4;
    volatile int r, lr;
    VALGRIND_MAKE_MEM_UNDEFINED(p1, n);
    VALGRIND_MAKE_MEM_UNDEFINED(p2, n);
    e0 = VALGRIND_COUNT_ERRORS;
    if (fn == 0)
        r = _timingsafe_bcmp_chk(p1, p2, n, bos1, bos2);
    else
        r = _timingsafe_memcmp_chk(p1, p2, n, bos1, bos2);
    VALGRIND_MAKE_MEM_DEFINED((void *)&r, sizeof r);
    e1 = VALGRIND_COUNT_ERRORS;
    l0 = e1;
    lr = leaky_cmp(p1, p2, ln);
    VALGRIND_MAKE_MEM_DEFINED((void *)&lr, sizeof lr);
    l1 = VALGRIND_COUNT_ERRORS;
    VALGRIND_MAKE_MEM_DEFINED(p1, n);
    VALGRIND_MAKE_MEM_DEFINED(p2, n);
    evals++;
    if (n >= 1) {
        leaky_cases++;
        leaky_errs += l1 - l0;
        if (l1 == l0)
            leaky_dead++;
        else if (!dup_case)
            nontrivial++;
    }
    if (n >= 1 && n <= 24 && nsamples < 6 && evals % 1789 == 3) {
        nsamples++;
        printf("SAMPLE fn=%s n=%zu a1=%d a2=%d bos=%d cls=%s idx=%ld errors_in_fn=%u errors_in_leaky_control=%u a=", FN[fn], n, a1, a2,
               bosmode, cls, idx, e1 - e0, l1 - l0);
        hex(p1, n);
        printf(" b=");
        hex(p2, n);
        printf("\n");
    }
    if (fn == 0 ? ((r == 0) != (want == 0)) : (r != want)) {
        wrong[fn]++;
        if (wprinted[fn]++ < 3) {
            printf("WRONG fn=%s n=%zu a1=%d a2=%d bos=%d cls=%s idx=%ld got=%d want=%d a=", FN[fn], n, a1, a2, bosmode, cls, idx, (int)r, want);
            hex(p1, n);
            printf(" b=");
            hex(p2, n);
            printf("\n");
        }
    }
    if (e1 != e0) {
        viol[fn]++;
        if (printed[fn]++ < 3) {
            printf("VIOL fn=%s n=%zu a1=%d a2=%d bos=%d cls=%s idx=%ld delta=%u a=", FN[fn], n, a1, a2, bosmode, cls, idx, e1 - e0);
            hex(p1, n);
            printf(" b=");
            hex(p2, n);
            printf("\n");
        }
    }
    return e1 - e0;
}

static int unhex(const char *s, unsigned char *out, size_t n) {
    size_t i;
    if (s[0] == '-' && n == 0)
        return 0;
    if (strlen(s) != 2 * n)
        return -1;
    for (i = 0; i < n; i++) {
        unsigned v;
        if (sscanf(s + 2 * i, "%2x", &v) != 1)
            return -1;
        out[i] = (unsigned char)v;
    }
    return 0;
}

int main(int argc, char **argv) {
    size_t maxn, n, fullpos;
    int nalign, ai, fn;
    unsigned long caseno = 0;
    if (argc < 2)
        return 2;
    if (!RUNNING_ON_VALGRIND)
        printf("NOTE not running on valgrind\n");
    if (!strcmp(argv[1], "one")) {
        int a1, a2, bm;
        unsigned d;
        if (argc < 9)
            return 2;
        fn = !strcmp(argv[2], "timingsafe_memcmp");
        n = strtoul(argv[3], 0, 10);
        a1 = atoi(argv[4]);
        a2 = atoi(argv[5]);
        bm = atoi(argv[6]);
        if (n > MAXN || unhex(argv[7], buf1 + a1, n) || unhex(argv[8], buf2 + a2, n))
            return 2;
        d = one_case(fn, buf1 + a1, buf2 + a2, n, bm, a1, a2, "replay", -1);
        printf("ONE fn=%s n=%zu delta=%u leaky_dead=%lu wrong=%lu\n", FN[fn], n, d, leaky_dead, wrong[fn]);
        return 0;
    }
    rs = strtoull(argv[2], 0, 10) * 0x2545F4914F6CDD1DULL + 11;
    maxn = strtoul(argv[3], 0, 10);
    nalign = atoi(argv[4]);
    fullpos = strtoul(argv[5], 0, 10);
    if (maxn > MAXN)
        return 2;
    for (ai = 0; ai < nalign; ai++) {
        /* b1 alignment sweeps 0..15 (a stride through them when nalign < 16), b2 alignment from the PRNG */
        int a1 = nalign >= 16 ? ai : (ai * 5 + (int)(rnd() % 3)) % 16;
        int a2 = ai == 0 ? 0 : (int)(rnd() % 16);
        while (pair_seen[a1][a2]) /* every alignment pair is used once */
            a2 = (a2 + 1) % 16;
        pair_seen[a1][a2] = 1;
        for (n = 0; n <= maxn; n++) {
            unsigned char *p1 = buf1 + a1, *p2 = buf2 + a2;
            size_t npos = n <= fullpos ? n : 32, k, j;
            for (fn = 0; fn < 2; fn++) {
                memset(seen_pos, 0, sizeof seen_pos);
                /* equal */
                for (j = 0; j < n; j++)
                    p1[j] = p2[j] = (unsigned char)rnd();
                one_case(fn, p1, p2, n, (int)(caseno++ & 1), a1, a2, "equal", -1);
                /* differ at i (all i up to fullpos, else first 8, last 8 and 16 random) */
                for (k = 0; k < npos; k++) {
                    size_t i = k;
                    if (n > fullpos)
                        i = k < 8 ? k : k < 16 ? n - 1 - (k - 8) : rnd() % n;
                    for (j = 0; j < n; j++)
                        p1[j] = p2[j] = (unsigned char)rnd();
                    p2[i] = (unsigned char)(p1[i] + 1 + rnd() % 255);
                    if (rnd() & 1) /* bytes after the first difference are arbitrary */
                        for (j = i + 1; j < n; j++)
                            p2[j] = (unsigned char)rnd();
                    dup_case = seen_pos[i];
                    seen_pos[i] = 1;
                    one_case(fn, p1, p2, n, (int)(caseno++ & 1), a1, a2, "differ", (long)i);
                    dup_case = 0;
                }
                /* random */
                for (j = 0; j < n; j++) {
                    p1[j] = (unsigned char)rnd();
                    p2[j] = (unsigned char)rnd();
                }
                one_case(fn, p1, p2, n, (int)(caseno++ & 1), a1, a2, "random", -1);
            }
        }
    }
    printf("STAT evaluations=%lu nontrivial=%lu viol_bcmp=%lu viol_memcmp=%lu wrong_bcmp=%lu wrong_memcmp=%lu leaky_cases=%lu "
           "leaky_dead=%lu leaky_errors=%lu\n",
           evals, nontrivial, viol[0], viol[1], wrong[0], wrong[1], leaky_cases, leaky_dead, leaky_errs);
    printf("DONE\n");
    return 0;
}
