/* C19 oracle O-1: results of timingsafe_bcmp / timingsafe_memcmp.
 *
 *   o1 run <seed> <nrandom>            full campaign
 *   o1 one <fn> <n> <bosmode> <place> <hexA|-> <hexB|->   one case (replay)
 *
 * Both regions live in their own arena  [guard][RW RW][guard]  (guards are
 * PROT_NONE).  place 0: the region ENDS flush against the upper guard, so
 * reading b[n] faults; place 1: it STARTS right after the lower guard, so
 * reading b[-1] faults.  A fault is caught, attributed and reported as
 * C19:<fn>:overread.
 *
 * bosmode: 0 both unknown, 1 both exact (=n), 2 b1 exact/b2 unknown, 3 b1 unknown/b2 exact.
 */
#include <stdio.h>
#include <stdlib.h>
#include <string.h>
#include <stdint.h>
#include <signal.h>
#include <setjmp.h>
#include <sys/mman.h>
#include "safe_mem_lib.h"

#define PG 4096
#define MAXN 4096
#define UNK ((size_t)-1)

static unsigned char *ar[2]; /* start of the RW part of each arena (2 pages) */
static sigjmp_buf jb;
static volatile void *fault_addr;
static volatile int armed;

static void onsegv(int sig, siginfo_t *si, void *uc) {
    (void)uc;
    if (!armed) {
        signal(sig, SIG_DFL);
        raise(sig);
        return;
    }
    fault_addr = si->si_addr;
    siglongjmp(jb, 1);
}

static uint64_t rs;
static uint64_t rnd(void) {
    uint64_t z = (rs += 0x9e3779b97f4a7c15ULL);
    z = (z ^ (z >> 30)) * 0xbf58476d1ce4e5b9ULL;
    z = (z ^ (z >> 27)) * 0x94d049bb133111ebULL;
    return z ^ (z >> 31);
}

static int ref_cmp(const unsigned char *a, const unsigned char *b, size_t n) {
    size_t i;
    for (i = 0; i < n; i++)
        if (a[i] != b[i])
            return a[i] < b[i] ? -1 : 1;
    return 0;
}

/* distinct-case accounting: open addressing set of 64-bit hashes */
#define HBITS 23
static uint64_t *hset;
static unsigned long distinct;
static void note_case(const unsigned char *a, const unsigned char *b, size_t n) {
    uint64_t h = 1469598103934665603ULL ^ n;
    size_t i;
    if (n == 0)
        return; /* trivial by rule */
    for (i = 0; i < n; i++) {
        h = (h ^ a[i]) * 1099511628211ULL;
        h = (h ^ b[i] ^ 0x100) * 1099511628211ULL;
    }
    h ^= h >> 29;
    if (h == 0)
        h = 1;
    i = h & ((1UL << HBITS) - 1);
    while (hset[i] && hset[i] != h)
        i = (i + 1) & ((1UL << HBITS) - 1);
    if (!hset[i]) {
        hset[i] = h;
        distinct++;
    }
}

static unsigned long evals, nviol, calls;
static unsigned long printed[16];
static const char *KEYS[] = {"C19:timingsafe_bcmp:result:equal-but-nonzero", "C19:timingsafe_bcmp:result:differ-but-zero",
                             "C19:timingsafe_memcmp:result:wrong-sign",      "C19:timingsafe_memcmp:result:not-minus1-0-plus1",
                             "C19:timingsafe_bcmp:overread",                 "C19:timingsafe_memcmp:overread"};
static unsigned long kcount[6];

static void hex(const unsigned char *p, size_t n) {
    size_t i;
    if (n == 0)
        putchar('-');
    for (i = 0; i < n; i++)
        printf("%02x", p[i]);
}

static void report(int k, int fn, size_t n, int bosmode, int place, const unsigned char *a, const unsigned char *b, int got,
                   int want, const char *extra) {
    nviol++;
    kcount[k]++;
    if (printed[k]++ < 3 && n <= 64) {
        printf("VIOL %s fn=%d n=%zu bos=%d place=%d a=", KEYS[k], fn, n, bosmode, place);
        hex(a, n);
        printf(" b=");
        hex(b, n);
        printf(" got=%d want=%d %s\n", got, want, extra);
    } else if (printed[k] <= 3) {
        printf("VIOL %s fn=%d n=%zu bos=%d place=%d a=LONG b=LONG got=%d want=%d %s\n", KEYS[k], fn, n, bosmode, place, got,
               want, extra);
    }
}

/* run one (content, n) under one bos mode and placement for both functions.
 * ca/cb: content (n bytes each).  fnmask: 1 bcmp, 2 memcmp */
static int check(const unsigned char *ca, const unsigned char *cb, size_t n, int bosmode, int place, int fnmask) {
    /* place 0: both end flush against the guard; 1: both at the start of the window; 2 + 8*a1 + a2: inside the window at
     * byte offsets a1 / a2 from an 8-byte boundary (word-wise fast paths depend on the pair of alignments) */
    unsigned char *p1 = place >= 2 ? ar[0] + 512 + (place - 2) / 8 : place ? ar[0] : ar[0] + 2 * PG - n;
    unsigned char *p2 = place >= 2 ? ar[1] + 512 + (place - 2) % 8 : place ? ar[1] : ar[1] + 2 * PG - n;
    size_t bos1 = (bosmode == 1 || bosmode == 2) ? n : UNK;
    size_t bos2 = (bosmode == 1 || bosmode == 3) ? n : UNK;
    int want = ref_cmp(ca, cb, n), fn;
    volatile int bad = 0;
    memcpy(p1, ca, n);
    memcpy(p2, cb, n);
    for (fn = 0; fn < 2; fn++) {
        volatile int got = 0;
        if (!(fnmask & (1 << fn)))
            continue;
        calls++;
        armed = 1;
        if (sigsetjmp(jb, 1) == 0) {
            got = fn == 0 ? _timingsafe_bcmp_chk(p1, p2, n, bos1, bos2) : _timingsafe_memcmp_chk(p1, p2, n, bos1, bos2);
            armed = 0;
        } else {
            char ex[96];
            armed = 0;
            snprintf(ex, sizeof ex, "fault_at=b1%+ld/b2%+ld", (long)((char *)fault_addr - (char *)p1),
                     (long)((char *)fault_addr - (char *)p2));
            report(4 + fn, fn, n, bosmode, place, ca, cb, 0, want, ex);
            bad = 1;
            continue;
        }
        if (fn == 0) {
            if (want == 0 && got != 0) {
                report(0, fn, n, bosmode, place, ca, cb, got, 0, "");
                bad = 1;
            } else if (want != 0 && got == 0) {
                report(1, fn, n, bosmode, place, ca, cb, got, 1, "");
                bad = 1;
            }
        } else {
            int sg = got < 0 ? -1 : got > 0 ? 1 : 0;
            if (sg != want) {
                report(2, fn, n, bosmode, place, ca, cb, got, want, "");
                bad = 1;
            } else if (got != want) {
                report(3, fn, n, bosmode, place, ca, cb, got, want, "");
                bad = 1;
            }
        }
    }
    return bad;
}

static unsigned long nsamples, single_bit_cases;
static void all_modes(const unsigned char *ca, const unsigned char *cb, size_t n) {
    int bm, pl;
    evals++;
    /* a few of the actual cases, written out for the evidence file */
    if (n <= 24 && nsamples < 8 && (evals % 300007 == 5 || (evals > 2359300 && evals % 37 == 0))) {
        nsamples++;
        printf("SAMPLE n=%zu a=", n);
        hex(ca, n);
        printf(" b=");
        hex(cb, n);
        printf(" want=%d\n", ref_cmp(ca, cb, n));
    }
    note_case(ca, cb, n);
    for (bm = 0; bm < 4; bm++)
        for (pl = 0; pl < 2; pl++)
            check(ca, cb, n, bm, pl, 3);
}

static int unhex(const char *s, unsigned char *out, size_t n) {
    size_t i;
    if (s[0] == '-' && n == 0)
        return 0;
    if (strlen(s) != 2 * n)
        return -1;
    for (i = 0; i < n; i++) {
        unsigned v;
        if (sscanf(s + 2 * i, "%2x", &v) != 1)
            return -1;
        out[i] = (unsigned char)v;
    }
    return 0;
}

int main(int argc, char **argv) {
    static unsigned char ca[MAXN], cb[MAXN];
    struct sigaction sa;
    int i;
    size_t n, p;
    unsigned long exh = 0, nrandom, r;
    if (argc < 2)
        return 2;
    for (i = 0; i < 2; i++) {
        unsigned char *m = mmap(0, 4 * PG, PROT_READ | PROT_WRITE, MAP_PRIVATE | MAP_ANONYMOUS, -1, 0);
        if (m == MAP_FAILED)
            return 2;
        if (mprotect(m, PG, PROT_NONE) || mprotect(m + 3 * PG, PG, PROT_NONE))
            return 2;
        ar[i] = m + PG;
    }
    memset(&sa, 0, sizeof sa);
    sa.sa_sigaction = onsegv;
    sa.sa_flags = SA_SIGINFO | SA_NODEFER;
    sigaction(SIGSEGV, &sa, 0);
    sigaction(SIGBUS, &sa, 0);
    hset = calloc(1UL << HBITS, sizeof *hset);
    if (!hset)
        return 2;

    if (!strcmp(argv[1], "one")) {
        int fn, bm, pl, bad;
        if (argc < 8)
            return 2;
        fn = !strcmp(argv[2], "timingsafe_memcmp");
        n = strtoul(argv[3], 0, 10);
        bm = atoi(argv[4]);
        pl = atoi(argv[5]);
        if (n > MAXN || unhex(argv[6], ca, n) || unhex(argv[7], cb, n))
            return 2;
        bad = check(ca, cb, n, bm, pl, 1 << fn);
        printf("ONE fn=%s n=%zu bad=%d\n", argv[2], n, bad);
        return bad ? 1 : 0;
    }

    rs = strtoull(argv[2], 0, 10) * 0x2545F4914F6CDD1DULL + 7;
    nrandom = strtoul(argv[3], 0, 10);

    /* n = 0: must return 0 and touch nothing (pointers sit on the guard) */
    all_modes(ca, cb, 0);

    /* exhaustive: n 1..8 x first-difference position x all 65536 byte pairs */
    for (n = 1; n <= 8; n++)
        for (p = 0; p < n; p++) {
            unsigned a, b;
            for (a = 0; a < 256; a++)
                for (b = 0; b < 256; b++) {
                    size_t j;
                    uint64_t x = rnd(), y = rnd();
                    for (j = 0; j < n; j++) {
                        unsigned char c = (unsigned char)(x >> (8 * j));
                        ca[j] = c;
                        cb[j] = j < p ? c : (unsigned char)(y >> (8 * j));
                    }
                    ca[p] = (unsigned char)a;
                    cb[p] = (unsigned char)b;
                    all_modes(ca, cb, n);
                    exh++;
                }
        }

    /* every single-bit difference: n 1..160 and sizes around the powers of two, every bit of every byte, four alignment pairs.
     * A word-wise or vectorised fast path that folds its accumulator wrongly loses exactly such a bit. */
    {
        static const size_t NS[] = {191, 192, 193, 255, 256, 257, 511, 512, 513, 1023, 1024, 1025, 2048, 4095, 4096};
        static const int PLS[] = {0, 1, 2 + 8 * 0 + 0, 2 + 8 * 0 + 1, 2 + 8 * 3 + 5, 2 + 8 * 4 + 4};
        size_t q, bit;
        unsigned long sb = 0;
        for (q = 1; q <= 160 + sizeof NS / sizeof NS[0]; q++) {
            size_t j;
            n = q <= 160 ? q : NS[q - 161];
            for (j = 0; j < n; j++) ca[j] = (unsigned char)rnd();
            for (bit = 0; bit < 8 * n; bit++) {
                int pi, bm = (int)(bit & 3);
                if (n > 160 && (bit % 8 != 7) && (bit % 8 != 0) && (bit / 8) % 8 != 7 && bit / 8 + 9 < n) continue; /* long sizes: top/bottom bits, last bytes of words, the tail */
                memcpy(cb, ca, n);
                cb[bit / 8] ^= (unsigned char)(1u << (bit % 8));
                evals++;
                note_case(ca, cb, n);
                for (pi = 0; pi < 6; pi++) check(ca, cb, n, bm, PLS[pi], 3);
                sb++;
            }
        }
        single_bit_cases = sb;
    }

    /* random n <= 4096 */
    for (r = 0; r < nrandom; r++) {
        uint64_t k = rnd();
        int cls = (int)(k & 3);
        size_t j;
        n = ((k >> 2) & 1) ? 1 + (k >> 8) % 64 : 1 + (k >> 8) % MAXN;
        if (((k >> 3) & 15) == 0)
            n = MAXN - ((k >> 8) % 3);
        for (j = 0; j < n; j++)
            ca[j] = (unsigned char)rnd();
        memcpy(cb, ca, n);
        if (cls == 1) { /* one differing byte */
            p = rnd() % n;
            cb[p] ^= (unsigned char)(1 + rnd() % 255);
        } else if (cls == 2) { /* equal prefix, random suffix */
            p = rnd() % n;
            for (j = p; j < n; j++)
                cb[j] = (unsigned char)rnd();
        } else if (cls == 3) { /* differs in the last byte only / first byte only */
            p = (k >> 40) & 1 ? 0 : n - 1;
            cb[p] = (unsigned char)(ca[p] + 1 + rnd() % 255);
        }
        all_modes(ca, cb, n);
    }
    printf("STAT evaluations=%lu calls=%lu distinct_nontrivial=%lu exhaustive_cases=%lu random_cases=%lu violations=%lu single_bit_cases=%lu\n", evals,
           calls, distinct, exh, nrandom, nviol, single_bit_cases);
    for (i = 0; i < 6; i++)
        if (kcount[i])
            printf("KEY %s %lu\n", KEYS[i], kcount[i]);
    printf("DONE\n");
    return 0;
}
