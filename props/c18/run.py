#!/usr/bin/env python3
"""C18 -- secure erase really erases, at every optimisation level.

Generated client programs x build matrix, out-of-band observation by a non-LTO
spy TU, plain-memset positive control per victim.  See DESIGN.md "### C18".
Victims either hand their buffer address to the spy (stack/heap/static) or keep
it to themselves (stack-noescape: the spy finds the dead frame by a stack scan;
only these can show an erase the compiler is allowed to drop once the library
is LTO'd into the program).

  run.py [--tier quick|thorough] [--replay FILE] [--keep] [-v]
env: VERIF_SEED (default 1), VERIF_TIER, VERIF_SRC (tree under test, default /repo)
exit: 0 nothing new, 1 VIOLATION, 2 BROKEN (machinery, never a finding)
"""
import argparse, hashlib, json, os, random, re, shutil, subprocess, sys, time
from concurrent.futures import ThreadPoolExecutor

HERE = os.path.dirname(os.path.abspath(__file__))
sys.path.insert(0, "/verif/lib")
import vlib, driver

PROP = "C18"
VERIF = "/verif"
BUILD = os.path.join(VERIF, "build", "c18")
REPLAYS = os.path.join(driver.REPLAY_DIR, PROP)   # VERIF_REPLAY_DIR keeps scratch runs out of /verif/replays

FUNCS = ["memset_s", "memzero_s", "memset16_s", "memset32_s", "memzero16_s", "memzero32_s", "strzero_s"]
UNIT = {"memset_s": 1, "memzero_s": 1, "memset16_s": 2, "memset32_s": 4, "memzero16_s": 2, "memzero32_s": 4, "strzero_s": 1}
STORAGES = ["stack", "heap", "static", "stack-noescape"]   # index = vparam.storage in spy.c
ESCAPING = ["stack", "heap", "static"]   # the victim hands the buffer address to the spy TU before erasing
NOESC = "stack-noescape"                 # the address goes to the erase function only; the spy finds the dead frame by a stack scan
HUGE_LO, HUGE_HI = 4096, 12288           # 'huge' non-escaping targets: block-size thresholds inside the library's set primitives
SCAN_BYTES = 32768                       # stack bytes below the caller's pad that the spy copies and scans (spy.c C18_SCAN)
SOLO_PROGRAMS = {"quick": 1, "thorough": 4}   # single-call-site programs per tier (see gen_program(solo=True))
NOESC_MIN = 16                           # the scan recognises runs of >= 6 pattern bytes; targets are at least one 16-byte block
SHAPES = ["direct", "helper", "struct"]

# library sources compiled into / linked with every program (relative to <root>/src)
LIBSRC = ["mem/memset_s.c", "extmem/memzero_s.c", "extmem/memset16_s.c", "extmem/memset32_s.c",
          "extmem/memzero16_s.c", "extmem/memzero32_s.c", "extstr/strzero_s.c", "mem/mem_primitives_lib.c",
          "mem/safe_mem_constraint.c", "str/safe_str_constraint.c", "ignore_handler_s.c", "abort_handler_s.c",
          "str/strnlen_s.c"]

COMPILERS = ["gcc", "clang"]
OPTS = ["-O0", "-O1", "-O2", "-O3", "-Os"]
LINKS = ["sep", "lto"]
BOUNDARY_N = [1, 2, 3, 4, 7, 8, 9, 15, 16, 17, 31, 32, 33, 63, 64, 65, 127, 128, 129, 255, 256, 257, 300]


class Broken(Exception):
    pass


def cfg_name(c):
    return "%s%s-%s" % (c["cc"], c["opt"], c["link"])


def all_configs():
    return [dict(cc=cc, opt=o, link=l) for cc in COMPILERS for o in OPTS for l in LINKS]


# ----------------------------------------------------------------- generator
def gen_bytes(rng, cls):
    """two size classes per (function, storage) cell: 'small' stays inside the
    byte-wise head/tail paths of mem_prim_set, 'large' reaches the word loops
    (8..127: switch ladder, >= 128: 16-word blocks)"""
    if cls == "small":
        return rng.choice([1, 2, 3, 4, 7, 8, 9, 15, 16, 17]) if rng.random() < 0.4 else rng.randint(1, 23)
    r = rng.random()
    if r < 0.35:
        return rng.choice([b for b in BOUNDARY_N if b >= 24])
    if r < 0.6:
        return rng.randint(128, 300)
    return rng.randint(24, 300)


def gen_huge(rng, kind):
    """target sizes of the 'huge' non-escaping victims, 4096..12288 bytes"""
    if kind == 0:
        return HUGE_LO
    if kind == 1:
        return HUGE_LO + 1
    n = rng.randint(HUGE_LO + 2, HUGE_HI)
    if kind == 2 and n % 8 == 0:
        n -= rng.randint(1, 7)
    return n


def gen_program(rng, slack, pi=0, solo=False):
    """one client program: for every (erase function x storage x size class) one
    victim and its plain-memset twin: 7 x 3 x 2 = 42 address-escaping victims + 42 controls, then (ids after them, so
    the first 84 are what earlier versions generated from the same seed) 7 x 2 = 14 non-escaping stack victims + 14
    controls, then 4 + 4 'huge' non-escaping ones (>= 4096 bytes: memset_s, memzero_s and two of the 16/32-bit
    functions; program number pi rotates memset_s/memzero_s through exactly 4096, 4097, a non-multiple of 8 and a
    random size). Returns the list of victim parameter dicts.

    solo=True: a small program of 7 non-escaping victims + 7 controls in which every erase function has exactly ONE
    call site (4 huge targets, 3 of the 'large' class), so that whole-program optimisers inline the library code into
    the victim ("called once") even where they would not do so in the 60-victim program."""
    vs = []
    def cells():   # lazily: the rng draws for the huge cells come after everything earlier versions drew
        if solo:
            huge = ["memset_s", "memzero_s"] + rng.sample(["memset16_s", "memset32_s", "memzero16_s", "memzero32_s"], 2)
            for fn in FUNCS:
                yield fn, NOESC, ("huge" if fn in huge else "large")
            return
        for fn in FUNCS:
            for st in ESCAPING:
                for cls in ("small", "large"):
                    yield fn, st, cls
        for fn in FUNCS:
            for cls in ("small", "large"):
                yield fn, NOESC, cls
        for fn in ["memset_s", "memzero_s"] + sorted(rng.sample(["memset16_s", "memset32_s", "memzero16_s", "memzero32_s"], 2)):
            yield fn, NOESC, "huge"
    for fn, st, cls in cells():
        if True:
            unit = UNIT[fn]
            if cls == "huge":
                if fn == "memset_s":
                    nbytes = gen_huge(rng, pi % 4)
                elif fn == "memzero_s":
                    nbytes = gen_huge(rng, (pi + 1) % 4)
                else:
                    nbytes = HUGE_LO if rng.random() < 0.3 else gen_huge(rng, 3)
            else:
                nbytes = gen_bytes(rng, cls)
            if st == NOESC and nbytes < NOESC_MIN:
                nbytes += NOESC_MIN
            count = max(1, nbytes // unit)
            nbytes = count * unit
            align = rng.randrange(0, 16, unit)
            if solo and unit == 1:
                # single-call-site programs: a head of 6 or 7 bytes in front of the first 8-byte boundary -- the shortest
                # piece of a target the stack scan (runs of >= 6) can still see if a word-wise eraser treats it differently
                align = (align & 8) | (1 + (align & 1))
            lead = (32 if st == "heap" else 16) + align
            shape = rng.choice(SHAPES)
            extra = rng.choice([0, 0, 0] + list(range(1, 9)))
            nulpos = -1
            if fn in ("memset_s",):
                value = rng.choice([0, 0xff, rng.randint(0, 255), rng.randint(0, 255)])
            elif fn == "memset16_s":
                value = rng.choice([0, 0xffff, rng.randint(0, 0xffff), rng.randint(0, 0xffff)])
            elif fn == "memset32_s":
                value = rng.choice([0, 0xffffffff, rng.randint(0, 0xffffffff), rng.randint(0, 0xffffffff)])
            else:
                value = 0
            if fn in ("memset_s", "memset16_s", "memset32_s"):
                dmax = nbytes + extra
            else:
                dmax = nbytes
            length = nbytes
            span = nbytes
            if fn == "strzero_s" and st != NOESC:
                if rng.random() < 0.5:
                    nulpos = rng.randrange(0, nbytes)
                    if not slack:
                        length = nulpos
            elif fn == "strzero_s" and slack and nbytes >= 32 and rng.random() < 0.5:
                # a dead local holding a SHORT string with older secret data behind its terminator: the bytes in front of the
                # NUL are cleared by the byte loop, the rest by the slack fill -- both must survive the optimiser.
                # At least 16 pattern bytes follow the NUL so that the stack scan can recognise what is left of them.
                nulpos = rng.randrange(0, nbytes - 16)
            tail = rng.randint(16, 31)
            total = lead + dmax + tail
            base = dict(fn=fn, storage=st, unit=unit, count=count, nbytes=nbytes, dmax=dmax, value=value, lead=lead,
                        align=align, total=total, shape=shape, nulpos=nulpos, len=length, span=span, sizeclass=cls)
            v = dict(base, id=len(vs), control=0)
            vs.append(v)
            c = dict(base, id=len(vs), control=1, unit=1, value=value & 0xff, len=nbytes, span=nbytes, twin=v["id"])
            vs.append(c)
    return vs


def erase_expr(v, p):
    fn = v["fn"]
    if v["control"]:
        return "(memset(%s, %d, %d), 0)" % (p, v["value"], v["nbytes"])
    if fn == "memset_s":
        return "memset_s(%s, %d, %d, %d)" % (p, v["dmax"], v["value"], v["count"])
    if fn == "memzero_s":
        return "memzero_s(%s, %d)" % (p, v["count"])
    if fn == "memset16_s":
        return "memset16_s((uint16_t *)(%s), %d, (uint16_t)%du, %d)" % (p, v["dmax"], v["value"], v["count"])
    if fn == "memset32_s":
        return "memset32_s((uint32_t *)(%s), %d, (uint32_t)%du, %d)" % (p, v["dmax"], v["value"], v["count"])
    if fn == "memzero16_s":
        return "memzero16_s((uint16_t *)(%s), %d)" % (p, v["count"])
    if fn == "memzero32_s":
        return "memzero32_s((uint32_t *)(%s), %d)" % (p, v["count"])
    if fn == "strzero_s":
        return "strzero_s((char *)(%s), %d)" % (p, v["dmax"])
    raise ValueError(fn)


def client_source(vs):
    o = ["/* generated by props/c18/run.py -- do not edit */",
         "#include <stdlib.h>", "#include <string.h>", "#include <stdint.h>",
         '#include "safe_mem_lib.h"', '#include "safe_str_lib.h"',
         "extern void spy_fill(int id, void *buf);",
         "/* static storage of the spy TU, set per victim at run time: the 16-byte pattern, an index salt, the result sink */",
         "extern volatile unsigned char c18_magic[16];", "extern volatile unsigned c18_salt, c18_sink;", ""]
    for v in vs:
        k, T, L, st, sh = v["id"], v["total"], v["lead"], v["storage"], v["shape"]
        if st == NOESC:
            o += noescape_victim(v)
            continue
        o.append("/* victim %d: %s%s, %s, shape %s, %d bytes at +%d of %d */" %
                 (k, v["fn"], " CONTROL(memset)" if v["control"] else "", st, sh, v["nbytes"], L, T))
        if sh == "struct":
            o.append("struct S%d { unsigned char a[%d]; } __attribute__((aligned(16)));" % (k, T))
        if sh == "helper":
            o.append("static int wipe%d(unsigned char *p) { return %s; }" % (k, erase_expr(v, "p")))
        if st == "static":
            if sh == "struct":
                o.append("static struct S%d s%d;" % (k, k))
            else:
                o.append("static unsigned char s%d[%d] __attribute__((aligned(16)));" % (k, T))
        o.append("int v%d(void) {" % k)
        if st == "stack":
            if sh == "struct":
                o.append("    struct S%d s; unsigned char *b = s.a;" % k)
                tgt = "s.a + %d" % L
            else:
                o.append("    unsigned char a[%d] __attribute__((aligned(16))); unsigned char *b = a;" % T)
                tgt = "a + %d" % L
        elif st == "static":
            if sh == "struct":
                o.append("    unsigned char *b = s%d.a;" % k)
                tgt = "s%d.a + %d" % (k, L)
            else:
                o.append("    unsigned char *b = s%d;" % k)
                tgt = "s%d + %d" % (k, L)
        else:
            if sh == "struct":
                o.append("    struct S%d *s = (struct S%d *)malloc(sizeof(struct S%d)); unsigned char *b; int rc;" % (k, k, k))
                o.append("    if (!s) return -99;")
                o.append("    b = s->a;")
                tgt = "s->a + %d" % L
            else:
                o.append("    unsigned char *b = (unsigned char *)malloc(%d); int rc;" % T)
                o.append("    if (!b) return -99;")
                tgt = "b + %d" % L
        o.append("    spy_fill(%d, b);" % k)
        call = ("wipe%d(%s)" % (k, tgt)) if sh == "helper" else erase_expr(v, tgt)
        if st == "heap":
            o.append("    rc = %s;" % call)
            o.append("    free(%s);" % ("s" if sh == "struct" else "b"))
            o.append("    return rc;")
        else:
            o.append("    return %s;" % call)
        o.append("}")
        o.append("")
    o.append("int (*const c18_victims[])(void) = {%s};" % ", ".join("v%d" % v["id"] for v in vs))
    return "\n".join(o) + "\n"


def noescape_victim(v):
    """a dead local whose address never escapes: filled from the run-time pattern (volatile source in the spy's static
    storage, so nothing is constant-folded and no 16-byte copy of the pattern exists outside the buffer), read back at
    run-time dependent indices (so the fill is not dead and cannot be forwarded), erased as the last action. The
    address is used for nothing but the fill/read loops and the erase call."""
    k, T, L, sh, N = v["id"], v["total"], v["lead"], v["shape"], v["nbytes"]
    o = ["/* victim %d: %s%s, %s, shape %s, %d bytes at +%d of %d; address never leaves this function */" %
         (k, v["fn"], " CONTROL(memset)" if v["control"] else "", v["storage"], sh, N, L, T)]
    if sh == "struct":
        o.append("struct S%d { unsigned char a[%d]; } __attribute__((aligned(16)));" % (k, T))
        decl, arr = "struct S%d s;" % k, "s.a"
    else:
        decl, arr = "unsigned char a[%d] __attribute__((aligned(16)));" % T, "a"
    if sh == "helper":
        o.append("static int wipe%d(unsigned char *p) { return %s; }" % (k, erase_expr(v, "p")))
    tgt = "%s + %d" % (arr, L)
    call = ("wipe%d(%s)" % (k, tgt)) if sh == "helper" else erase_expr(v, tgt)
    o += ["int v%d(void) {" % k,
          "    %s unsigned i, j, h = 0;" % decl,
          "    for (i = 0; i < %du; i++) %s[%d + i] = c18_magic[i & 15];" % (N, arr, L)] + \
         (["    %s[%d] = 0;" % (arr, L + v["nulpos"])] if v["nulpos"] >= 0 else []) + \
         ["    j = c18_salt;",
          "    for (i = 0; i < %du; i++) { j = (j * 5u + 3u) %% %du; h = h * 31u + %s[%d + j]; }" % (N, N, arr, L),
          "    c18_sink = h;",
          "    return %s;" % call,
          "}", ""]
    return o


def params_header(vs):
    o = ["/* generated */", "#define NV %d" % len(vs), "#define C18_SCAN %d" % SCAN_BYTES, "static const struct vparam c18_params[NV] = {"]
    for v in vs:
        o.append("    {%d, %d, %d, %d, %d, %d, %d, %uu, %d, %d}," %
                 (v["id"], STORAGES.index(v["storage"]), v["control"], v["total"], v["lead"], v["len"], v["unit"],
                  v["value"], v["nulpos"], v["span"]))
    o.append("};")
    return "\n".join(o) + "\n"


# --------------------------------------------------------------------- build
def run(cmd, timeout=300, **kw):
    return subprocess.run(cmd, capture_output=True, text=True, timeout=timeout, **kw)


def ccflags(c, incflags):
    f = [c["opt"], "-w"] + incflags
    if c["link"] == "lto":
        f.append("-flto")
    return f


def build_lib_objs(c, root, incflags, d):
    os.makedirs(os.path.join(d, "lib"), exist_ok=True)
    objs = []
    for rel in LIBSRC:
        o = os.path.join(d, "lib", rel.replace("/", "_")[:-2] + ".o")
        cmd = [c["cc"]] + ccflags(c, incflags) + ["-c", os.path.join(root, "src", rel), "-o", o]
        r = run(cmd)
        if r.returncode != 0:
            raise Broken("library source does not compile: %s\n%s" % (" ".join(cmd), r.stderr[-1500:]))
        objs.append(o)
    return objs


def build_and_run_program(c, vs, rtseed, incflags, libobjs, pd):
    """returns {id: dict(rc,bad,residual,outside,firstbad,firstout)}"""
    shutil.rmtree(pd, ignore_errors=True)
    os.makedirs(pd)
    open(os.path.join(pd, "client.c"), "w").write(client_source(vs))
    open(os.path.join(pd, "c18_params.h"), "w").write(params_header(vs))
    spy_o, cl_o, exe = os.path.join(pd, "spy.o"), os.path.join(pd, "client.o"), os.path.join(pd, "prog")
    r = run(["gcc", "-O0", "-w", "-fno-lto", "-I" + pd, "-c", os.path.join(HERE, "spy.c"), "-o", spy_o])
    if r.returncode != 0:
        raise Broken("spy.c does not compile: " + r.stderr[-1500:])
    cmd = [c["cc"]] + ccflags(c, incflags) + ["-c", os.path.join(pd, "client.c"), "-o", cl_o]
    r = run(cmd)
    if r.returncode != 0:
        raise Broken("generated client does not compile: %s\n%s" % (" ".join(cmd), r.stderr[-1500:]))
    cmd = [c["cc"], c["opt"], "-w"]
    if c["link"] == "lto":
        cmd.append("-flto")
        if c["cc"] == "clang":
            cmd.append("-fuse-ld=lld")
    cmd += [cl_o, spy_o] + libobjs + ["-o", exe]
    r = run(cmd)
    if r.returncode != 0:
        raise Broken("link failed: %s\n%s" % (" ".join(cmd), r.stderr[-1500:]))
    env = {"PATH": "/usr/bin:/bin", "LC_ALL": "C"}
    r = run([exe, str(rtseed)], timeout=60, env=env)
    res = {}
    for line in r.stdout.splitlines():
        m = re.match(r"V (\d+) rc=(-?\d+) bad=(\d+) residual=(\d+) outside=(\d+) firstbad=(-?\d+) firstout=(-?\d+) used=(\d+)", line)
        if m:
            g = [int(x) for x in m.groups()]
            res[g[0]] = dict(rc=g[1], bad=g[2], residual=g[3], outside=g[4], firstbad=g[5], firstout=g[6], used=g[7])
    if r.returncode != 0 or len(res) != len(vs) or ("DONE %d" % len(vs)) not in r.stdout:
        raise Broken("program %s did not run to completion (rc=%s): %s" % (exe, r.returncode, (r.stdout + r.stderr)[-500:]))
    return res


def judge(c, vs, res):
    """-> list of per-victim verdict dicts (real victims only)"""
    out = []
    byid = {v["id"]: v for v in vs}
    for v in vs:
        if v["control"]:
            continue
        r = res[v["id"]]
        ctl = [x for x in vs if x["control"] and x["twin"] == v["id"]][0]
        cr = res[ctl["id"]]
        verdict = dict(id=v["id"], fn=v["fn"], storage=v["storage"], config=cfg_name(c), r=r, control=cr, key=None)
        # is the observation channel itself sane for this victim?  The plain
        # memset twin can only ever touch its target range, and each target
        # byte is either still the pattern or the fill value.
        channel_ok = cr["outside"] == 0 and cr["rc"] == 0 and (cr["bad"] == cr["residual"])
        if c["opt"] == "-O0" and cr["bad"] != 0:
            channel_ok = False
        if v["storage"] == NOESC:
            # stack scan: both twins must really have filled and read their buffer (checksum seen by the spy)
            channel_ok = channel_ok and cr["used"] == 1 and r["used"] == 1
        if not channel_ok:
            verdict["cls"] = "unobservable"
        elif r["rc"] != 0:
            verdict["cls"] = "rc-nonzero"  # property speaks about successful calls only
        elif v["storage"] == NOESC and r["bad"] > 0:
            verdict["cls"] = "violation"
            verdict["key"] = "%s:%s:not-erased:%s" % (PROP, v["fn"], v["storage"])
            verdict["detail"] = ("%d bytes of the secret pattern (runs of >= 6 consecutive pattern bytes, first run %d bytes below the "
                                 "caller's frame) are still in the dead stack frame after %s returned 0; the %d-byte local buffer (object "
                                 "offset %d) was filled and read at run time, its address was passed to %s only; found by a scan of the "
                                 "%d bytes below the caller, config %s; control memset residual=%d" %
                                 (r["bad"], -r["firstbad"], v["fn"], v["nbytes"], v["lead"], v["fn"], SCAN_BYTES, cfg_name(c), cr["residual"]))
        elif r["bad"] > 0:
            verdict["cls"] = "violation"
            verdict["key"] = "%s:%s:not-erased:%s" % (PROP, v["fn"], v["storage"])
            verdict["detail"] = ("%d of %d target bytes do not hold the fill value after %s returned 0 (first at +%d, %d still hold "
                                 "the secret pattern); %s buffer, %d bytes at object offset %d, config %s; control memset residual=%d" %
                                 (r["bad"], v["len"], v["fn"], r["firstbad"], r["residual"], v["storage"], v["nbytes"], v["lead"],
                                  cfg_name(c), cr["residual"]))
        elif r["outside"] > 0:
            verdict["cls"] = "violation"
            verdict["key"] = "%s:%s:wrote-outside:%s" % (PROP, v["fn"], v["storage"])
            verdict["detail"] = ("%d canary bytes outside the %d requested bytes changed (first at target%+d); %s buffer, config %s" %
                                 (r["outside"], v["len"], r["firstout"], v["storage"], cfg_name(c)))
        elif c["opt"] != "-O0" and cr["residual"] > 0:
            verdict["cls"] = "pass-nontrivial"
        else:
            verdict["cls"] = "pass-void-control"
        out.append(verdict)
    return out


def config_worker(c, programs, rtseed, root, incflags, rundir):
    """build the library objects once for this config, then every program"""
    d = os.path.join(rundir, cfg_name(c))
    shutil.rmtree(d, ignore_errors=True)
    os.makedirs(d)
    t0 = time.time()
    try:
        libobjs = build_lib_objs(c, root, incflags, d)
        verdicts = []
        for pi, vs in enumerate(programs):
            res = build_and_run_program(c, vs, rtseed, incflags, libobjs, os.path.join(d, "p%d" % pi))
            for v in judge(c, vs, res):
                v["program"] = pi
                verdicts.append(v)
        return dict(config=c, verdicts=verdicts, wall=time.time() - t0, status="ok")
    except subprocess.TimeoutExpired as e:
        return dict(config=c, verdicts=[], wall=time.time() - t0, status="timeout", err=str(e))
    except Broken as e:
        return dict(config=c, verdicts=[], wall=time.time() - t0, status="broken", err=str(e))


# ------------------------------------------------------------------- replays
def save_replay(key, c, vs, focus, rtseed, detail):
    os.makedirs(REPLAYS, exist_ok=True)
    blob = dict(property=PROP, key=key, config=c, rt_seed=rtseed, focus=focus, detail=detail, victims=vs,
                note="run: /verif/props/c18/run.py --replay <this file>")
    h = hashlib.sha1(json.dumps([key, c, vs, rtseed], sort_keys=True).encode()).hexdigest()[:10]
    p = os.path.join(REPLAYS, "%s-%s.json" % (re.sub(r"[^A-Za-z0-9_.-]+", "_", key), h))
    with open(p, "w") as f:
        json.dump(blob, f, indent=1)
        f.write("\n")
    return p


def replay_file(path, root, incflags, rundir, verbose=False):
    """-> (violates: bool, key, detail)"""
    blob = json.load(open(path))
    c, vs = blob["config"], blob["victims"]
    d = os.path.join(rundir, "replay-" + hashlib.sha1(path.encode()).hexdigest()[:8])
    r = config_worker(c, [vs], blob.get("rt_seed", 1), root, incflags, d)
    if r["status"] != "ok":
        if verbose:
            print("replay could not be run (%s): %s" % (r["status"], r.get("err", "")))
        return None, blob.get("key"), r.get("err", "")
    hit = [v for v in r["verdicts"] if v["cls"] == "violation" and v["key"] == blob.get("key")]
    if verbose:
        for v in r["verdicts"]:
            print("  victim %2d %-12s %-6s %-18s %s control=%s" % (v["id"], v["fn"], v["storage"], v["cls"], v["r"], v["control"]))
    shutil.rmtree(d, ignore_errors=True)
    if hit:
        return True, hit[0]["key"], hit[0]["detail"]
    return False, blob.get("key"), ""


# ---------------------------------------------------------------------- main
def sweep_stale(base):
    """remove scratch dirs of earlier runs whose process is gone (disk hygiene)"""
    if not os.path.isdir(base):
        return
    for d in os.listdir(base):
        m = re.search(r"-(\d+)$", d)
        if m and not os.path.exists("/proc/%s" % m.group(1)):
            shutil.rmtree(os.path.join(base, d), ignore_errors=True)


def main():
    ap = argparse.ArgumentParser()
    ap.add_argument("--tier", default=os.environ.get("VERIF_TIER", "quick"), choices=["quick", "thorough"])
    ap.add_argument("--replay")
    ap.add_argument("--keep", action="store_true", help="keep the scratch build directory")
    ap.add_argument("-v", action="store_true")
    a = ap.parse_args()
    t0 = time.time()
    seed = driver.seed()
    root = vlib.src_root()
    libdir = vlib.build("plain")  # gives the include dir with the configure outputs
    incflags = vlib.include_flags(libdir)
    th = vlib.tree_hash(root)
    slack = "#define SAFECLIB_STR_NULL_SLACK 1" in open(os.path.join(libdir, "inc", "include", "safe_config.h")).read()
    rundir = os.path.join(BUILD, "%s-s%d-%s-%d" % (th, seed, a.tier, os.getpid()))
    sweep_stale(BUILD)
    os.makedirs(rundir, exist_ok=True)

    if a.replay:
        viol, key, detail = replay_file(a.replay, root, incflags, rundir, verbose=True)
        shutil.rmtree(rundir, ignore_errors=True)
        if viol:
            print("VIOLATION property=%s replay=%s" % (PROP, a.replay))
            print("  key=%s %s" % (key, detail))
            sys.exit(1)
        if viol is None:
            print("BROKEN: replay could not be built/run")
            sys.exit(2)
        print("replay passes (key %s not reproduced)" % key)
        sys.exit(0)

    rng = random.Random(seed)
    nprog = 3 if a.tier == "quick" else 16
    programs = [gen_program(rng, slack, pi) for pi in range(nprog)]
    nsolo = SOLO_PROGRAMS[a.tier]
    programs += [gen_program(rng, slack, pi + 1, solo=True) for pi in range(nsolo)]   # pi + 1: the quick tier's one has n = 4097 for memset_s
    rtseed = rng.randrange(1, 1 << 31)
    configs = all_configs()
    with ThreadPoolExecutor(min(16, os.cpu_count() or 4)) as ex:
        results = list(ex.map(lambda c: config_worker(c, programs, rtseed, root, incflags, rundir), configs))

    lines, nviol = [], 0
    broken = [r for r in results if r["status"] == "broken"]
    timeouts = [r for r in results if r["status"] == "timeout"]
    opn, fixed = driver.load_known()
    opn, fixed = opn.get(PROP, []), fixed.get(PROP, [])

    # ---- violations grouped by key
    bykey = {}
    for r in results:
        for v in r["verdicts"]:
            if v["cls"] == "violation":
                bykey.setdefault(v["key"], []).append((r["config"], v))
    known_hits, new_keys = {}, []
    for key in sorted(bykey):
        ent = [e for e in opn if e["key"] and driver.key_matches(e["key"], key)]
        if ent:
            known_hits[key] = len(bykey[key])
            continue
        c, v = bykey[key][0]
        cfgs = sorted({cfg_name(cc) for cc, _ in bykey[key]})
        vs = programs[v["program"]]
        path = save_replay(key, c, vs, v["id"], rtseed, v["detail"])
        ok = 0
        for _ in range(3):
            viol, _k, _d = replay_file(path, root, incflags, rundir)
            if viol:
                ok += 1
        if ok < 3:
            lines.append("UNREPRODUCED: property=%s key=%s (%d of 3 replays failed) file=%s" % (PROP, key, ok, path))
            continue
        lines.append("VIOLATION property=%s replay=%s" % (PROP, path))
        lines.append("  key=%s %s; failing configs (%d): %s" % (key, v["detail"], len(cfgs), " ".join(cfgs)))
        new_keys.append(key)
        nviol += 1
    for e in opn:
        hit = sum(n for k, n in known_hits.items() if driver.key_matches(e["key"], k))
        if hit:
            lines.append("KNOWN-FINDING: property=%s %s (hits this run: %d)" % (PROP, e["text"], hit))

    # ---- regression replays of fixed findings
    regress = []
    for e in fixed:
        if not e["replay"]:
            continue
        p = os.path.join(VERIF, e["replay"])
        if not os.path.exists(p):
            continue
        viol, key, detail = replay_file(p, root, incflags, rundir)
        regress.append(dict(replay=e["replay"], fails=bool(viol)))
        if viol:
            lines.append("VIOLATION property=%s replay=%s" % (PROP, p))
            lines.append("  (regression of fixed finding: %s) %s" % (e["text"], detail))
            nviol += 1

    # ---- evidence
    allv = [v for r in results for v in r["verdicts"]]
    cls_hist = {}
    per_cfg = {}
    distinct = set()
    samples = []
    for r in results:
        cn = cfg_name(r["config"])
        pc = per_cfg.setdefault(cn, dict(status=r["status"], evaluated=0, nontrivial=0, void_control=0, unobservable=0,
                                         violations=0, wall_s=round(r["wall"], 1)))
        for v in r["verdicts"]:
            cls_hist[v["cls"]] = cls_hist.get(v["cls"], 0) + 1
            pc["evaluated"] += 1
            vp = programs[v["program"]][v["id"]]
            ident = (cn, v["fn"], v["storage"], vp["nbytes"], vp["dmax"], vp["lead"], vp["value"], vp["nulpos"], vp["shape"])
            if v["cls"] == "pass-nontrivial" or (v["cls"] == "violation" and v["control"]["residual"] > 0 and r["config"]["opt"] != "-O0"):
                pc["nontrivial"] += 1
                distinct.add(ident)
                if ((len(samples) < 8 and (len(samples) < 4 or v["storage"] != "stack")) or
                        (v["storage"] == NOESC and r["config"]["link"] == "lto" and sum(1 for x in samples if x["victim"]["storage"] == NOESC) < 3)):
                    samples.append(dict(config=cn, victim={k: vp[k] for k in ("fn", "storage", "shape", "nbytes", "dmax", "lead", "value", "nulpos")},
                                        observed=v["r"], control_observed=v["control"], verdict=v["cls"]))
            elif v["cls"] == "pass-void-control":
                pc["void_control"] += 1
            elif v["cls"] == "unobservable":
                pc["unobservable"] += 1
            if v["cls"] == "violation":
                pc["violations"] += 1
    by_storage = {}
    for v in allv:
        s = by_storage.setdefault(v["storage"], {})
        s[v["cls"]] = s.get(v["cls"], 0) + 1
    by_fn = {}
    for v in allv:
        if v["cls"] == "pass-nontrivial":
            by_fn[v["fn"]] = by_fn.get(v["fn"], 0) + 1
    nesc = len([v for v in programs[0] if v["storage"] == NOESC and not v["control"]])
    esc = len([v for v in programs[0] if v["storage"] != NOESC and not v["control"]])
    ne_nontrivial = by_storage.get(NOESC, {}).get("pass-nontrivial", 0)
    ne_nontrivial_lto = len([v for r in results if r["config"]["link"] == "lto" for v in r["verdicts"]
                             if v["storage"] == NOESC and v["cls"] == "pass-nontrivial"])
    cov = dict(
        evaluations=len(allv),
        distinct_nontrivial=len(distinct),
        rule=("a case is one generated victim (erase function, storage class, code shape, n, dmax, offset/alignment, fill value) in one build "
              "config (compiler, -O level, separate objects or library sources LTO'd into the program). Two kinds of victim: ESCAPING "
              "(storage stack/heap/static: the buffer address is handed to the non-LTO spy TU, which fills it and reads the n bytes back "
              "after the victim died) and NON-ESCAPING (storage stack-noescape: a local array the victim fills itself from a run-time "
              "16-byte pattern and reads back, whose address is passed to the erase function only; the spy finds the dead frame by "
              "scanning the 32768 stack bytes below the caller for runs of >= 6 pattern bytes; 4 of them per program have targets of 4096..12288 bytes). For both kinds a case is NON-TRIVIAL iff "
              "the config optimises (>= -O1) and the victim's plain-memset twin in the same binary was observed with residual secret "
              "bytes, i.e. the compiler demonstrably removes a non-secure erase there (for non-escaping victims additionally both twins' "
              "read-back checksums must have arrived, i.e. the buffer was really filled and used); "
              "distinct = distinct (config, function, storage, shape, n, dmax, offset, value)"),
        samples=samples if samples else [dict(note="no non-trivial case this run")],
        exhaustive=False,
        exhaustive_note="sampled: %d generated program(s) + %d single-call-site program(s) x %d build configs; nothing is enumerated completely" % (nprog, nsolo, len(configs)),
        programs=nprog, solo_programs=nsolo, victims_per_solo_program=(len(programs[-1]) // 2 if nsolo else 0),
        solo_program_note="a solo program has one non-escaping victim (+ control) per erase function, i.e. a single call site per library function, so LTO inlines it",
        victims_per_program=len(programs[0]) // 2, controls_per_program=len(programs[0]) // 2,
        victims_per_program_escaping=esc, victims_per_program_nonescaping=nesc,
        controls_per_program_escaping=esc, controls_per_program_nonescaping=nesc,
        nontrivial_escaping=cls_hist.get("pass-nontrivial", 0) - ne_nontrivial, nontrivial_nonescaping=ne_nontrivial,
        nontrivial_nonescaping_lto=ne_nontrivial_lto,
        victims_per_program_nonescaping_4k=len([v for v in programs[0] if v["sizeclass"] == "huge" and not v["control"]]),
        nonescaping_4k_sizes=sorted({v["nbytes"] for p in programs for v in p if v["sizeclass"] == "huge" and not v["control"]}),
        nontrivial_nonescaping_4k=len([v for v in allv if v["cls"] == "pass-nontrivial" and programs[v["program"]][v["id"]]["sizeclass"] == "huge"]),
        nontrivial_nonescaping_4k_lto=len([v for r in results if r["config"]["link"] == "lto" for v in r["verdicts"]
                                           if v["cls"] == "pass-nontrivial" and programs[v["program"]][v["id"]]["sizeclass"] == "huge"]),
        trivial_void_controls_nonescaping=by_storage.get(NOESC, {}).get("pass-void-control", 0),
        configs=len(configs), per_config=per_cfg, class_histogram=cls_hist, by_storage=by_storage,
        nontrivial_by_function=by_fn,
        trivial_void_controls=cls_hist.get("pass-void-control", 0), unobservable=cls_hist.get("unobservable", 0),
        rc_nonzero=cls_hist.get("rc-nonzero", 0),
        configs_timed_out=[cfg_name(r["config"]) for r in timeouts], configs_broken=[cfg_name(r["config"]) for r in broken],
        known_hits=known_hits, new_violation_keys=new_keys, regression_replays=regress,
        null_slack=slack, tree_hash=th, runtime_seed=rtseed)
    assumptions = [
        "x86-64 Linux, glibc malloc (a freed tcache/unsorted chunk keeps its bytes beyond the first 32), gcc 12 and clang 14 only",
        "'any optimisation level' is the matrix {gcc,clang} x {-O0,-O1,-O2,-O3,-Os} x {separately compiled objects, library sources compiled into the program with -flto}",
        "the spy TU is compiled -O0 without LTO and copies the dead buffer immediately after the victim returns, with no intervening call",
        "non-escaping stack victims: the dead frame is found without its address, by copying the 32768 bytes directly below a 64 KiB alloca pad of the (-O0, non-LTO) caller right after the victim returned (frames and red zone of the victim lie there) and counting runs of >= 6 consecutive bytes of that victim's own 16-byte pattern (16 distinct non-zero bytes, fresh per victim, kept in volatile static storage only); erasures that leave fewer than 6 consecutive pattern bytes are invisible to this channel (the escaping victims compare every byte), as are copies the compiler keeps in registers",
        "file-static victims: the address escapes to the spy, so compilers keep even a plain memset; those cases are checked but counted as void controls, not as non-trivial",
        "memzero_s delegates to glibc explicit_bzero when HAVE_EXPLICIT_BZERO is configured; that libc code is outside LTO",
    ]
    if nesc and not broken and not timeouts and ne_nontrivial_lto == 0:
        lines.append("BROKEN: no non-escaping victim's control showed residual data in any LTO config (the stack-scan channel is dead)")
        broken = [dict(err="stack-scan channel dead", config=dict(cc="-", opt="-", link="-"))]
    if len(distinct) < 2 and not broken:
        lines.append("BROKEN: fewer than 2 distinct non-trivial cases (controls never show residual data)")
        broken = broken or [dict(err="no non-trivial cases", config=dict(cc="-", opt="-", link="-"))]
    try:
        driver.write_evidence(PROP, a.tier, "exploration", cov, assumptions, time.time() - t0, nviol)
    except Exception as e:  # schema failure when distinct < 2 etc.
        lines.append("BROKEN: evidence not written: %s" % str(e).splitlines()[0])
    for l in lines:
        print(l)
    for r in timeouts:
        print("NOTE: config %s timed out (not a finding)" % cfg_name(r["config"]))
    for r in broken:
        if "status" in r:
            print("BROKEN: config %s: %s" % (cfg_name(r["config"]), r["err"]))
    print("%s %s: %d configs x (%d program(s) of %d escaping + %d non-escaping victims + %d single-call-site program(s) of 7 non-escaping), %d victim evaluations, %d distinct non-trivial "
          "(%d non-escaping evaluations non-trivial, %d of them LTO), %d void controls, %d unobservable, "
          "%d known-finding hits, %d new violation keys, %.1fs" %
          (PROP, a.tier, len(configs), nprog, esc, nesc, nsolo, len(allv), len(distinct), ne_nontrivial, ne_nontrivial_lto,
           cov["trivial_void_controls"], cov["unobservable"],
           sum(known_hits.values()), nviol, time.time() - t0))
    if not a.keep:
        shutil.rmtree(rundir, ignore_errors=True)
    if nviol:
        sys.exit(1)
    if broken:
        sys.exit(2)
    sys.exit(0)


if __name__ == "__main__":
    main()
