/* C18 spy TU -- never compiled with LTO, always -O0.
 *
 * Two observation channels:
 *  (a) address-escaping victims (storage 0..2) call spy_fill(), which writes
 *      the pattern and remembers the address;
 *  (b) non-escaping stack victims (storage 3) never show their buffer to
 *      anybody but the erase function.  They fill it themselves from
 *      c18_magic[] (static storage of this TU, volatile, set per victim at run
 *      time).  They are called from run_noescape() directly below a 64 KiB
 *      alloca pad, and the SCAN bytes below the pad -- where the victim's
 *      frame was -- are copied out right after the return, inline, before
 *      anything is called.  Surviving runs of the victim's own pattern are
 *      then counted in the copy.
 *
 * It owns main(), fills every victim buffer with a run-time pattern
 * (spy_fill), remembers the address, and after the victim function has
 * returned -- i.e. when the buffer is dead (popped frame / freed chunk /
 * never-read-again static) -- copies the bytes out of band, without calling
 * anything in between, so the dead frame is still exactly as the victim left
 * it.  All judging is done from the two images (pre = what spy_fill wrote,
 * post = what is in memory after the victim died).
 *
 * c18_params.h is generated per program: NV and the parameter table.
 */
#include <alloca.h>
#include <sys/resource.h>
#include <stdio.h>
#include <stdlib.h>
#include <string.h>
#include <stdint.h>

struct vparam {
    int id;
    int storage;  /* 0 stack, 1 heap-then-free, 2 file-static, 3 stack, address not escaping */
    int control;  /* 1 = plain memset twin */
    int total;    /* bytes in the object */
    int lead;     /* offset of the erase target inside the object */
    int len;      /* bytes that must hold the fill pattern afterwards */
    int unit;     /* 1, 2 or 4: width of the fill value */
    unsigned fillv;
    int nulpos;   /* strzero_s: offset (from lead) of a NUL inside the string, or -1 */
    int span;     /* bytes from lead in which the pattern must avoid the fill value */
};

#include "c18_params.h"

#define MAXTOTAL 1024 /* address-escaping victims only */
#define HEAP_SKIP 32 /* glibc writes list pointers into the first bytes of a freed chunk */

extern int (*const c18_victims[])(void);

static unsigned char pre[NV][MAXTOTAL];
static unsigned char post[NV][MAXTOTAL];
static volatile unsigned char *addr[NV];
static int rcs[NV];
static uint64_t rt_seed;

/* ---- channel (b) */
#define PAD 65536  /* stack between this TU's frames and the victim's: later calls here cannot reach the dead frame */
#ifndef C18_SCAN
#define C18_SCAN 32768
#endif
#define SCAN C18_SCAN /* bytes below the pad that are inspected; victim frames are < 13 KiB (targets up to 12 KiB) */
#define MINRUN 6   /* consecutive pattern bytes (consistent phase) that count as surviving secret. 16 distinct bytes drawn from 255 per
                    * victim: a chance run of 6 in 32 KiB of other victims' leftovers has probability ~1e-8 per scan. 6 and 7 are the
                    * unaligned heads/tails a word-wise eraser may treat differently from its body */
volatile unsigned char c18_magic[16]; /* the only copy of the pattern outside victim buffers; not on the stack */
volatile unsigned c18_salt, c18_sink;
static unsigned char region[SCAN];
static int ne_residual[NV], ne_first[NV], ne_used[NV];

static unsigned char expect_at(const struct vparam *p, int i) {
    int k = i - p->lead;
    return (unsigned char)(p->fillv >> (8 * (k % p->unit)));
}

static uint64_t sm64(uint64_t *s) {
    uint64_t z = (*s += 0x9e3779b97f4a7c15ULL);
    z = (z ^ (z >> 30)) * 0xbf58476d1ce4e5b9ULL;
    z = (z ^ (z >> 27)) * 0x94d049bb133111ebULL;
    return z ^ (z >> 31);
}

/* called by every victim: run-time fill + address hand-over */
void spy_fill(int id, void *buf) {
    const struct vparam *p = &c18_params[id];
    unsigned char *b = (unsigned char *)buf;
    uint64_t s = rt_seed * 1000003ULL + (uint64_t)id;
    int i;
    for (i = 0; i < p->total; i++) {
        unsigned char v = (unsigned char)sm64(&s);
        if (i >= p->lead && i < p->lead + p->span) {
            unsigned char e = expect_at(p, i);
            if (v == e)
                v = e ^ 0x5a;
        }
        b[i] = v;
    }
    if (p->nulpos >= 0)
        b[p->lead + p->nulpos] = 0;
    memcpy(pre[id], b, p->total);
    addr[id] = b;
}

/* no call may happen between the victim's return and the end of the copy */
static void run_one(int k) {
    volatile unsigned char *q;
    int i, total;
    total = c18_params[k].total;
    rcs[k] = c18_victims[k]();
    q = addr[k];
    for (i = 0; i < total; i++)
        post[k][i] = q[i];
}

/* 16 distinct non-zero bytes per (run, victim): leftovers of earlier victims never match a later one's pattern */
static void set_magic(int k) {
    unsigned char pool[255];
    uint64_t s = rt_seed * 7919ULL + 0xc18ULL + (uint64_t)k * 1000033ULL;
    int i;
    for (i = 0; i < 255; i++)
        pool[i] = (unsigned char)(i + 1);
    for (i = 0; i < 16; i++) {
        int j = i + (int)(sm64(&s) % (uint64_t)(255 - i));
        unsigned char t = pool[i];
        pool[i] = pool[j];
        pool[j] = t;
        c18_magic[i] = pool[i];
    }
    c18_salt = (unsigned)sm64(&s);
    c18_sink = 0;
}

/* the victim's frame lies directly below the pad.  No call between the
 * victim's return and the end of the copy; the copy loop keeps its variables
 * in this frame, 64 KiB above. */
static void __attribute__((noinline)) run_noescape(int k) {
    volatile unsigned char *pad = (volatile unsigned char *)alloca(PAD);
    volatile unsigned char *q;
    int i;
    pad[0] = 0;
    pad[PAD - 1] = 0;
    rcs[k] = c18_victims[k]();
    q = pad - SCAN;
    for (i = 0; i < SCAN; i++)
        region[i] = q[i];
}

/* map the whole stack range used below (and zero it) once, before any victim runs */
static void __attribute__((noinline)) prefault(void) {
    volatile unsigned char *p = (volatile unsigned char *)alloca(PAD + 2 * SCAN);
    int i;
    for (i = 0; i < PAD + 2 * SCAN; i++)
        p[i] = 0;
}

static void judge_noescape(int k) {
    const struct vparam *p = &c18_params[k];
    unsigned char m[16];
    int phase_of[256];
    unsigned i, j, h = 0;
    int pos, residual = 0, first = 0;
    for (i = 0; i < 256; i++)
        phase_of[i] = -1;
    for (i = 0; i < 16; i++) {
        m[i] = c18_magic[i];
        phase_of[m[i]] = (int)i;
    }
    /* did the victim really fill and read its buffer?  (same recurrence as the generated code) */
    j = c18_salt;
    for (i = 0; i < (unsigned)p->len; i++) {
        j = (j * 5u + 3u) % (unsigned)p->len;
        h = h * 31u + ((int)j == p->nulpos ? 0u : m[j & 15]); /* a short string: the victim stored a NUL at nulpos before reading */
    }
    ne_used[k] = (h == c18_sink);
    for (pos = 0; pos < SCAN;) {
        int ph = phase_of[region[pos]], n = 0;
        if (ph < 0) {
            pos++;
            continue;
        }
        while (pos + n < SCAN && region[pos + n] == m[(ph + n) & 15])
            n++;
        if (n >= MINRUN) {
            if (!residual)
                first = pos - SCAN; /* relative to the bottom of the pad, i.e. the top of the victim's frame */
            residual += n;
        }
        pos += n;
    }
    ne_residual[k] = residual;
    ne_first[k] = first;
}

int main(int argc, char **argv) {
    int k;
    struct rlimit rl;
    rt_seed = argc > 1 ? strtoull(argv[1], 0, 10) : (uint64_t)argc;
    /* pad + scan window + the largest victim frame must fit the main thread's stack several times over */
    if (getrlimit(RLIMIT_STACK, &rl) == 0 && rl.rlim_cur != RLIM_INFINITY && rl.rlim_cur < 4u * (PAD + 2 * SCAN)) {
        printf("stack limit %lu too small for the stack-scan channel\n", (unsigned long)rl.rlim_cur);
        return 3;
    }
    prefault();
    for (k = 0; k < NV; k++) {
        if (c18_params[k].storage == 3) {
            set_magic(k);
            run_noescape(k);
            judge_noescape(k);
        } else
            run_one(k);
    }
    for (k = 0; k < NV; k++) {
        const struct vparam *p = &c18_params[k];
        int i, bad = 0, residual = 0, outside = 0, firstbad = -1, firstout = -1;
        if (p->storage == 3) {
            /* bad = residual = bytes in surviving pattern runs; firstbad = offset of the first run from the frame top */
            printf("V %d rc=%d bad=%d residual=%d outside=0 firstbad=%d firstout=-1 used=%d\n", k, rcs[k], ne_residual[k],
                   ne_residual[k], ne_first[k], ne_used[k]);
            continue;
        }
        for (i = 0; i < p->total; i++) {
            if (p->storage == 1 && i < HEAP_SKIP)
                continue;
            if (i >= p->lead && i < p->lead + p->len) {
                unsigned char e = expect_at(p, i);
                if (post[k][i] != e) {
                    bad++;
                    if (firstbad < 0)
                        firstbad = i - p->lead;
                }
                if (post[k][i] == pre[k][i] && pre[k][i] != e)
                    residual++;
            } else if (post[k][i] != pre[k][i]) {
                outside++;
                if (firstout < 0)
                    firstout = i - p->lead;
            }
        }
        printf("V %d rc=%d bad=%d residual=%d outside=%d firstbad=%d firstout=%d used=1\n", k, rcs[k], bad, residual,
               outside, firstbad, firstout);
    }
    printf("DONE %d\n", NV);
    return 0;
}
