/* C18 spy TU -- never compiled with LTO, always -O0.
 *
 * It owns main(), fills every victim buffer with a run-time pattern
 * (spy_fill), remembers the address, and after the victim function has
 * returned -- i.e. when the buffer is dead (popped frame / freed chunk /
 * never-read-again static) -- copies the bytes out of band, without calling
 * anything in between, so the dead frame is still exactly as the victim left
 * it.  All judging is done from the two images (pre = what spy_fill wrote,
 * post = what is in memory after the victim died).
 *
 * c18_params.h is generated per program: NV and the parameter table.
 */
#include <stdio.h>
#include <stdlib.h>
#include <string.h>
#include <stdint.h>

struct vparam {
    int id;
    int storage;  /* 0 stack, 1 heap-then-free, 2 file-static */
    int control;  /* 1 = plain memset twin */
    int total;    /* bytes in the object */
    int lead;     /* offset of the erase target inside the object */
    int len;      /* bytes that must hold the fill pattern afterwards */
    int unit;     /* 1, 2 or 4: width of the fill value */
    unsigned fillv;
    int nulpos;   /* strzero_s: offset (from lead) of a NUL inside the string, or -1 */
    int span;     /* bytes from lead in which the pattern must avoid the fill value */
};

#include "c18_params.h"

#define MAXTOTAL 1024
#define HEAP_SKIP 32 /* glibc writes list pointers into the first bytes of a freed chunk */

extern int (*const c18_victims[])(void);

static unsigned char pre[NV][MAXTOTAL];
static unsigned char post[NV][MAXTOTAL];
static volatile unsigned char *addr[NV];
static int rcs[NV];
static uint64_t rt_seed;

static unsigned char expect_at(const struct vparam *p, int i) {
    int k = i - p->lead;
    return (unsigned char)(p->fillv >> (8 * (k % p->unit)));
}

static uint64_t sm64(uint64_t *s) {
    uint64_t z = (*s += 0x9e3779b97f4a7c15ULL);
    z = (z ^ (z >> 30)) * 0xbf58476d1ce4e5b9ULL;
    z = (z ^ (z >> 27)) * 0x94d049bb133111ebULL;
    return z ^ (z >> 31);
}

/* called by every victim: run-time fill + address hand-over */
void spy_fill(int id, void *buf) {
    const struct vparam *p = &c18_params[id];
    unsigned char *b = (unsigned char *)buf;
    uint64_t s = rt_seed * 1000003ULL + (uint64_t)id;
    int i;
    for (i = 0; i < p->total; i++) {
        unsigned char v = (unsigned char)sm64(&s);
        if (i >= p->lead && i < p->lead + p->span) {
            unsigned char e = expect_at(p, i);
            if (v == e)
                v = e ^ 0x5a;
        }
        b[i] = v;
    }
    if (p->nulpos >= 0)
        b[p->lead + p->nulpos] = 0;
    memcpy(pre[id], b, p->total);
    addr[id] = b;
}

/* no call may happen between the victim's return and the end of the copy */
static void run_one(int k) {
    volatile unsigned char *q;
    int i, total;
    total = c18_params[k].total;
    rcs[k] = c18_victims[k]();
    q = addr[k];
    for (i = 0; i < total; i++)
        post[k][i] = q[i];
}

int main(int argc, char **argv) {
    int k;
    rt_seed = argc > 1 ? strtoull(argv[1], 0, 10) : (uint64_t)argc;
    for (k = 0; k < NV; k++)
        run_one(k);
    for (k = 0; k < NV; k++) {
        const struct vparam *p = &c18_params[k];
        int i, bad = 0, residual = 0, outside = 0, firstbad = -1, firstout = -1;
        for (i = 0; i < p->total; i++) {
            if (p->storage == 1 && i < HEAP_SKIP)
                continue;
            if (i >= p->lead && i < p->lead + p->len) {
                unsigned char e = expect_at(p, i);
                if (post[k][i] != e) {
                    bad++;
                    if (firstbad < 0)
                        firstbad = i - p->lead;
                }
                if (post[k][i] == pre[k][i] && pre[k][i] != e)
                    residual++;
            } else if (post[k][i] != pre[k][i]) {
                outside++;
                if (firstout < 0)
                    firstout = i - p->lead;
            }
        }
        printf("V %d rc=%d bad=%d residual=%d outside=%d firstbad=%d firstout=%d\n", k, rcs[k], bad, residual,
               outside, firstbad, firstout);
    }
    printf("DONE %d\n", NV);
    return 0;
}
