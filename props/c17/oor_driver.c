/* C17 part 5: out-of-range / surrogate code points through every exported
 * Unicode entry point.  Linked against the ASan+UBSan static library (or, as a
 * fallback, the shared library).  One process runs a batch of cases; before
 * each call it prints "BEGIN <index>" and after it "END <index> rc=<rc> ..."
 * so that the parent can attribute a crash / sanitizer abort to one case and
 * restart behind it.
 *
 * usage: oor_driver <first-index> <last-index-exclusive>   (case table below)
 *        oor_driver count                     (number of indices, dimensions)
 *        oor_driver one <entry> <variant> <value>          (replay one case)
 */
#include <stdio.h>
#include <stdlib.h>
#include <string.h>
#include <stdint.h>
#include <stdbool.h>
#include <wchar.h>
#include "safe_str_lib.h"

static int handler_calls;
static void counting_handler(const char *restrict msg, void *restrict ptr,
                             errno_t error) {
    (void)msg;
    (void)ptr;
    (void)error;
    handler_calls++;
}

#define UNK ((size_t)-1)

/* entry ids */
enum {
    E_NORM_NFD,
    E_NORM_NFC,
    E_DECOMPOSE,
    E_REORDER,
    E_COMPOSE,
    E_COMPOSE_CONTIG,
    E_ISWFC,
    E_TOWFC,
    E_WCSFC,
    E_COUNT
};
static const char *entry_name[E_COUNT] = {
    "wcsnorm_s:NFD", "wcsnorm_s:NFC",          "wcsnorm_decompose_s",
    "wcsnorm_reorder_s", "wcsnorm_compose_s", "wcsnorm_compose_s:contig",
    "iswfc",         "towfc_s",                "wcsfc_s"};

/* string shapes: where the value v is placed */
enum { V_ALONE, V_AFTER_STARTER, V_BEFORE_MARK, V_AFTER_MARK, V_AFTER_HANGUL_L, V_MID, V_COUNT };
static const char *variant_name[V_COUNT] = {"alone", "after-starter", "before-mark",
                                            "after-mark", "after-hangul-L", "mid"};

static size_t make_string(wchar_t *s, int variant, uint32_t v) {
    size_t n = 0;
    switch (variant) {
    case V_ALONE:
        s[n++] = (wchar_t)v;
        break;
    case V_AFTER_STARTER:
        s[n++] = L'A';
        s[n++] = (wchar_t)v;
        break;
    case V_BEFORE_MARK:
        s[n++] = (wchar_t)v;
        s[n++] = 0x0301;
        break;
    case V_AFTER_MARK:
        s[n++] = L'a';
        s[n++] = 0x0323;
        s[n++] = (wchar_t)v;
        break;
    case V_AFTER_HANGUL_L:
        s[n++] = 0x1100;
        s[n++] = (wchar_t)v;
        break;
    case V_MID:
        s[n++] = 0x00C5;
        s[n++] = (wchar_t)v;
        s[n++] = 0x0301;
        s[n++] = L'z';
        break;
    }
    s[n] = 0;
    return n;
}

static uint32_t value_of(long vi) {
    /* 0..2 the three out-of-range values, then all surrogates */
    static const uint32_t big[] = {0x110000u, 0x7fffffffu, 0xffffffffu, 0x110001u,
                                   0x1fffffu, 0x80000000u, 0x120000u};
    const long nbig = (long)(sizeof(big) / sizeof(big[0]));
    if (vi < nbig)
        return big[vi];
    return 0xD800u + (uint32_t)(vi - nbig);
}
#define NVALUES (7 + 0x800)

static long ncases(void) { return (long)E_COUNT * V_COUNT * NVALUES; }

static void decode(long idx, int *e, int *var, long *vi) {
    *vi = idx % NVALUES;
    idx /= NVALUES;
    *var = (int)(idx % V_COUNT);
    *e = (int)(idx / V_COUNT);
}

static int applicable(int e, int var) {
    if (e == E_ISWFC || e == E_TOWFC)
        return var == V_ALONE;
    return 1;
}

static void run_case(long idx, int e, int var, uint32_t v) {
    wchar_t src[16];
    /* heap buffers so that ASan redzones surround them */
    wchar_t *dest = (wchar_t *)malloc(64 * sizeof(wchar_t));
    rsize_t len = 0;
    size_t n;
    long rc = 0;
    int i;
    n = make_string(src, var, v);
    for (i = 0; i < 64; i++)
        dest[i] = 0x2A;
    handler_calls = 0;
    printf("BEGIN %ld %s %s %#x\n", idx, entry_name[e], variant_name[var], v);
    switch (e) {
    case E_NORM_NFD:
        rc = _wcsnorm_s_chk(dest, 64, src, WCSNORM_NFD, &len, UNK);
        break;
    case E_NORM_NFC:
        rc = _wcsnorm_s_chk(dest, 64, src, WCSNORM_NFC, &len, UNK);
        break;
    case E_DECOMPOSE:
        rc = _wcsnorm_decompose_s_chk(dest, 64, src, &len, false, UNK);
        break;
    case E_REORDER:
        rc = _wcsnorm_reorder_s_chk(dest, 64, src, n, UNK);
        break;
    case E_COMPOSE:
        len = n;
        rc = _wcsnorm_compose_s_chk(dest, 64, src, &len, false, UNK);
        break;
    case E_COMPOSE_CONTIG:
        len = n;
        rc = _wcsnorm_compose_s_chk(dest, 64, src, &len, true, UNK);
        break;
    case E_ISWFC:
        rc = iswfc(v);
        break;
    case E_TOWFC:
        rc = _towfc_s_chk(dest, 4, v, UNK);
        break;
    case E_WCSFC:
        rc = _wcsfc_s_chk(dest, 64, src, &len, UNK);
        break;
    }
    printf("END %ld rc=%ld len=%lu handler=%d d0=%#x\n", idx, rc, (unsigned long)len,
           handler_calls, (unsigned)dest[0]);
    free(dest);
}

int main(int argc, char **argv) {
    long first, last, idx;
    setvbuf(stdout, NULL, _IOLBF, 0);
    set_str_constraint_handler_s(counting_handler);
    if (argc >= 2 && !strcmp(argv[1], "count")) {
        printf("%ld %d %d %d\n", ncases(), (int)E_COUNT, (int)V_COUNT, (int)NVALUES);
        return 0;
    }
    if (argc >= 5 && !strcmp(argv[1], "one")) {
        /* one <entry-name> <variant-name> <value> */
        int e, var;
        for (e = 0; e < E_COUNT; e++)
            if (!strcmp(entry_name[e], argv[2]))
                break;
        for (var = 0; var < V_COUNT; var++)
            if (!strcmp(variant_name[var], argv[3]))
                break;
        if (e == E_COUNT || var == V_COUNT) {
            fprintf(stderr, "unknown entry or variant\n");
            return 2;
        }
        run_case(0, e, var, (uint32_t)strtoul(argv[4], NULL, 0));
        printf("DONE 0 1\n");
        return 0;
    }
    if (argc < 3) {
        fprintf(stderr, "usage: %s first last | count | one entry variant value\n", argv[0]);
        return 2;
    }
    first = strtol(argv[1], NULL, 0);
    last = strtol(argv[2], NULL, 0);
    if (last > ncases())
        last = ncases();
    for (idx = first; idx < last; idx++) {
        int e, var;
        long vi;
        decode(idx, &e, &var, &vi);
        if (!applicable(e, var))
            continue;
        run_case(idx, e, var, value_of(vi));
    }
    printf("DONE %ld %ld\n", first, last);
    return 0;
}
