#!/opt/veriftools/pyvenv/bin/python
"""C17 -- Unicode normalisation and case folding follow the Unicode standard.

Property-based check of rurban/safeclib's wcsnorm_s / towfc_s / wcsfc_s / iswfc
against CPython's unicodedata (UCD 14):
  part 1  exhaustive: every code point assigned in UCD 14, NFD + NFC, *lenp, fixed point, dmax sweep
  part 2  exhaustive: every canonical 2-element decomposition pair (composing and
          excluded), pairs with an intervening mark, all Hangul syllables <-> jamo
  part 3  Hypothesis: strings <= 12 of starters, scrambled marks, jamo; dmax sweep
  part 4  exhaustive: iswfc / towfc_s / wcsfc_s length relations for every scalar value
  part 5  out-of-range values and surrogates through every entry point (ASan child)

usage: run.py [--tier quick|thorough] [--replay FILE] [--parts 1,2,3,4,5] [--workers N]
"""
import argparse
import collections
import json
import multiprocessing
import os
import re
import subprocess
import sys
import time
import unicodedata as ud

HERE = os.path.dirname(os.path.abspath(__file__))
sys.path.insert(0, HERE)
sys.path.insert(0, "/verif/lib")
import c17core as core  # noqa: E402
from c17core import u, ustr  # noqa: E402

PROP = "C17"
VERIF = "/verif"
REPLAY_DIR = os.environ.get("C17_REPLAY_DIR") or os.path.join(VERIF, "replays", PROP)
EVIDENCE = os.path.join(os.environ.get("VERIF_EVIDENCE_DIR") or os.path.join(VERIF, "evidence"), PROP + ".json")
SCHEMA = "/root/.vp/EVIDENCE.schema.json"
BASE_SEED = int(os.environ.get("VERIF_SEED", "1"))
PY = sys.executable

# globals inherited by forked workers
TABLES = None
BAD_DECOMP = {}     # (mode, code point) -> finding key of the defect that code point shows on its own
PAIRSET = set()     # canonical 2-element decompositions (first, second)
ALIAS16SET = set()  # characters x (not themselves composing marks) with x & 0xFFFF == second element of a composing pair
OPEN_PATTERNS = []  # key patterns of open known findings


# ===================================================================== tables

def build_tables():
    """everything derived from unicodedata that the generators need"""
    assigned, marks_by_ccc, decomposable, pairs = [], collections.defaultdict(list), [], []
    for cp in range(1, 0x110000):
        if 0xD800 <= cp <= 0xDFFF:
            continue
        c = chr(cp)
        if ud.category(c) == "Cn":
            continue
        assigned.append(cp)
        cc = ud.combining(c)
        if cc:
            marks_by_ccc[cc].append(cp)
        d = ud.decomposition(c)
        if d and not d.startswith("<"):
            decomposable.append(cp)
            el = [int(x, 16) for x in d.split()]
            if len(el) == 2:
                pairs.append((el[0], el[1], cp))
    composing = [(a, b, c) for (a, b, c) in pairs if ud.normalize("NFC", chr(a) + chr(b)) == chr(c)]
    excluded = [(a, b, c) for (a, b, c) in pairs if ud.normalize("NFC", chr(a) + chr(b)) != chr(c)]
    marks = sorted(m for l in marks_by_ccc.values() for m in l)
    aset = set(assigned)
    # characters of other planes whose low 16 bits equal the second element of a composing pair
    # (a composition lookup that truncates code points to 16 bits would confuse them)
    alias16 = collections.defaultdict(list)
    for b in sorted({b for _, b, _ in composing}):
        for p in range(0, 17):
            x = (b & 0xFFFF) | (p << 16)
            if x != b and x in aset:
                alias16[b].append(x)
    return dict(alias16=dict(alias16), alias16_all=sorted({x for l in alias16.values() for x in l}),assigned=assigned, marks_by_ccc=dict(marks_by_ccc), marks=marks, decomposable=decomposable,
                pairs=pairs, composing=composing, excluded=excluded,
                comp_first=sorted({a for a, _, _ in composing}), comp_second=sorted({b for _, b, _ in composing}))


def chunks(seq, n):
    k = max(1, (len(seq) + n - 1) // n)
    return [seq[i:i + k] for i in range(0, len(seq), k)]


# ===================================================================== findings

class Findings:
    def __init__(self):
        self.by_key = {}  # key -> dict(case, detail, count, part)

    def add(self, key, case, detail, part, count=1):
        e = self.by_key.get(key)
        if e is None:
            self.by_key[key] = dict(case=case, detail=detail, count=count, part=part)
        else:
            e["count"] += count


def is_open(key):
    import driver
    return any(driver.key_matches(p, key) for p in OPEN_PATTERNS)


KEY_CP_RE = re.compile(r"(C17:[A-Za-z_]+:[a-z0-9-]+):(U\+[0-9A-F]{4,6})(\+U\+[0-9A-F]{4,6})?$")


def regroup(F, limit=12):
    """Per-code-point (and per-pair) keys are kept while a sub-check has few of
    them; when one sub-check fails for many inputs they are merged by 256-block of
    the (first) code point, or into one key when many blocks are hit.  Keys stay a
    function of the failing inputs.  Keys that are open known findings are never merged."""
    fam = collections.defaultdict(list)
    for key in F.by_key:
        m = KEY_CP_RE.match(key)
        if m and not is_open(key):
            fam[m.group(1)].append((int(m.group(2)[2:], 16), key))
    for prefix, ks in fam.items():
        if len(ks) <= limit:
            continue
        ks.sort()
        blocks = collections.OrderedDict()
        for cp, key in ks:
            blocks.setdefault(cp >> 8, []).append((cp, key))
        if len(blocks) > limit:
            groups = {"%s:many-blocks" % prefix: ks}
        else:
            groups = {"%s:block-U+%02Xxx" % (prefix, b): l for b, l in blocks.items()}
        for nk, l in groups.items():
            ents = [F.by_key.pop(k) for _, k in l]
            first = next((e for e in ents if e["case"] is not None), ents[0])
            F.by_key[nk] = dict(case=first["case"], part=first["part"], count=sum(e["count"] for e in ents),
                                detail="%d inputs of this class fail (%s%s); first: %s"
                                % (len(l), " ".join(k.rsplit(":", 1)[1] for _, k in l[:8]), " ..." if len(l) > 8 else "",
                                   first["detail"]))


def attributed(cps, mode="NFD"):
    """key of a code point that already fails on its own in this mode (root cause), or None.
    BAD_DECOMP maps (mode, cp) -> key; a code point whose NFD is wrong is wrong in both modes."""
    for cp in cps:
        k = BAD_DECOMP.get((mode, cp)) or BAD_DECOMP.get(("NFD", cp))
        if k:
            return k
    return None


def seq_key(mode, vk, cps):
    """finding key of a failing multi-character string, from features of the string"""
    k = attributed(cps, mode)
    if k:
        return k
    sub = mode.lower()
    suf = "" if vk == "mismatch" else "-" + vk
    if len(cps) == 1:
        return "C17:wcsnorm_s:%s-single%s:%s" % (sub, suf, u(cps[0]))
    if len(cps) == 2 and tuple(cps) in PAIRSET:
        return "C17:wcsnorm_s:%s-pair%s:%s" % (sub, suf, "+".join(u(c) for c in cps))
    if all(core.token(c) in ("L", "V", "T", "LV", "LVT", "J") for c in cps):
        return "C17:wcsnorm_s:%s-hangul%s:%s" % (sub, suf, core.pattern(cps))
    if any(c in ALIAS16SET for c in cps[1:]):
        # a non-initial character of another plane whose low 16 bits equal the second element of a composing pair
        return "C17:wcsnorm_s:%s-string%s:alias16" % (sub, suf)
    return "C17:wcsnorm_s:%s-string%s:%s" % (sub, suf, core.pattern(cps))


# ===================================================================== crash-safe workers

TRACE_FD = None  # in a traced child: every item is announced before it is evaluated
MAX_CRASHES = 8


def trace(obj):
    os.write(TRACE_FD, (json.dumps(obj) + "\n").encode())


def merge_results(parts):
    out = {}
    for r in parts:
        for k, v in r.items():
            if k not in out:
                out[k] = v if not isinstance(v, list) else list(v)
            elif isinstance(v, (list, int, float)):
                out[k] = out[k] + v
            elif isinstance(v, collections.Counter):
                out[k].update(v)
    return out


def _traced_child(fn, arg, conn, tpath):
    global TRACE_FD
    TRACE_FD = os.open(tpath, os.O_WRONLY | os.O_CREAT | os.O_TRUNC, 0o600)
    try:
        conn.send(fn(arg))
    finally:
        conn.close()
    os._exit(0)


def run_traced(fn, arg):
    """run fn(arg) in a forked child; -> (result | None, last traced item | None, exit code)"""
    import tempfile
    ctx = multiprocessing.get_context("fork")
    fd, tpath = tempfile.mkstemp(prefix="c17trace.")
    os.close(fd)
    pc, cc = ctx.Pipe(duplex=False)
    p = ctx.Process(target=_traced_child, args=(fn, arg, cc, tpath))
    p.start()
    cc.close()
    res = None
    try:
        while True:
            if pc.poll(0.05):
                try:
                    res = pc.recv()
                except EOFError:
                    res = None
                break
            if not p.is_alive():
                if pc.poll(0.05):
                    try:
                        res = pc.recv()
                    except EOFError:
                        res = None
                break
    finally:
        p.join()
    last = None
    try:
        with open(tpath, "rb") as f:
            ls = [l for l in f.read().decode(errors="replace").splitlines() if l.strip()]
        if ls:
            try:
                last = json.loads(ls[-1])
            except ValueError:
                last = json.loads(ls[-2]) if len(ls) > 1 else None
    finally:
        os.unlink(tpath)
    return res, last, p.exitcode


def safe_map(fn, chunk_list, nworkers, empty):
    """map fn over chunks in forked workers.  If the library kills a worker, the
    chunks without result are re-run one by one in traced children, the
    crashing item is identified and skipped, and the search goes on.
    -> (results, crashes [(item, exitcode)], truncated)"""
    from concurrent.futures import ProcessPoolExecutor
    from concurrent.futures.process import BrokenProcessPool
    ctx = multiprocessing.get_context("fork")
    results = [None] * len(chunk_list)
    broken = False
    with ProcessPoolExecutor(nworkers, mp_context=ctx) as ex:
        futs = [ex.submit(fn, c) for c in chunk_list]
        for i, f in enumerate(futs):
            try:
                results[i] = f.result()
            except BrokenProcessPool:
                broken = True
            except Exception:
                broken = True
                raise
    crashes, truncated = [], False
    if not broken:
        return results, crashes, truncated
    for i, c in enumerate(chunk_list):
        if results[i] is not None:
            continue
        if len(crashes) >= MAX_CRASHES:
            truncated = True
            results[i] = dict(empty)
            continue
        segs, got = [c], []
        while segs:
            seg = segs.pop(0)
            if len(seg) == 0:
                continue
            if len(crashes) >= MAX_CRASHES:
                truncated = True
                break
            res, last, code = run_traced(fn, seg)
            if res is not None:
                got.append(res)
                continue
            if last is None:  # died before the first item: give the segment up
                crashes.append((None, code))
                continue
            idx = last["i"]
            crashes.append((last, code))
            segs = [seg[:idx], seg[idx + 1:]] + segs
        results[i] = merge_results(got) if got else dict(empty)
    return results, crashes, truncated


EMPTY = dict(fails=[], evals=0, nontrivial=0, calls=0, past=0)


def add_crashes(F, part, crashes, truncated, cov_part):
    for item, code in crashes:
        if item is None:
            F.add("C17:internal:worker-died-part%d" % part, norm_case([0x61], "NFD"),
                  "a worker of part %d died (exit %s) before announcing an item" % (part, code), part)
            continue
        if item["t"] == "fold":
            key = "C17:fold:crash:%s" % u(item["cp"])
            case = dict(kind="fold", cp=item["cp"])
            what = "iswfc/towfc_s/wcsfc_s(%s)" % u(item["cp"])
        else:
            cps = item["cps"]
            key = ("C17:wcsnorm_s:crash-single:%s" % u(cps[0])) if len(cps) == 1 else \
                  ("C17:wcsnorm_s:crash-string:%s" % core.pattern(cps))
            case = dict(kind="string", cps=cps, bos=bool(item.get("bos")))
            what = "wcsnorm_s(%s)" % ustr(cps)
        F.add(key, case, "%s killed the worker process (exit code %s)" % (what, code), part)
    cov_part["worker_crashes"] = len(crashes)
    if truncated:
        cov_part["truncated_after_crashes"] = True
        cov_part["exhaustive"] = False


# ===================================================================== part 1

def _mark():
    L = core.lib()
    return (L.calls, L.past_dmax)


def _delta(m):
    L = core.lib()
    return dict(calls=L.calls - m[0], past=L.past_dmax - m[1])


def w_part1(chunk):
    fails, evc, nt = [], [0], 0
    m = _mark()
    for i, cp in enumerate(chunk):
        if TRACE_FD is not None:
            trace(dict(t="norm", i=i, cps=[cp]))
        for mode in ("NFD", "NFC"):
            r = core.eval_string([cp], mode, False, True, evc)  # ample, then dmax 1 .. len(NFD)+7
            if r:
                fails.append((mode, r[0], cp, r[1], r[2]))
        if core.nontrivial_cp(cp):
            nt += 1
    return dict(fails=fails, evals=evc[0], nontrivial=nt, **_delta(m))


def norm_case(cps, mode, dmax=None, bos=False):
    return dict(kind="norm", cps=list(cps), mode=mode, dmax=dmax, bos=bool(bos))


def part1(nworkers, F, cov):
    global BAD_DECOMP
    T = TABLES
    res, crashes, trunc = safe_map(w_part1, chunks(T["assigned"], 128), nworkers, EMPTY)
    fails = [f for r in res for f in r["fails"]]
    by = collections.defaultdict(list)
    for mode, vk, cp, d, dmax in fails:
        by[(mode, vk)].append((cp, norm_case([cp], mode, dmax), d))
    BAD_DECOMP = {}
    # NFD mismatches first: they are the root cause of the NFC failure of the same code point
    order = sorted(by, key=lambda k: (k != ("NFD", "mismatch"), k))
    for (mode, vk) in order:
        sub = "%s-single" % mode.lower() + ("" if vk == "mismatch" else "-" + vk)
        for cp, case, d in by[(mode, vk)]:
            k = BAD_DECOMP.get(("NFD", cp)) if (mode, vk) != ("NFD", "mismatch") else None
            if not k:
                k = "C17:wcsnorm_s:%s:%s" % (sub, u(cp))
                BAD_DECOMP.setdefault((mode, cp), k)
            F.add(k, case, d, 1)
    cov["parts"]["1_single_codepoints"] = dict(
        code_points=len(T["assigned"]), evaluations=sum(r["evals"] for r in res),
        nontrivial=sum(r["nontrivial"] for r in res), failing_evaluations=len(fails),
        library_calls=sum(r["calls"] for r in res), exhaustive=True)
    add_crashes(F, 1, crashes, trunc, cov["parts"]["1_single_codepoints"])
    cov["_past_dmax"] += sum(r["past"] for r in res)
    return sum(r["evals"] for r in res), sum(r["nontrivial"] for r in res)


# ===================================================================== part 2

SB, LB, VB, TB = 0xAC00, 0x1100, 0x1161, 0x11A7
MID_MARKS = [0x0334, 0x093C, 0x3099, 0x094D, 0x05B0, 0x0327, 0x031B, 0x0323, 0x0301, 0x0345]


def part2_cases(tier):
    T = TABLES
    cases = []  # (class label for the evidence histogram, cps)
    for a, b, c in T["pairs"]:
        cases.append(("pair", (a, b)))
    for a, b, c in T["composing"]:
        cb = ud.combining(chr(b))
        if cb == 0:
            continue
        for x in MID_MARKS:
            cases.append(("triple", (a, x, b)))
            cases.append(("triple", (a, b, x)))
    for a, b, c in T["composing"]:
        for x in T["alias16"].get(b, ()):
            cases.append(("alias16", (a, x)))
    for s in range(SB, SB + 11172):
        t = (s - SB) % 28
        cases.append(("hangul", (s,)))
        if t == 0:
            for tj in range(TB, TB + 29):  # U+11A7 (not a trailing jamo) .. U+11C3 (one past)
                cases.append(("hangul", (s, tj)))
        elif tier == "thorough" or t in (1, 27):
            cases.append(("hangul", (s, TB + t)))
    # long runs of combining marks: the reorder step keeps 10 on the stack, grows in steps, and must stay a *stable* sort
    # for any run length (same class, different marks, at every position incl. beyond 255)
    A, B2 = (0x0300, 0x0301, 0x0302, 0x0303), (0x0323, 0x0324, 0x0325)
    for L in (9, 10, 11, 12, 21, 33, 64, 100, 255, 256, 257, 300, 515):
        cases.append(("longrun", (0x61,) + tuple(A[i % 4] for i in range(L))))                       # one class, order must be kept
        cases.append(("longrun", (0x61,) + tuple((A[i % 4] if i % 2 else B2[i % 3]) for i in range(L))))  # two classes interleaved
        cases.append(("longrun", (0x61,) + tuple(A[(i * 7) % 4] for i in range(L)) + (0x62, 0x0323, 0x0301)))
    for l in range(LB - 1, LB + 20):      # U+10FF .. U+1113
        for v in range(VB - 1, VB + 22):  # U+1160 .. U+1176
            cases.append(("hangul", (l, v)))
            for tj in range(TB, TB + 29):
                cases.append(("hangul", (l, v, tj)))
    return cases


def w_part2(chunk):
    fails, evc, nt = [], [0], 0
    m = _mark()
    for i, (label, cps) in enumerate(chunk):
        cps = list(cps)
        if TRACE_FD is not None:
            trace(dict(t="norm", i=i, cps=cps))
        for mode in ("NFD", "NFC"):
            r = core.eval_string(cps, mode, False, True, evc)
            if r:
                fails.append((label, mode, r[0], cps, r[1], r[2]))
        if core.nontrivial_str(cps):
            nt += 1
    return dict(fails=fails, evals=evc[0], nontrivial=nt, **_delta(m))


def part2(nworkers, F, cov, tier):
    cases = part2_cases(tier)
    cases = list(dict.fromkeys(cases))  # distinct
    res, crashes, trunc = safe_map(w_part2, chunks(cases, 128), nworkers, EMPTY)
    fails = [f for r in res for f in r["fails"]]
    bykey = collections.OrderedDict()
    for label, mode, vk, cps, d, dmax in fails:
        bykey.setdefault(seq_key(mode, vk, cps), []).append((cps, norm_case(cps, mode, dmax), d))
    for k, items in bykey.items():
        F.add(k, items[0][1], items[0][2] + ("" if len(items) == 1 else " (+%d more strings of this class)" % (len(items) - 1)),
              2, len(items))
    hist = collections.Counter(l for l, _ in cases)
    cov["parts"]["2_pairs_hangul"] = dict(
        strings=len(cases), by_class=dict(hist), composing_pairs=len(TABLES["composing"]),
        excluded_pairs=len(TABLES["excluded"]), evaluations=sum(r["evals"] for r in res),
        nontrivial=sum(r["nontrivial"] for r in res), failing_evaluations=len(fails),
        library_calls=sum(r["calls"] for r in res), exhaustive=True)
    add_crashes(F, 2, crashes, trunc, cov["parts"]["2_pairs_hangul"])
    cov["_past_dmax"] += sum(r["past"] for r in res)
    cov["_samples"] += [dict(part=2, label=l, case=norm_case(c, "NFC")) for l, c in (cases[0], cases[len(cases) // 3], cases[-1])]
    return sum(r["evals"] for r in res), sum(r["nontrivial"] for r in res)


# ===================================================================== part 3

def make_strategy(st):
    T = TABLES
    ccc_classes = sorted(T["marks_by_ccc"])
    marks_by = T["marks_by_ccc"]
    common_marks = [0x0301, 0x0300, 0x0308, 0x0323, 0x0327, 0x031B, 0x0345, 0x0334, 0x05B0, 0x093C, 0x3099,
                    0x094D, 0x0F71, 0x0F72, 0x0F74, 0x0342, 0x0313, 0x0314, 0x0304, 0x0306]
    simple = [ord(c) for c in "aeiouyAEIOUcnsz"] + [0x03B1, 0x03C5, 0x03C9, 0x0391, 0x0415]
    mark = st.one_of(st.sampled_from(common_marks), st.sampled_from(T["comp_second"]), st.sampled_from(T["marks"]))
    starter = st.one_of(st.sampled_from(simple), st.sampled_from(T["comp_first"]),
                        st.sampled_from(T["decomposable"]), st.sampled_from(T["assigned"]),
                        st.sampled_from(T["alias16_all"]))

    @st.composite
    def scrambled(draw):
        classes = draw(st.lists(st.sampled_from(ccc_classes), min_size=3, max_size=5, unique=True))
        ms = [draw(st.sampled_from(marks_by[c])) for c in classes]
        return list(draw(st.permutations(ms)))

    marks_any = st.lists(mark, min_size=0, max_size=4)
    cluster_marks = st.tuples(starter, st.one_of(marks_any, scrambled())).map(lambda t: [t[0]] + list(t[1]))
    pair = st.sampled_from([(a, b) for a, b, _ in T["pairs"]])
    pair_cluster = st.tuples(pair, st.lists(mark, max_size=2), st.booleans()).map(
        lambda t: [t[0][0]] + list(t[1]) + [t[0][1]] if t[2] else [t[0][0], t[0][1]] + list(t[1]))
    jamo = st.one_of(st.integers(0x1100, 0x1112), st.integers(0x1161, 0x1175), st.integers(0x11A8, 0x11C2),
                     st.integers(0xAC00, 0xD7A3), st.sampled_from([0x11A7, 0x115F, 0x1160, 0x1113, 0x1176, 0x11C3]))
    hangul = st.lists(jamo, min_size=1, max_size=4)
    marks_only = st.one_of(st.lists(mark, min_size=1, max_size=3), scrambled())
    cluster = st.one_of(cluster_marks, pair_cluster, hangul, marks_only, starter.map(lambda c: [c]))
    clustered = st.lists(cluster, min_size=1, max_size=5).map(lambda cl: [c for x in cl for c in x][:12])
    # more than 10 marks in one run: the library switches from its stack array to the heap there
    long_run = st.tuples(st.lists(starter, max_size=1), st.lists(mark, min_size=10, max_size=12)).map(
        lambda t: (list(t[0]) + list(t[1]))[:12])
    return st.one_of(clustered, clustered, clustered, long_run)


def variants(cps):
    """the string reversed, and the string with every run of combining marks reversed"""
    out = []
    r = cps[::-1]
    if r != cps:
        out.append(r)
    v, i, n = [], 0, len(cps)
    while i < n:
        j = i
        while j < n and cps[j] <= 0x10FFFF and ud.combining(chr(cps[j])):
            j += 1
        if j > i:
            v += cps[i:j][::-1]
            i = j
        else:
            v.append(cps[i])
            i += 1
    if v != cps and v != r:
        out.append(v)
    return out


def w_hyp(arg):
    widx, nexamples, sd, max_rounds, skip = arg
    skip = {tuple(x) for x in skip}
    import hypothesis
    from hypothesis import given, settings, strategies as st, HealthCheck, Phase, Verbosity

    class Viol(Exception):
        def __init__(self, key, case, detail):
            Exception.__init__(self, key)
            self.key, self.case, self.detail = key, case, detail

    found = {}        # key -> (case, detail) shrunk (or first seen when rounds ran out)
    counts = collections.Counter()
    stats = collections.Counter()
    distinct, distinct_nt = set(), set()
    samples = []
    state = dict(raise_new=True)
    evcount = [0]
    m0 = _mark()
    stats0 = dict(core.STATS)

    def run_one(cps, bos):
        if skip and tuple(cps) in skip:
            return  # this string killed the process in an earlier attempt (already recorded)
        if TRACE_FD is not None:
            trace(dict(t="norm", i=0, cps=cps, bos=bos))
        stats["invocations"] += 1
        h = hash(tuple(cps))
        if h not in distinct:
            distinct.add(h)
            if core.nontrivial_str(cps):
                distinct_nt.add(h)
            if len(samples) < 4 and len(cps) >= 4 and stats["invocations"] % 7 == 0:
                samples.append(dict(part=3, cps=[u(c) for c in cps], bos=bos))
        news = {}
        for mode in ("NFD", "NFC"):
            r = core.eval_string(cps, mode, bos, True, evcount)
            if r is None:
                continue
            vk, d, dmax = r
            # classify by the smallest failing sub-sequence
            mini = cps if attributed(cps, mode) else core.minimise(cps, mode, bos, vk)
            if mini != cps:
                r2 = core.eval_string(mini, mode, bos, vk.startswith("small-dmax"))
                if r2 and r2[0] == vk:
                    d, dmax = r2[1], r2[2]
                else:
                    mini = cps
            key = seq_key(mode, vk, mini)
            counts[key] += 1
            if is_open(key) or key in found or key in news:
                continue
            news[key] = Viol(key, norm_case(mini, mode, dmax, bos), d)
        if news:
            if state["raise_new"]:
                raise next(iter(news.values()))
            for k, e in news.items():
                found[k] = (e.case, e.detail + " (found after the shrink rounds were used up)")

    strat = make_strategy(st)

    def make_test():
        @hypothesis.seed(sd)
        @settings(max_examples=nexamples, database=None, deadline=None, derandomize=False,
                  suppress_health_check=list(HealthCheck), phases=[Phase.generate, Phase.shrink],
                  report_multiple_bugs=False, verbosity=Verbosity.quiet, print_blob=False)
        @given(strat, st.booleans())
        def test(cps, bos):
            run_one(cps, bos)
            # two deterministic rearrangements of the drawn string (cheap extra scrambling)
            for var in variants(cps):
                run_one(var, bos)
        return test

    rounds = 0
    while True:
        try:
            make_test()()
            break
        except Viol as e:
            found[e.key] = (e.case, e.detail)
            rounds += 1
            if rounds >= max_rounds:
                state["raise_new"] = False
        except Exception as e:  # Flaky etc.: report, never hide
            found["C17:internal:hypothesis-error"] = (norm_case([0x61], "NFD"), "hypothesis raised %r" % (e,))
            break
    for k, v0 in stats0.items():
        stats[k] = core.STATS[k] - v0
    stats["evals"] = evcount[0]
    return dict(found=found, counts=dict(counts), stats=dict(stats), distinct=distinct, distinct_nt=distinct_nt,
                samples=samples, rounds=rounds, **_delta(m0))


def part3(nworkers, F, cov, tier):
    per = {"quick": 3000, "thorough": 20000}[tier]
    per = int(os.environ.get("C17_HYP_EXAMPLES", per))
    from concurrent.futures import ProcessPoolExecutor
    from concurrent.futures.process import BrokenProcessPool
    ctx = multiprocessing.get_context("fork")
    args = [(w, per, BASE_SEED + 1000003 * w, 6, []) for w in range(nworkers)]
    res = [None] * nworkers
    with ProcessPoolExecutor(nworkers, mp_context=ctx) as ex:
        futs = [ex.submit(w_hyp, x) for x in args]
        for i, f in enumerate(futs):
            try:
                res[i] = f.result()
            except BrokenProcessPool:
                pass
    crashes, truncated = [], False
    for i in range(nworkers):  # a worker was killed by the library: find the string, skip it, go on
        skip = []
        while res[i] is None:
            if len(crashes) >= MAX_CRASHES or len(skip) >= 4:
                truncated = True
                break
            r, last, code = run_traced(w_hyp, args[i][:4] + (skip,))
            if r is not None:
                res[i] = r
                break
            crashes.append((last, code))
            if last is None:
                truncated = True
                break
            skip = skip + [last["cps"]]
    res = [r for r in res if r is not None]
    distinct, distinct_nt = set(), set()
    counts = collections.Counter()
    for r in res:
        distinct |= r["distinct"]
        distinct_nt |= r["distinct_nt"]
        counts.update(r["counts"])
    for r in res:
        for key, (case, detail) in r["found"].items():
            if key not in F.by_key:
                F.add(key, case, detail, 3, counts.get(key, 1))
    # keys that were only counted (open known findings, attributed root causes)
    for key, n in counts.items():
        if key in F.by_key:
            if F.by_key[key]["part"] != 3:
                F.by_key[key]["count"] += n
        else:
            F.add(key, None, "seen %d times in generated strings" % n, 3, n)
    st_all = collections.Counter()
    for r in res:
        st_all.update(r["stats"])
    cov["parts"]["3_hypothesis_strings"] = dict(
        workers=nworkers, max_examples_per_worker=per, seeds="VERIF_SEED + 1000003*w, w=0..%d" % (nworkers - 1),
        test_invocations=st_all["invocations"], distinct_strings=len(distinct), nontrivial=len(distinct_nt),
        evaluations=st_all["evals"], dmax_sweep_rejected=st_all["small_dmax_rejected"],
        dmax_sweep_success_checked=st_all["small_dmax_success"],
        library_calls=sum(r["calls"] for r in res), shrink_rounds=sum(r["rounds"] for r in res), exhaustive=False)
    add_crashes(F, 3, crashes, truncated, cov["parts"]["3_hypothesis_strings"])
    cov["_past_dmax"] += sum(r["past"] for r in res)
    cov["_samples"] += [s for r in res[:3] for s in r["samples"][:2]]
    return st_all["evals"], len(distinct_nt)


# ===================================================================== part 4

def w_part4(rng):
    fails, ev, nt = [], 0, 0
    m = _mark()
    for i, cp in enumerate(rng):
        if 0xD800 <= cp <= 0xDFFF:
            continue
        if TRACE_FD is not None:
            trace(dict(t="fold", i=i, cp=cp))
        ev += 1
        v = core.check_fold(cp)
        for vk, d in v:
            fails.append((vk, cp, d))
        if core.assigned(cp) and core.nontrivial_cp(cp):
            nt += 1
    return dict(fails=fails, evals=ev, nontrivial=nt, **_delta(m))


def w_part4_hist(rng):
    """informational histogram (iswfc, sign of towfc_s return, characters written)"""
    hist = collections.Counter()
    for cp in rng:
        if 0xD800 <= cp <= 0xDFFF:
            continue
        n, ret, out = core.fold_facts(cp)
        rk = "neg" if ret < 0 else str(ret)
        hist["iswfc=%d,towfc_ret=%s,written=%s%s" % (n, rk, "?" if out is None else len(out),
                                                    ",changed" if out != [cp] else "")] += 1
    return hist


def part4(nworkers, F, cov):
    step = 0x110000 // 256
    ranges = [range(max(1, lo), min(0x110000, lo + step)) for lo in range(0, 0x110000, step)]
    res, crashes, trunc = safe_map(w_part4, ranges, nworkers, EMPTY)
    fails = [f for r in res for f in r["fails"]]
    by = collections.defaultdict(list)
    for vk, cp, d in fails:
        case = dict(kind="fold", cp=cp)
        if vk.startswith("wcsfc"):
            k = attributed([cp] + [ord(c) for c in chr(cp).casefold()], "NFD")
            if k:
                F.add(k, case, d, 4)
                continue
            fn, sub = "wcsfc_s", vk[len("wcsfc-"):]
        elif vk == "iswfc-range":
            fn, sub = "iswfc", "range"
        else:
            fn, sub = "towfc_s", vk.replace("towfc-", "")
        by[(fn, sub)].append((cp, case, d))
    for (fn, sub), items in sorted(by.items()):
        for cp, case, d in items:
            F.add("C17:%s:%s:%s" % (fn, sub, u(cp)), case, d, 4)
    hist = collections.Counter()
    if not crashes:
        with multiprocessing.get_context("fork").Pool(nworkers) as pool:
            for h in pool.map(w_part4_hist, ranges[::8]):  # every 8th range: informational only
                hist.update(h)
    cov["parts"]["4_fold_lengths"] = dict(
        scalar_values=sum(r["evals"] for r in res), evaluations=sum(r["evals"] for r in res),
        nontrivial=sum(r["nontrivial"] for r in res), failing=len(fails),
        library_calls=sum(r["calls"] for r in res), exhaustive=True,
        histogram_sampled_every_8th_range=dict(hist))
    add_crashes(F, 4, crashes, trunc, cov["parts"]["4_fold_lengths"])
    cov["_past_dmax"] += sum(r["past"] for r in res)
    cov["_samples"] += [dict(part=4, case=dict(kind="fold", cp=c), note=n) for c, n in
                        ((0x00DF, "sharp s -> ss"), (0x1F88, "fold + NFD"), (0x0390, "3 characters"))]
    return sum(r["evals"] for r in res), sum(r["nontrivial"] for r in res)


# ===================================================================== part 5

def part5(F, cov):
    drv, mode = core.build_oor_driver()
    total = int(subprocess.run([drv, "count"], capture_output=True, text=True).stdout.split()[0])
    env = core._oor_env()
    first, evals, crashes, restarts = 0, 0, 0, 0
    accepted = collections.Counter()
    returned = collections.Counter()
    truncated = False
    while first < total:
        r = subprocess.run([drv, str(first), str(total)], capture_output=True, text=True, errors="replace", env=env)
        fin, cur, done = core.parse_oor_output(r.stdout)
        for (_i, entry, variant, value, rc) in fin:
            evals += 1
            fn = entry.split(":")[0]
            cls = "cp>10FFFF" if value > 0x10FFFF else "surrogate"
            returned["%s:%s:%s" % (entry, cls, "rejected" if rc != 0 else "rc=0")] += 1
            m = core.judge_oor(fn, value, rc)
            if m:
                accepted[fn] += 1
                F.add("C17:%s:cp>10FFFF:accepted" % fn, dict(kind="oor", entry=entry, variant=variant, value=value), m, 5)
        if done and r.returncode == 0:
            break
        if cur is None:  # died outside a case: cannot attribute
            F.add("C17:internal:oor-driver", dict(kind="oor", entry="iswfc", variant="alone", value=0x110000),
                  "driver exit %d without a pending case: %s" % (r.returncode, r.stderr[-300:]), 5)
            break
        idx, entry, variant, value = cur
        evals += 1
        crashes += 1
        fn = entry.split(":")[0]
        cls = "cp>10FFFF" if value > 0x10FFFF else "surrogate"
        what = "sanitizer" if mode == "asan" else "crash"
        F.add("C17:%s:%s:%s" % (fn, cls, what), dict(kind="oor", entry=entry, variant=variant, value=value),
              "%s(%s, value %#x): child exit %d: %s" % (entry, variant, value, r.returncode, core._report_line(r.stderr)), 5)
        first = idx + 1
        restarts += 1
        if restarts > 600:
            truncated = True
            break
    cov["parts"]["5_out_of_range"] = dict(
        mode=mode, driver_cases=evals, aborted_cases=crashes, accepted_above_10FFFF=dict(accepted),
        returns=dict(returned), truncated=truncated, exhaustive=not truncated,
        values="0x110000 0x7fffffff 0xffffffff 0x110001 0x1fffff 0x80000000 0x120000 + every surrogate D800..DFFF",
        entries=core.OOR_ENTRIES, string_shapes=["alone", "after-starter", "before-mark", "after-mark", "after-hangul-L", "mid"])
    cov["_samples"] += [dict(part=5, case=dict(kind="oor", entry="wcsnorm_reorder_s", variant="after-starter", value=0x110000)),
                        dict(part=5, case=dict(kind="oor", entry="wcsfc_s", variant="alone", value=0xD800))]
    return evals, 0


# ===================================================================== replay

def load_replay(path):
    with open(path) as f:
        return json.load(f)


def _eval_case(case):
    return core.evaluate(case)


def do_replay(path, verbose=True):
    rep = load_replay(path)
    case = rep["case"]
    if case.get("kind") == "oor":
        v = core.evaluate(case)  # runs in its own child already
    else:
        core.lib()
        v, _last, code = run_traced(_eval_case, case)  # a crash of the library must not look like "passes"
        if v is None:
            v = [("crash", "the library killed the replay process (exit code %s)" % code)]
    if verbose:
        print("replay %s" % path)
        print("  key:  %s" % rep.get("key"))
        print("  case: %s" % json.dumps(case))
        if v:
            for vk, d in v:
                print("  VIOLATES [%s] %s" % (vk, d))
        else:
            print("  passes")
    return 1 if v else 0


def replay_subprocess(path):
    r = subprocess.run([PY, os.path.abspath(__file__), "--replay", path], capture_output=True, text=True)
    return r.returncode, r.stdout


def save_replay(key, ent):
    os.makedirs(REPLAY_DIR, exist_ok=True)
    name = re.sub(r"[^A-Za-z0-9_.+-]+", "_", key[len("C17:"):] if key.startswith("C17:") else key)[:120]
    path = os.path.join(REPLAY_DIR, name + ".json")
    case = ent["case"]
    doc = dict(property=PROP, key=key, case=case, detail=ent["detail"], hits_this_run=ent["count"],
               how="run.py --replay <this file>")
    if case and case.get("kind") == "norm":
        doc["input"] = ustr(case["cps"])
        doc["expected"] = ustr(core.py_norm(case["mode"], case["cps"]))
    with open(path, "w") as f:
        json.dump(doc, f, indent=1)
        f.write("\n")
    return path


# ===================================================================== main

def main():
    global TABLES, OPEN_PATTERNS, PAIRSET, ALIAS16SET
    ap = argparse.ArgumentParser()
    ap.add_argument("--tier", default=os.environ.get("VERIF_TIER", "quick"), choices=["quick", "thorough"])
    ap.add_argument("--replay")
    ap.add_argument("--parts", default="1,2,3,4,5")
    ap.add_argument("--workers", type=int, default=min(16, os.cpu_count() or 4))
    a = ap.parse_args()
    if a.replay:
        sys.exit(do_replay(a.replay))

    t0 = time.time()
    import driver
    import jsonschema
    parts = {int(x) for x in a.parts.split(",") if x}
    if os.environ.get("C17_KNOWN_FILE"):  # self-test of the known-findings protocol only
        driver.KNOWN_FILE = os.environ["C17_KNOWN_FILE"]
    opn, fixed = driver.load_known()
    opn, fixed = opn.get(PROP, []), fixed.get(PROP, [])
    OPEN_PATTERNS = [e["key"] for e in opn if e.get("key")]
    core.lib()  # build + load before forking
    TABLES = build_tables()
    PAIRSET = {(a, b) for a, b, _ in TABLES["pairs"]}
    ALIAS16SET = set(TABLES["alias16_all"]) - set(TABLES["comp_second"])
    F = Findings()
    cov = dict(parts={}, _samples=[], _past_dmax=0)
    ctx = multiprocessing.get_context("fork")
    ev_total = nt_total = 0
    timing = {}

    def timed(name, fn):
        nonlocal ev_total, nt_total
        t = time.time()
        e, n = fn()
        ev_total += e
        nt_total += n
        timing[name] = round(time.time() - t, 2)

    # worker pools are forked per part so that BAD_DECOMP (root causes from part 1) is inherited
    if 1 in parts:
        timed("part1", lambda: part1(a.workers, F, cov))
    if 2 in parts:
        timed("part2", lambda: part2(a.workers, F, cov, a.tier))
    if 3 in parts:
        timed("part3", lambda: part3(a.workers, F, cov, a.tier))
    if 4 in parts:
        timed("part4", lambda: part4(a.workers, F, cov))
    if 5 in parts:
        timed("part5", lambda: part5(F, cov))

    # ---------------------------------------------------------------- triage
    regroup(F)
    lines, viol_lines = [], []
    nviol = 0
    known_hits = {}
    new = []
    for key in sorted(F.by_key):
        ent = F.by_key[key]
        if is_open(key):
            known_hits[key] = ent["count"]
        else:
            new.append((key, ent))
    for e in opn:
        hit = sum(n for k, n in known_hits.items() if driver.key_matches(e["key"], k))
        if hit:
            lines.append("KNOWN-FINDING: property=%s %s (hits this run: %d)" % (PROP, e["text"], hit))
    max_new = int(os.environ.get("VERIF_MAX_NEW", "25"))
    new_keys = []
    new = [(k, e) for k, e in new if e["case"] is not None]  # (case None: open/attributed keys only counted)
    paths = [save_replay(key, ent) for key, ent in new]
    from concurrent.futures import ThreadPoolExecutor
    with ThreadPoolExecutor(8) as ex:  # each new finding is replayed 3 times from its file
        futs = [[ex.submit(replay_subprocess, p) for _ in range(3)] for p in paths[:max_new]]
        bads = [sum(1 for f in fl if f.result()[0] == 1) for fl in futs]
    for i, ((key, ent), path) in enumerate(zip(new, paths)):
        if i >= max_new:
            viol_lines.append("VIOLATION property=%s replay=%s" % (PROP, path))
            viol_lines.append("  key=%s hits=%d %s (not re-run: more than %d distinct new keys)"
                              % (key, ent["count"], ent["detail"][:300], max_new))
            nviol += 1
            new_keys.append(key)
            continue
        bad = bads[i]
        if bad == 0:
            lines.append("UNREPRODUCED: property=%s key=%s (0 of 3 replays failed) file=%s" % (PROP, key, path))
            continue
        viol_lines.append("VIOLATION property=%s replay=%s" % (PROP, path))
        viol_lines.append("  key=%s hits=%d replays-failing=%d/3 %s" % (key, ent["count"], bad, ent["detail"][:400]))
        nviol += 1
        new_keys.append(key)
    # regression tier: replays of fixed (must pass) and open (informational) entries
    reg = []
    for kind, ents in (("fixed", fixed), ("open", opn)):
        for e in ents:
            if not e.get("replay"):
                continue
            p = e["replay"] if os.path.isabs(e["replay"]) else os.path.join(VERIF, e["replay"])
            if not os.path.exists(p):
                lines.append("NOTE: replay file of %s finding %s is missing: %s" % (kind, e["key"], p))
                continue
            code, out = replay_subprocess(p)
            reg.append(dict(kind=kind, key=e["key"], replay=os.path.relpath(p, VERIF), fails=(code == 1)))
            if kind == "fixed" and code == 1:
                viol_lines.append("VIOLATION property=%s replay=%s" % (PROP, p))
                viol_lines.append("  (regression of fixed finding: %s)" % e["text"])
                nviol += 1
            elif kind == "fixed" and code != 0:
                lines.append("NOTE: replay of fixed finding %s could not be run (exit %d)" % (e["key"], code))
            elif kind == "open" and code == 0:
                lines.append("NOTE: open finding %s no longer reproduces from %s" % (e["key"], p))

    # ---------------------------------------------------------------- evidence
    samples = [dict(part=1, case=norm_case([0x1E14], "NFD"), expected=ustr(core.py_norm("NFD", [0x1E14]))),
               dict(part=1, case=norm_case([0x0344], "NFC"), expected=ustr(core.py_norm("NFC", [0x0344])))] if 1 in parts else []
    samples += cov.pop("_samples")
    past = cov.pop("_past_dmax")
    wall = time.time() - t0
    coverage = dict(
        evaluations=ev_total, distinct_nontrivial=nt_total,
        rule="parts 1,2,4,5 enumerate their spaces (all code points assigned in UCD 14 x {NFD,NFC}; all canonical "
             "2-element decomposition pairs, pairs with an intervening/trailing mark of 10 combining classes, starter + every "
             "assigned character of another plane whose low 16 bits equal a composing mark, all 11172 "
             "Hangul syllables, LV+T and L x V x T jamo strings including one-past boundaries; every scalar value for "
             "the fold relations; 7 out-of-range values + all 2048 surrogates x 9 entry points x 6 string shapes); part 3 "
             "draws Hypothesis strings of <= 12 characters, each also reversed and with its mark runs reversed (starter + marks, marks of >= 3 distinct combining classes "
             "permuted, composing pairs with marks between, jamo/syllables, leading marks) and sweeps dmax from 1 to "
             "len(NFD)+7 plus ample=64, both modes, destbos unknown or exact. An evaluation is one (input, mode, dmax) "
             "or one code point (fold) or one driver case. A case is non-trivial when the character has a decomposition, "
             "a non-zero combining class or a case folding different from itself (Hangul syllables and conjoining jamo "
             "count as decomposable/composable), or when the string contains such a character; distinct = distinct "
             "inputs per part (modes and dmax values of the same input are not counted again). Out-of-range cases are "
             "not counted as non-trivial.",
        samples=samples[:14], exhaustive=True,
        exhaustive_note="exhaustive: part 1 (code points), part 2 (pairs, Hangul), part 4 (fold, every scalar value), "
                        "part 5 (out-of-range table); part 3 (Hypothesis strings) is sampled",
        parts=cov["parts"], timing_s=timing, known_hits=known_hits, new_violation_keys=new_keys,
        regression_replays=reg, writes_behind_dmax_observed=past,
        library_dir=core.lib().dir, source_tree=os.environ.get("VERIF_SRC", "/repo"))
    ev = dict(property_id=PROP, tier=a.tier, seed=BASE_SEED, level="exploration", coverage=coverage,
              assumptions=["CPython %d.%d unicodedata (UCD %s) is the oracle for NFD/NFC and full case folding"
                           % (sys.version_info[0], sys.version_info[1], ud.unidata_version),
                           "normalisation of characters assigned in UCD 14 is frozen by the Unicode stability policy, so the "
                           "library's Unicode-15 tables must agree on them; characters first assigned in Unicode 15 are not judged",
                           "U+0000 cannot occur inside a C wide string and is skipped",
                           "wchar_t is 32 bit (x86-64 Linux); the UTF-16 tables (unw16*.h) are not exercised",
                           "ample dmax is 64 for strings of <= 12 characters (4 per character + 5 spare as the doc demands)",
                           "LC_CTYPE is the process default (no tr/az/lt locale): the locale-specific branches of wcsfc_s are not judged",
                           "compat modes (NFKD/NFKC) and the experimental FCD/FCC modes are outside the property",
                           "part 5 judges sanitizer reports/crashes for every value and demands rejection only above U+10FFFF"],
              wall_s=round(wall, 2), violations=nviol)
    if nt_total < 2 and parts >= {1}:
        lines.append("BROKEN: fewer than 2 distinct non-trivial cases")
    if parts == {1, 2, 3, 4, 5}:
        jsonschema.validate(ev, json.load(open(SCHEMA)))
        os.makedirs(os.path.dirname(EVIDENCE), exist_ok=True)
        tmp = EVIDENCE + ".tmp"
        with open(tmp, "w") as f:
            json.dump(ev, f, indent=1, sort_keys=True)
            f.write("\n")
        os.replace(tmp, EVIDENCE)
    for l in lines + viol_lines:
        print(l)
    print("%s %s seed=%d: %d evaluations, %d distinct non-trivial, %d known-finding hits, %d violation keys, %.1fs %s"
          % (PROP, a.tier, BASE_SEED, ev_total, nt_total, sum(known_hits.values()), nviol, wall, timing))
    sys.exit(1 if nviol else 0)


if __name__ == "__main__":
    main()
