"""C17 core: ctypes binding of libsafec.so, the oracles (CPython unicodedata,
UCD 14), and evaluation of single cases.  Used by run.py for the sweeps, the
Hypothesis part and for --replay.

A *case* is a JSON-able dict:
  {"kind":"norm","cps":[...],"mode":"NFD"|"NFC","dmax":int|None,"bos":bool}
  {"kind":"string","cps":[...],"bos":bool}          (both modes, whole dmax sweep)
  {"kind":"fold","cp":int}
  {"kind":"oor","entry":str,"variant":str,"value":int}
Every check returns a list of violations  (vkind, detail)  -- empty == passes.
"""
import ctypes
import os
import subprocess
import sys
import unicodedata as ud

sys.path.insert(0, "/verif/lib")
import vlib  # noqa: E402

HERE = os.path.dirname(os.path.abspath(__file__))
UNK = ctypes.c_size_t(-1).value
MODES = {"NFD": 0, "NFC": 1}
AMPLE = 64  # >= 4*12 + 5 (+ slack): enough for every string of <= 12 characters
CAP = 4400   # room for the long-run strings (<= 520 characters, ample dmax 4*len+8) and their sweep
ESNOTFND = 409

HANDLER_T = ctypes.CFUNCTYPE(None, ctypes.c_char_p, ctypes.c_void_p, ctypes.c_int)


def u(cp):
    return "U+%04X" % cp


def ustr(cps):
    return " ".join(u(c) for c in cps) if cps else "(empty)"


class Lib:
    """the shared build of the library, with preallocated buffers"""

    def __init__(self):
        self.dir = vlib.build("shared")
        self.L = L = ctypes.CDLL(os.path.join(self.dir, "libsafec.so"))
        self.handler_calls = 0

        def _h(msg, ptr, err):
            self.handler_calls += 1

        self._hobj = HANDLER_T(_h)  # keep alive
        L.set_str_constraint_handler_s.restype = ctypes.c_void_p
        L.set_str_constraint_handler_s.argtypes = [HANDLER_T]
        L.set_str_constraint_handler_s(self._hobj)
        vp, sz, u32, i = ctypes.c_void_p, ctypes.c_size_t, ctypes.c_uint32, ctypes.c_int
        L._wcsnorm_s_chk.argtypes = [vp, sz, vp, i, vp, sz]
        L._wcsnorm_s_chk.restype = i
        L.iswfc.argtypes = [u32]
        L.iswfc.restype = i
        L._towfc_s_chk.argtypes = [vp, sz, u32, sz]
        L._towfc_s_chk.restype = i
        L._wcsfc_s_chk.argtypes = [vp, sz, vp, vp, sz]
        L._wcsfc_s_chk.restype = i
        self.dest = (ctypes.c_uint32 * CAP)()
        self.src = (ctypes.c_uint32 * CAP)()
        self.lenp = ctypes.c_size_t()
        self.lenref = ctypes.byref(self.lenp)
        self.calls = 0
        self.past_dmax = 0  # informational: sentinel behind dest[dmax] changed

    def _read(self, dmax):
        """(string up to the first NUL within dmax | None when unterminated)"""
        out = self.dest[0:dmax]
        try:
            k = out.index(0)
        except ValueError:
            return None
        return out[:k]

    def norm(self, cps, mode, dmax=AMPLE, bos=False):
        """-> (rc, out list | None, *lenp)"""
        n = len(cps)
        assert n + 1 < CAP and dmax + 4 <= CAP
        self.src[0:n] = cps
        self.src[n] = 0
        ctypes.memset(self.dest, 0xAA, (dmax + 4) * 4)
        self.lenp.value = 0xDEADBEEF
        self.calls += 1
        rc = self.L._wcsnorm_s_chk(self.dest, dmax, self.src, MODES[mode], self.lenref,
                                   dmax * 4 if bos else UNK)
        if self.dest[dmax] != 0xAAAAAAAA:
            self.past_dmax += 1
        if rc != 0:
            return rc, None, self.lenp.value
        return rc, self._read(dmax), self.lenp.value

    def iswfc(self, cp):
        self.calls += 1
        return self.L.iswfc(cp)

    def towfc(self, cp):
        """-> (ret, characters in dest)"""
        ctypes.memset(self.dest, 0xAA, 8 * 4)
        self.calls += 1
        r = self.L._towfc_s_chk(self.dest, 4, cp, UNK)
        out = self.dest[0:8]
        try:
            k = out.index(0)
        except ValueError:
            return r, None
        return r, out[:k]

    def wcsfc(self, cps, dmax):
        n = len(cps)
        self.src[0:n] = cps
        self.src[n] = 0
        ctypes.memset(self.dest, 0xAA, (dmax + 4) * 4)
        self.lenp.value = 0xDEADBEEF
        self.calls += 1
        rc = self.L._wcsfc_s_chk(self.dest, dmax, self.src, self.lenref, UNK)
        if self.dest[dmax] != 0xAAAAAAAA:
            self.past_dmax += 1
        if rc != 0:
            return rc, None, self.lenp.value
        return rc, self._read(dmax), self.lenp.value


_LIB = None
STATS = {"small_dmax_rejected": 0, "small_dmax_success": 0}


def lib():
    global _LIB
    if _LIB is None:
        _LIB = Lib()
    return _LIB


# ---------------------------------------------------------------- oracle

def py_norm(mode, cps):
    return [ord(c) for c in ud.normalize(mode, "".join(map(chr, cps)))]


def assigned(cp):
    """assigned in UCD 14 and a scalar value usable inside a C wide string"""
    return cp != 0 and not (0xD800 <= cp <= 0xDFFF) and ud.category(chr(cp)) != "Cn"


def is_hangul(cp):
    return 0x1100 <= cp <= 0x11FF or 0xAC00 <= cp <= 0xD7A3


def nontrivial_cp(cp):
    """rule N of the design: decomposition / non-zero combining class / fold != identity
    (Hangul syllables and conjoining jamo count: algorithmic (de)composition)"""
    c = chr(cp)
    return bool(ud.decomposition(c)) or ud.combining(c) != 0 or c.casefold() != c or \
        0xAC00 <= cp <= 0xD7A3 or 0x1100 <= cp <= 0x1112 or 0x1161 <= cp <= 0x1175 or 0x11A8 <= cp <= 0x11C2


def nontrivial_str(cps):
    for cp in cps:
        if cp <= 0x10FFFF and nontrivial_cp(cp):
            return True
    return False


# ---------------------------------------------------------------- checks

def check_norm(cps, mode, dmax=None, bos=False, exp=None):
    """One call of wcsnorm_s against the oracle.
    dmax None  -> AMPLE: must succeed with exactly the UAX#15 form, *lenp == length,
                  and normalising the library's own output again is a fixed point.
    dmax given -> may fail (any non-zero return) but must never report success
                  with something else than the normal form."""
    Lb = lib()
    if exp is None:
        exp = py_norm(mode, cps)
    ample = dmax is None
    d = min(max(AMPLE, 4 * len(cps) + 8), 1000) if ample else dmax   # up to 4 cells per character plus 5 spare, below RSIZE_MAX_WSTR (1024)
    rc, out, lenp = Lb.norm(cps, mode, d, bos)
    v = []
    if not ample:
        STATS["small_dmax_rejected" if rc != 0 else "small_dmax_success"] += 1
    if rc != 0:
        if ample:
            v.append(("ample-error", "wcsnorm_s(%s, dmax=%d, %s) returned %d, expected EOK and %s"
                      % (ustr(cps), d, mode, rc, ustr(exp))))
        return v
    tag = "" if ample else "small-dmax-"
    if out is None:
        v.append((tag + "unterminated", "wcsnorm_s(%s, dmax=%d, %s) returned EOK without a terminator in dest[0..dmax)"
                  % (ustr(cps), d, mode)))
        return v
    if out != exp:
        v.append((tag + "mismatch", "wcsnorm_s(%s, dmax=%d, %s) = %s, UAX#15 %s = %s"
                  % (ustr(cps), d, mode, ustr(out), mode, ustr(exp))))
    if lenp != len(out):
        v.append((tag + "len", "wcsnorm_s(%s, dmax=%d, %s) wrote %d characters but reported *lenp=%d"
                  % (ustr(cps), d, mode, len(out), lenp)))
    # the fixed-point check is oracle-independent; it is reported only when the first
    # result itself agreed with the oracle (otherwise it is a consequence of that mismatch)
    if ample and not v and out and all(0 < c <= 0x10FFFF for c in out) and len(out) + 1 < CAP // 2:
        rc2, out2, lenp2 = Lb.norm(out, mode, max(AMPLE, len(out) + 8), False)
        if rc2 != 0 or out2 != out:
            v.append(("idem", "wcsnorm_s(%s, %s) = %s but normalising that again gives %s"
                      % (ustr(cps), mode, ustr(out), "rc=%d" % rc2 if rc2 else ustr(out2))))
    return v


def fold_facts(cp):
    """library answers for one code point: (n, ret, out)"""
    Lb = lib()
    n = Lb.iswfc(cp)
    ret, out = Lb.towfc(cp)
    return n, ret, out


def check_fold(cp):
    """iswfc / towfc_s / wcsfc_s length relations for one scalar value (cp != 0)."""
    Lb = lib()
    v = []
    n, ret, out = fold_facts(cp)
    if n not in (0, 1, 2, 3):
        v.append(("iswfc-range", "iswfc(%s) = %d, documented values are 0..3" % (u(cp), n)))
        return v
    if out is None:
        v.append(("towfc-unterminated", "towfc_s(dest,4,%s) left no terminator in dest[0..4)" % u(cp)))
        return v
    want = max(1, n)
    if len(out) != want:
        v.append(("count-vs-iswfc", "iswfc(%s) = %d announces %d character(s) but towfc_s wrote %d: %s (ret %d)"
                  % (u(cp), n, want, len(out), ustr(out), ret)))
    if not (ret == -ESNOTFND or 0 <= ret <= 3):
        v.append(("towfc-return", "towfc_s(dest,4,%s) returned %d (documented: 0..3 or -ESNOTFND)" % (u(cp), ret)))
    elif ret > 0 and ret != len(out):
        v.append(("towfc-return", "towfc_s(dest,4,%s) returned %d but wrote %d character(s): %s"
                  % (u(cp), ret, len(out), ustr(out))))
    if not assigned(cp):
        return v  # no oracle for characters unassigned in UCD 14
    cf = [ord(c) for c in chr(cp).casefold()]
    if out != cf:
        v.append(("casefold", "towfc_s(%s) = %s, Unicode full case folding = %s" % (u(cp), ustr(out), ustr(cf))))
    if any(not assigned(c) for c in out):
        return v
    # wcsfc_s: documented as fold + NFD decomposition of the result
    exp = py_norm("NFD", out)
    need = max(5, len(exp) + 1)  # doc: "dmax shall not be smaller than 5 and big enough for dest"
    for dmax, vk in ((AMPLE, "nfd-single"), (need, "sized-dest")):
        rc, o2, lenp = Lb.wcsfc([cp], dmax)
        if rc != 0:
            v.append((("wcsfc-" + vk) if vk == "sized-dest" else "wcsfc-error",
                      "wcsfc_s(%s, dmax=%d) returned %d; fold %s + NFD = %s needs %d+1 characters"
                      % (u(cp), dmax, rc, ustr(out), ustr(exp), len(exp))))
            continue
        if o2 is None:
            v.append(("wcsfc-unterminated", "wcsfc_s(%s, dmax=%d) returned EOK without terminator" % (u(cp), dmax)))
            continue
        if o2 != exp:
            v.append(("wcsfc-nfd-single", "wcsfc_s(%s, dmax=%d) = %s, expected NFD(towfc_s output %s) = %s"
                      % (u(cp), dmax, ustr(o2), ustr(out), ustr(exp))))
        if lenp != len(o2):
            v.append(("wcsfc-len", "wcsfc_s(%s, dmax=%d) wrote %d characters but reported *lenp=%d"
                      % (u(cp), dmax, len(o2), lenp)))
    return v


# ---------------------------------------------------------------- part 5 driver

OOR_ENTRIES = ["wcsnorm_s:NFD", "wcsnorm_s:NFC", "wcsnorm_decompose_s", "wcsnorm_reorder_s",
               "wcsnorm_compose_s", "wcsnorm_compose_s:contig", "iswfc", "towfc_s", "wcsfc_s"]
_DRIVER = None


def build_oor_driver():
    """-> (path, mode) mode 'asan' (clang ASan+UBSan, static lib) or 'shared-nosan' (fallback)"""
    global _DRIVER
    if _DRIVER:
        return _DRIVER
    src = os.path.join(HERE, "oor_driver.c")
    import hashlib
    hs = hashlib.sha256(open(src, "rb").read()).hexdigest()[:12]
    err = ""
    try:
        d = vlib.build("asan")
        out = os.path.join(d, "c17_oor_%s" % hs)
        if not os.path.exists(out):
            tmp = out + ".%d.tmp" % os.getpid()
            cmd = ["clang", "-O1", "-g", "-fno-omit-frame-pointer", "-fsanitize=address,undefined",
                   "-fno-sanitize-recover=undefined", "-w"] + vlib.include_flags(d) + \
                  [src, os.path.join(d, "libsafec.a"), "-o", tmp]
            r = subprocess.run(cmd, capture_output=True, text=True)
            if r.returncode != 0:
                raise RuntimeError(r.stderr[-1500:])
            os.replace(tmp, out)
        _DRIVER = (out, "asan")
        return _DRIVER
    except Exception as e:  # clang / sanitizer runtime unavailable: weaker fallback
        err = str(e)
    d = vlib.build("shared")
    out = os.path.join(d, "c17_oor_%s" % hs)
    if not os.path.exists(out):
        tmp = out + ".%d.tmp" % os.getpid()
        cmd = ["gcc", "-O1", "-g", "-w"] + vlib.include_flags(d) + \
              [src, "-L" + d, "-lsafec", "-Wl,-rpath," + d, "-o", tmp]
        r = subprocess.run(cmd, capture_output=True, text=True)
        if r.returncode != 0:
            raise RuntimeError("cannot build the out-of-range driver:\n%s\n%s" % (err, r.stderr[-1500:]))
        os.replace(tmp, out)
    _DRIVER = (out, "shared-nosan")
    return _DRIVER


def _oor_env():
    env = dict(os.environ)
    env["ASAN_OPTIONS"] = "detect_leaks=0:abort_on_error=0:symbolize=1:allocator_may_return_null=1"
    env["UBSAN_OPTIONS"] = "print_stacktrace=0:halt_on_error=1"
    return env


def _report_line(stderr):
    for l in stderr.splitlines():
        if "runtime error:" in l or "ERROR: AddressSanitizer" in l or "SUMMARY:" in l:
            return l.strip()[:300]
    return ""


def judge_oor(entry, value, rc):
    """a call that returned: is the return acceptable?  Only values above
    U+10FFFF must be rejected; surrogates may be passed through."""
    if value <= 0x10FFFF:
        return None
    if entry == "iswfc":
        if rc not in (0, 1, 2, 3):
            return "iswfc(%#x) = %d" % (value, rc)
        return None
    if entry == "towfc_s":
        if rc >= 0:
            return "towfc_s(dest,4,%#x) returned %d (accepted a value above U+10FFFF)" % (value, rc)
        return None
    if rc == 0:
        return "%s returned EOK for a string containing %#x (not rejected)" % (entry, value)
    return None


def parse_oor_output(stdout):
    """-> (finished [(idx, entry, variant, value, rc)], pending (idx, entry, variant, value) | None, done bool)"""
    fin, cur, done = [], None, False
    for l in stdout.splitlines():
        p = l.split()
        if not p:
            continue
        if p[0] == "BEGIN" and len(p) >= 5:
            cur = (int(p[1]), p[2], p[3], int(p[4], 16))
        elif p[0] == "END" and cur is not None:
            rc = int(p[2].split("=")[1])
            fin.append(cur + (rc,))
            cur = None
        elif p[0] == "DONE":
            done = True
    return fin, cur, done


def check_oor(entry, variant, value):
    """replay of one out-of-range case in a child process"""
    drv, mode = build_oor_driver()
    r = subprocess.run([drv, "one", entry, variant, "%#x" % value], capture_output=True, text=True,
                       errors="replace", env=_oor_env())
    fin, cur, done = parse_oor_output(r.stdout)
    v = []
    if r.returncode != 0 or not done:
        v.append(("crash", "%s with %#x (%s): child exit %d %s" % (entry, value, variant, r.returncode,
                                                                   _report_line(r.stderr))))
        return v
    for (_i, e, _var, val, rc) in fin:
        m = judge_oor(e.split(":")[0], val, rc)
        if m:
            v.append(("accepted", m))
    return v


# ---------------------------------------------------------------- cases

def eval_string(cps, mode, bos=False, sweep=True, counter=None):
    """ample call first, then the dmax sweep 1 .. len(NFD)+7; returns the first
    violation (vkind, detail, dmax) or None.  A failing ample call suppresses the
    sweep of that mode (its failures would be consequences)."""
    exp = py_norm(mode, cps)
    n = 1
    v = check_norm(cps, mode, None, bos, exp)
    if not v and sweep:
        top = len(py_norm("NFD", cps)) + 8
        for dmax in range(1, top):
            n += 1
            v = check_norm(cps, mode, dmax, bos, exp)
            if v:
                if counter is not None:
                    counter[0] += n
                return v[0][0], v[0][1], dmax
    if counter is not None:
        counter[0] += n
    if v:
        return v[0][0], v[0][1], None
    return None


def minimise(cps, mode, bos, vk):
    """greedy one-character deletion while the same kind of violation remains
    (used to classify a failing string by its smallest failing sub-sequence)"""
    cur = list(cps)
    changed = True
    while changed and len(cur) > 1:
        changed = False
        for i in range(len(cur)):
            cand = cur[:i] + cur[i + 1:]
            r = eval_string(cand, mode, bos, sweep=vk.startswith("small-dmax"))
            if r and r[0] == vk:
                cur = cand
                changed = True
                break
    return cur


def token(cp):
    if 0x1100 <= cp <= 0x1112:
        return "L"
    if 0x1161 <= cp <= 0x1175:
        return "V"
    if 0x11A8 <= cp <= 0x11C2:
        return "T"
    if 0xAC00 <= cp <= 0xD7A3:
        return "LVT" if (cp - 0xAC00) % 28 else "LV"
    if 0x10FF <= cp <= 0x11FF:
        return "J"  # other / boundary jamo
    if cp > 0x10FFFF or 0xD800 <= cp <= 0xDFFF:
        return "X"
    c = chr(cp)
    x = "x" if cp > 0xFFFF else ""  # supplementary plane
    if ud.combining(c):
        return "M" + x
    d = ud.decomposition(c)
    if d and not d.startswith("<"):
        return "D" + x
    return "S" + x


def pattern(cps):
    """class of a (short) string: its character classes, plus how adjacent marks are ordered"""
    toks = [token(c) for c in cps]
    cc = [ud.combining(chr(c)) if c <= 0x10FFFF else 0 for c in cps]
    suf = ""
    if any(cc[i] and cc[i] == cc[i + 1] for i in range(len(cc) - 1)):
        suf += ":same-ccc"
    if any(cc[i] > cc[i + 1] > 0 for i in range(len(cc) - 1)):
        suf += ":reorder"
    return "+".join(toks) + suf


def evaluate(case):
    k = case["kind"]
    if k == "norm":
        return check_norm(list(case["cps"]), case["mode"], case.get("dmax"), bool(case.get("bos")))
    if k == "string":  # both modes, ample + the whole dmax sweep
        v = []
        for mode in ("NFD", "NFC"):
            r = eval_string(list(case["cps"]), mode, bool(case.get("bos")), True)
            if r:
                v.append((r[0], r[1]))
        return v
    if k == "fold":
        return check_fold(case["cp"])
    if k == "oor":
        return check_oor(case["entry"], case["variant"], case["value"])
    raise ValueError("unknown case kind %r" % k)
