#!/bin/sh
# offline setup: build the library configurations and the harness from /repo's tree
cd "$(dirname "$0")"
if [ -x /opt/veriftools/pyvenv/bin/python ]; then PY=/opt/veriftools/pyvenv/bin/python; else PY=python3; fi
$PY lib/vlib.py plain plain-noslack shared || exit 1
$PY lib/hbuild.py plain || exit 1
$PY lib/hbuild.py plain-noslack || exit 1
$PY lib/hbuild.py shared || exit 1
echo setup ok
