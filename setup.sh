#!/bin/sh
# offline setup: build the library configurations and the harness from /repo's tree
cd "$(dirname "$0")"
if [ -x /opt/veriftools/pyvenv/bin/python ]; then PY=/opt/veriftools/pyvenv/bin/python; else PY=python3; fi
$PY lib/vlib.py plain plain-noslack shared || exit 1
$PY lib/hbuild.py plain || exit 1
$PY lib/hbuild.py plain-noslack || exit 1
$PY lib/hbuild.py shared || exit 1
# sanitizer builds used by the coverage-guided phase (C01 C02 C07 C09 C11 C14 C15 C16) and by C12's race oracle
$PY lib/hbuild.py fuzz >/dev/null 2>&1 || echo "note: fuzz build failed (built on demand)"
$PY lib/hbuild.py tsan >/dev/null 2>&1 || echo "note: tsan build failed (built on demand)"
echo setup ok
