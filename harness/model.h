#ifndef MODEL_H
#define MODEL_H
#include "generic.h"
enum { MX_OK = 1, MX_FAIL, MX_VALUE, MX_ZERO_IFF };
enum { MO_NONE, MO_SIGN, MO_VALUE, MO_OFF };
typedef struct mref {
    int known;          /* the model applies to this case */
    int expect;         /* MX_OK: success-class return `ret` expected when the call succeeds; MX_FAIL: the complete result does not fit, the call must fail;
                           MX_VALUE: plain return value `ret`; MX_ZERO_IFF: return is zero iff ret != 0 */
    long ret;
    int check_dest;     /* compare dest[0..cmp_elems) with `dest` */
    size_t cmp_elems;
    int out_kind;       /* how to compare the out-parameter */
    long out_val;
    long out_off;
    int check_retptr;   /* returned pointer == dest + retptr_off elements */
    long retptr_off;
    unsigned char dest[AR_DATA];
} mref_t;
extern int g_model_noslack; /* the library under test was built without SAFECLIB_STR_NULL_SLACK */
void ref_model(const row_t *row, const gcase_t *c, const unsigned char *dest_before, const unsigned char *src_before, mref_t *m);
#endif
