/* wraps.h -- link-time interposers (the harness is linked with
 * -Wl,--wrap=malloc,calloc,realloc,free,ignore_handler_s) */
#ifndef WRAPS_H
#define WRAPS_H
#include <stddef.h>
#include "safe_lib.h"
/* allocator interposition (C20) */
extern volatile int a_armed;
extern int a_count, a_fail_at, a_failed, a_nlive, a_foreign_free;
/* default-handler observation (C13) */
extern void (*g_default_handler_hook)(const char *msg, void *ptr, errno_t err);
/* process-wide state / non-reentrant libc calls made while a guarded library call runs (C12) */
extern const char *volatile g_globstate_sym;
extern volatile int g_globstate_calls;
#endif
