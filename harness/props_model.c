/* props_model.c -- C06 (exact complete result) and C10 (queries answer like their
 * standard counterparts) over the generic rows, against harness/model.c */
#include "model.h"

static gexec_t X;
static mref_t M;

static int mcall_failed(const row_t *row, const gexec_t *x) {
    switch (row->ret_kind) {
    case RK_ERRNO: return !(x->a.ret == EOK || x->a.ret == ESNOTFND || x->a.ret == ESNODIFF);
    case RK_PTR_ERRP: return x->a.errp ? x->errp_val != EOK : x->a.ret == 0;
    default: return (x->h_str + x->h_mem) > 0;
    }
}
static long mcall_code(const row_t *row, const gexec_t *x) {
    if (row->ret_kind == RK_ERRNO) return x->a.ret;
    if (row->ret_kind == RK_PTR_ERRP) return x->a.errp ? x->errp_val : -1;
    return x->h_code;
}

/* make the decoded case a valid (truthful, constraint-free apart from "does it fit") call */
static void force_valid(gcase_t *c, const row_t *r) {
    size_t cap = (AR_DATA - 256) / (size_t)(r->w > r->du ? r->w : r->du), n;
    if (cap > r->dmax_max) cap = r->dmax_max;
    c->dest_null = c->src_null = c->out_null = 0;
    if (c->dkind == DK_TOLDLIE || c->dkind == DK_OVERMAX) c->dkind = DK_EXACT;
    if (c->dmax == 0) c->dmax = (size_t)(r->w / r->du > 1 ? r->w / r->du : 1);
    if (c->dmax > cap) c->dmax = cap;
    if (c->dkind == DK_EXACT || c->dtrue < c->dmax * (size_t)r->du) c->dtrue = c->dmax * (size_t)r->du;
    if (c->dtrue % (size_t)r->w) c->dtrue += (size_t)r->w - c->dtrue % (size_t)r->w;
    n = c->dmax * (size_t)r->du / (size_t)r->w;
    if (r->fl & F_DIN) {
        if (n == 0) { c->dmax += (size_t)(r->w / r->du); c->dtrue += (size_t)r->w; n = 1; }
        c->dcontent = DC_STR;
        if (c->dlen >= n) c->dlen = n - 1;
    }
    if (r->fl & F_SRC) {
        size_t scap = (AR_DATA - 256) / (size_t)(r->su > r->w ? r->su : r->w);
        if ((r->fl & F_SLEN) && c->slen > scap) c->slen = scap;
        if ((r->fl & F_SLEN) && c->slen > r->dmax_max * (size_t)r->du / (size_t)r->su) c->slen = r->dmax_max * (size_t)r->du / (size_t)r->su;
        if ((r->fl & F_SRCSTR)) {
            if (c->scontent == SC_UNTERM && !((r->fl & F_SLEN) && c->slen * (size_t)r->su <= c->strue && c->slen > 0)) {
                c->scontent = SC_STR;
                if (c->slen_true > scap - 1) c->slen_true = scap - 1;
                c->strue = (c->slen_true + 1) * (size_t)r->w;
            }
            if (c->scontent == SC_STR && c->strue < (c->slen_true + 1) * (size_t)r->w) c->strue = (c->slen_true + 1) * (size_t)r->w;
        } else {
            size_t need = (r->fl & F_SLEN) ? c->slen * (size_t)r->su : ((r->fl & F_N) ? c->n * (size_t)r->su : n * (size_t)r->w);
            if ((r->fl & F_N) && c->n > scap) { c->n = scap; need = c->n * (size_t)r->su; }
            if (c->strue < need) c->strue = need;
        }
        if (c->sbos && (r->fl & F_SLEN) && c->slen * (size_t)r->su > c->strue) c->sbos = 0;
    }
    if ((r->fl & F_N) && c->n > cap) c->n = cap;
    if ((r->fl & F_VAL255) && (c->val > 255 || c->val < 0)) c->val &= 0xff;
    if ((r->fl & F_VAL) && r->w == 4 && !(r->fam == FAM_QUERY) && (c->val > 0x10ffff || c->val < 0)) c->val = 0x41;
}

static int gen_c06(cs_t *cs, void *k, const runcfg_t *cfg) {
    gcase_t *c = k; int ok = gc_gen(cs, c, cfg, 6); c->guard = G_NA;
    if (ok) force_valid(c, &g_rows[c->row]);
    return ok;
}
static int gen_c10(cs_t *cs, void *k, const runcfg_t *cfg) {
    gcase_t *c = k; int ok = gc_gen(cs, c, cfg, 10); c->guard = G_NA;
    if (ok) force_valid(c, &g_rows[c->row]);
    if (ok && cfg->phase) {
        /* one case in six of the two-string queries: the second operand aliases the first (strstr_s(s, n, s + k, ...), comparing a
         * string with its own tail): legal, nothing is written; the answer is the standard function's on the same pointers */
        const row_t *r = &g_rows[c->row];
        if ((r->fl & F_SRC) && (r->fl & F_SRCSTR) && (r->fl & F_DIN) && r->fam == FAM_QUERY && r->su == r->w && r->du == r->w && c->dcontent == DC_STR && !c->ex_on &&
            c->dlen * (size_t)r->w < c->dtrue && cs_range(cs, 0, 5) == 0) {
            size_t kk = (size_t)cs_range(cs, 0, (long)c->dlen), cap;
            c->ov_on = 2; c->ov_off = (long)kk;
            c->strue = c->dtrue - kk * (size_t)r->w;
            c->scontent = SC_STR;
            c->slen_true = c->dlen - kk;
            cap = c->strue / (size_t)r->su;
            if (r->fl & F_SLEN) { if (c->slen > cap) c->slen = cap; if (c->slen <= c->slen_true) c->slen = c->slen_true + 1 <= cap ? c->slen_true + 1 : cap; }
            if (c->sbos && (r->fl & F_SLEN) && c->slen * (size_t)r->su > c->strue) c->sbos = 0;
        }
    }
    return ok;
}

static const char *cname(long c) {
    static char b[24];
    switch (c) {
    case 0: return "EOK"; case ESNULLP: return "ESNULLP"; case ESZEROL: return "ESZEROL"; case ESLEMAX: return "ESLEMAX";
    case ESOVRLP: return "ESOVRLP"; case ESNOSPC: return "ESNOSPC"; case ESUNTERM: return "ESUNTERM"; case ESNODIFF: return "ESNODIFF";
    case ESNOTFND: return "ESNOTFND"; case EOVERFLOW: return "EOVERFLOW"; case ESLEMIN: return "ESLEMIN";
    default: snprintf(b, sizeof b, "code%ld", c); return b;
    }
}

static const char *sizeclass(const gcase_t *c, const row_t *row) {
    size_t n = c->dmax * (size_t)row->du / (size_t)row->w;
    if ((row->fl & F_SRCSTR)) {
        size_t need = c->slen_true + 1 + ((row->fl & F_DIN) && row->fam == FAM_CAT ? c->dlen : 0);
        if ((row->fl & F_SLEN) && c->slen < c->slen_true) return "slen<srclen";
        if (need == n) return "exact-fit";
        if (need > n) return "too-long";
        return "fits";
    }
    if (row->fl & F_SLEN) return c->slen * (size_t)row->su == c->dmax * (size_t)row->du ? "slen==dmax" : (c->slen * (size_t)row->su > c->dmax * (size_t)row->du ? "slen>dmax" : "slen<dmax");
    if (row->fl & F_N) return c->n == n ? "n==dmax" : (c->n > n ? "n>dmax" : "n<dmax");
    return "n/a";
}

static void exec_c06(const void *k, res_t *r, const runcfg_t *cfg) {
    const gcase_t *c = k;
    const row_t *row = &g_rows[c->row];
    int failed;
    size_t i;
    gc_run(c, &X);
    r->hash = gc_hash(c);
    if (X.faulted) { res_label(r, "foreign-fault"); if (X.sig != SIGSEGV) r->fragile = 1; return; }
    g_model_noslack = cfg->libcfg && strstr(cfg->libcfg, "noslack") != NULL;
    ref_model(row, c, X.dest_before, X.src_before, &M);
    if (!M.known) { res_label(r, "model:declines"); return; }
    failed = mcall_failed(row, &X);
    res_label(r, sizeclass(c, row));
    if (M.expect == MX_FAIL) {
        r->nontrivial = 1;
        res_label(r, "model:must-fail(does not fit)");
        if (!failed) {
            RES_VIOL(r, "C06:%s:truncated-success:%s", row->name, sizeclass(c, row));
            RES_DETAIL(r, "the complete result does not fit in dmax=%zu but the call returned success", c->dmax);
        }
        return;
    }
    if (failed) { res_label(r, "call-failed(C05 matter)"); return; }
    r->nontrivial = 1;
    res_label(r, "model:success");
    if (M.expect == MX_VALUE && X.a.ret != M.ret) {
        RES_VIOL(r, "C06:%s:wrong-return-value:%s", row->name, sizeclass(c, row));
        RES_DETAIL(r, "returned %ld, reference %ld", X.a.ret, M.ret);
        return;
    }
    if (M.check_dest)
        for (i = 0; i < M.cmp_elems; i++)
            if (gc_elem(X.dest, row->w, i) != gc_elem(M.dest, row->w, i)) {
                RES_VIOL(r, "C06:%s:wrong-result:%s", row->name, sizeclass(c, row));
                RES_DETAIL(r, "dest[%zu]=0x%zx, reference 0x%zx (compared %zu elements)", i, gc_elem(X.dest, row->w, i), gc_elem(M.dest, row->w, i), M.cmp_elems);
                return;
            }
    if (M.check_retptr) {
        long off = (long)((unsigned char *)X.a.ret - X.dest) / row->w;
        if (X.a.ret == 0 || off != M.retptr_off) {
            RES_VIOL(r, "C06:%s:wrong-returned-pointer:%s", row->name, sizeclass(c, row));
            RES_DETAIL(r, "returned dest%+ld, reference dest+%ld", X.a.ret ? off : -999999, M.retptr_off);
            return;
        }
    }
    /* a source that is not the destination is never modified */
    if ((row->fl & F_SRC) && memcmp(X.src, X.src_before, c->strue) != 0) {
        RES_VIOL(r, "C06:%s:source-modified:%s", row->name, sizeclass(c, row));
        RES_DETAIL(r, "source changed by a successful call%s", "");
    }
}

static void exec_c10(const void *k, res_t *r, const runcfg_t *cfg) {
    const gcase_t *c = k;
    const row_t *row = &g_rows[c->row];
    int failed;
    long code;
    gc_run(c, &X);
    r->hash = gc_hash(c);
    if (c->ex_on) { r->hash = cs_hash_bytes(r->hash, c->ex_d, 7); r->hash = cs_hash_bytes(r->hash, c->ex_s, 7); }
    else r->hash = cs_hash_u64(r->hash, c->cseed);
    if (X.faulted) { res_label(r, "foreign-fault"); if (X.sig != SIGSEGV) r->fragile = 1; return; }
    g_model_noslack = cfg->libcfg && strstr(cfg->libcfg, "noslack") != NULL;
    ref_model(row, c, X.dest_before, X.src_before, &M);
    if (GC_QALIAS(c)) res_label(r, "aliased-second-operand");
    if (!M.known) { res_label(r, "model:declines"); return; }
    failed = mcall_failed(row, &X);
    code = mcall_code(row, &X);
    /* non-trivial: both operands non-empty, or exactly one empty */
    r->nontrivial = (row->fl & F_SRC) ? !(c->dlen == 0 && c->slen_true == 0 && (row->fl & F_SRCSTR)) : 1;
    res_label(r, c->ex_on ? "content:enumerated" : "content:random");
    if (memcmp(X.dest, X.dest_before, c->dtrue) != 0 || ((row->fl & F_SRC) && memcmp(X.src, X.src_before, c->strue) != 0)) {
        RES_VIOL(r, "C10:%s:operand-modified", row->name);
        RES_DETAIL(r, "a read-only query changed %s", memcmp(X.dest, X.dest_before, c->dtrue) ? "dest" : "src");
        return;
    }
    if (M.expect == MX_VALUE) {
        if (X.a.ret != M.ret) {
            RES_VIOL(r, "C10:%s:wrong-value", row->name);
            RES_DETAIL(r, "returned %ld, reference %ld", X.a.ret, M.ret);
        }
        return;
    }
    if (M.expect == MX_ZERO_IFF) {
        if ((X.a.ret == 0) != (M.ret != 0)) {
            RES_VIOL(r, "C10:%s:wrong-value", row->name);
            RES_DETAIL(r, "returned %ld but regions are %s", X.a.ret, M.ret ? "equal" : "different");
        }
        return;
    }
    if (failed) {
        RES_VIOL(r, "C10:%s:error-%s-on-valid-operands", row->name, cname(code));
        RES_DETAIL(r, "valid operands, reference answer %s, but the call failed with %s", cname(M.ret), cname(code));
        return;
    }
    if (code != M.ret) {
        RES_VIOL(r, "C10:%s:status-%s-expected-%s", row->name, cname(code), cname(M.ret));
        RES_DETAIL(r, "returned %s, the reference says %s", cname(code), cname(M.ret));
        return;
    }
    if (M.ret != EOK) return;
    if (M.out_kind == MO_SIGN) {
        int got = *(int *)(void *)X.out;
        if ((got < 0 ? -1 : got > 0) != M.out_val) {
            RES_VIOL(r, "C10:%s:wrong-sign", row->name);
            RES_DETAIL(r, "result %d, reference sign %ld", got, M.out_val);
        }
    } else if (M.out_kind == MO_VALUE) {
        size_t got = *(size_t *)(void *)X.out;
        if ((long)got != M.out_val) {
            RES_VIOL(r, "C10:%s:wrong-count", row->name);
            RES_DETAIL(r, "result %zu, reference %ld", got, M.out_val);
        }
    } else if (M.out_kind == MO_OFF) {
        unsigned char *got = *(unsigned char **)(void *)X.out;
        long off = got ? (long)(got - X.dest) / row->w : -1;
        if (off != M.out_val) {
            RES_VIOL(r, "C10:%s:wrong-position", row->name);
            RES_DETAIL(r, "result dest%+ld, reference dest+%ld", off, M.out_val);
        }
    }
}

static void m_init(const runcfg_t *cfg) { (void)cfg; gh_install(); }

const module_t mod_C06 = {"C06", sizeof(gcase_t), 1, {3000000, 30000000}, m_init, gen_c06, exec_c06, gc_describe,
                          "destination-writing generic rows with valid operands; reference = libc counterpart / doc-derived naive model on private copies; "
                          "non-trivial = the call succeeded and the model applies, or the complete result does not fit (must fail); distinct by decoded arguments minus content seed"};
const module_t mod_C10 = {"C10", sizeof(gcase_t), 1, {3000000, 30000000}, m_init, gen_c10, exec_c10, gc_describe,
                          "query rows with valid operands; phase 0 enumerates all operand contents over a 4-symbol alphabet (case pair, high-bit byte) for lengths 0..3 x declared sizes; "
                          "non-trivial = not both operands empty; distinct by decoded arguments and contents"};
