#include "../engine/pbt.h"
/* modules are linked weakly so that a property file under construction does not break the others */
#define DECL(m) extern const module_t m __attribute__((weak));
DECL(mod_C01) DECL(mod_C02) DECL(mod_C03) DECL(mod_C04) DECL(mod_C05) DECL(mod_C06) DECL(mod_C07) DECL(mod_C08) DECL(mod_C09) DECL(mod_C10)
DECL(mod_C11) DECL(mod_C12) DECL(mod_C13) DECL(mod_C14) DECL(mod_C15) DECL(mod_C16) DECL(mod_C20)
DECL(mod_C01X) DECL(mod_C02X) DECL(mod_C03X) DECL(mod_C04X) DECL(mod_C05X) DECL(mod_C06X) DECL(mod_C08X) DECL(mod_C12T) DECL(mod_C07C) DECL(mod_C07H) DECL(mod_C06B)
const module_t *const all_modules[] = {&mod_C01, &mod_C02, &mod_C03, &mod_C04, &mod_C05, &mod_C06, &mod_C07, &mod_C08, &mod_C09, &mod_C10,
                                       &mod_C11, &mod_C12, &mod_C13, &mod_C14, &mod_C15, &mod_C16, &mod_C20,
                                       &mod_C01X, &mod_C02X, &mod_C03X, &mod_C04X, &mod_C05X, &mod_C06X, &mod_C08X, &mod_C12T, &mod_C07C, &mod_C07H, &mod_C06B, 0};
const int all_modules_n = (int)(sizeof all_modules / sizeof all_modules[0]) - 1;
