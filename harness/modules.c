#include "../engine/pbt.h"
extern const module_t mod_C01, mod_C02, mod_C03, mod_C04, mod_C05, mod_C06, mod_C07, mod_C08, mod_C10;
const module_t *const all_modules[] = {&mod_C01, &mod_C02, &mod_C03, &mod_C04, &mod_C05, &mod_C06, &mod_C07, &mod_C08, &mod_C10, 0};
