#include "../engine/pbt.h"
/* modules are linked weakly so that a property file under construction does not break the others */
#define DECL(m) extern const module_t m __attribute__((weak));
DECL(mod_C01) DECL(mod_C02) DECL(mod_C03) DECL(mod_C04) DECL(mod_C05) DECL(mod_C06) DECL(mod_C07) DECL(mod_C08) DECL(mod_C09) DECL(mod_C10)
DECL(mod_C11) DECL(mod_C12) DECL(mod_C13) DECL(mod_C14) DECL(mod_C15) DECL(mod_C16) DECL(mod_C20)
DECL(mod_C01F) DECL(mod_C02F) DECL(mod_C03F) DECL(mod_C04F) DECL(mod_C05F) DECL(mod_C08F)
const module_t *const all_modules[] = {&mod_C01, &mod_C02, &mod_C03, &mod_C04, &mod_C05, &mod_C06, &mod_C07, &mod_C08, &mod_C09, &mod_C10,
                                       &mod_C11, &mod_C12, &mod_C13, &mod_C14, &mod_C15, &mod_C16, &mod_C20,
                                       &mod_C01F, &mod_C02F, &mod_C03F, &mod_C04F, &mod_C05F, &mod_C08F, 0};
const int all_modules_n = (int)(sizeof all_modules / sizeof all_modules[0]) - 1;
