#include "../engine/pbt.h"
extern const module_t mod_C01, mod_C02;
const module_t *const all_modules[] = {&mod_C01, &mod_C02, 0};
