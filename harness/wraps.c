#define _GNU_SOURCE
#include "wraps.h"
#include <errno.h>

void *__real_malloc(size_t);
void *__real_calloc(size_t, size_t);
void *__real_realloc(void *, size_t);
void __real_free(void *);
void __real_ignore_handler_s(const char *msg, void *ptr, errno_t error);

volatile int a_armed;
int a_count, a_fail_at, a_failed, a_nlive, a_foreign_free;
#define LIVE_MAX 64
static void *a_live[LIVE_MAX];

static void live_add(void *p) { if (p && a_nlive < LIVE_MAX) a_live[a_nlive++] = p; }
static int live_del(void *p) {
    int i;
    for (i = 0; i < a_nlive; i++) if (a_live[i] == p) { a_live[i] = a_live[--a_nlive]; return 1; }
    return 0;
}
void *__wrap_malloc(size_t n) {
    void *p;
    if (!a_armed) return __real_malloc(n);
    a_count++;
    if (a_fail_at && a_count == a_fail_at) { a_failed = 1; errno = ENOMEM; return NULL; }
    p = __real_malloc(n);
    live_add(p);
    return p;
}
void *__wrap_calloc(size_t a, size_t b) {
    void *p;
    if (!a_armed) return __real_calloc(a, b);
    a_count++;
    if (a_fail_at && a_count == a_fail_at) { a_failed = 1; errno = ENOMEM; return NULL; }
    p = __real_calloc(a, b);
    live_add(p);
    return p;
}
void *__wrap_realloc(void *q, size_t n) {
    void *p;
    if (!a_armed) return __real_realloc(q, n);
    a_count++;
    if (a_fail_at && a_count == a_fail_at) { a_failed = 1; errno = ENOMEM; return NULL; }
    p = __real_realloc(q, n);
    if (p) { if (q) live_del(q); live_add(p); }
    return p;
}
void __wrap_free(void *p) {
    if (a_armed && p) { if (!live_del(p)) a_foreign_free++; }
    __real_free(p);
}

void (*g_default_handler_hook)(const char *msg, void *ptr, errno_t err);
void __wrap_ignore_handler_s(const char *msg, void *ptr, errno_t error) {
    if (g_default_handler_hook) g_default_handler_hook(msg, ptr, error);
    __real_ignore_handler_s(msg, ptr, error);
}
