#define _GNU_SOURCE
#include "wraps.h"
#include <errno.h>

void *__real_malloc(size_t);
void *__real_calloc(size_t, size_t);
void *__real_realloc(void *, size_t);
void __real_free(void *);
void __real_ignore_handler_s(const char *msg, void *ptr, errno_t error);

volatile int a_armed;
int a_count, a_fail_at, a_failed, a_nlive, a_foreign_free;
#define LIVE_MAX 64
static void *a_live[LIVE_MAX];

static void live_add(void *p) { if (p && a_nlive < LIVE_MAX) a_live[a_nlive++] = p; }
static int live_del(void *p) {
    int i;
    for (i = 0; i < a_nlive; i++) if (a_live[i] == p) { a_live[i] = a_live[--a_nlive]; return 1; }
    return 0;
}
void *__wrap_malloc(size_t n) {
    void *p;
    if (!a_armed) return __real_malloc(n);
    a_count++;
    if (a_fail_at && a_count == a_fail_at) { a_failed = 1; errno = ENOMEM; return NULL; }
    p = __real_malloc(n);
    live_add(p);
    return p;
}
void *__wrap_calloc(size_t a, size_t b) {
    void *p;
    if (!a_armed) return __real_calloc(a, b);
    a_count++;
    if (a_fail_at && a_count == a_fail_at) { a_failed = 1; errno = ENOMEM; return NULL; }
    p = __real_calloc(a, b);
    live_add(p);
    return p;
}
void *__wrap_realloc(void *q, size_t n) {
    void *p;
    if (!a_armed) return __real_realloc(q, n);
    a_count++;
    if (a_fail_at && a_count == a_fail_at) { a_failed = 1; errno = ENOMEM; return NULL; }
    p = __real_realloc(q, n);
    if (p) { if (q) live_del(q); live_add(p); }
    return p;
}
void __wrap_free(void *p) {
    if (a_armed && p) { if (!live_del(p)) a_foreign_free++; }
    __real_free(p);
}

void (*g_default_handler_hook)(const char *msg, void *ptr, errno_t err);
void __wrap_ignore_handler_s(const char *msg, void *ptr, errno_t error) {
    if (g_default_handler_hook) g_default_handler_hook(msg, ptr, error);
    __real_ignore_handler_s(msg, ptr, error);
}

/* ---- process-wide state and non-reentrant libc entry points (C12) ----
 * A library call that switches the umask, the working directory, the environment, the locale or the libc random state, or
 * that uses a libc function with a static result buffer, depends on and changes state shared by every thread: two such calls
 * running at once do not behave as each would alone, however carefully each call restores what it changed. None of these
 * symbols is referenced by the library as it stands; the interposers note a call made while a generated library call runs. */
#include <sys/stat.h>
#include <stdlib.h>
#include <string.h>
#include <time.h>
#include <locale.h>
#include <unistd.h>
#include <stdio.h>
#include "../engine/arena.h"
const char *volatile g_globstate_sym;
volatile int g_globstate_calls;
#define NOTE(name) do { if (g_ar_armed) { g_globstate_calls++; if (!g_globstate_sym) g_globstate_sym = name; } } while (0)
mode_t __real_umask(mode_t);
mode_t __wrap_umask(mode_t m) { NOTE("umask"); return __real_umask(m); }
int __real_chdir(const char *);
int __wrap_chdir(const char *p) { NOTE("chdir"); return __real_chdir(p); }
int __real_setenv(const char *, const char *, int);
int __wrap_setenv(const char *a, const char *b, int o) { NOTE("setenv"); return __real_setenv(a, b, o); }
int __real_unsetenv(const char *);
int __wrap_unsetenv(const char *a) { NOTE("unsetenv"); return __real_unsetenv(a); }
int __real_putenv(char *);
int __wrap_putenv(char *a) { NOTE("putenv"); return __real_putenv(a); }
void __real_srand(unsigned);
void __wrap_srand(unsigned s) { NOTE("srand"); __real_srand(s); }
int __real_rand(void);
int __wrap_rand(void) { NOTE("rand"); return __real_rand(); }
char *__real_strtok(char *, const char *);
char *__wrap_strtok(char *a, const char *b) { NOTE("strtok"); return __real_strtok(a, b); }
char *__real_asctime(const struct tm *);
char *__wrap_asctime(const struct tm *t) { NOTE("asctime"); return __real_asctime(t); }
char *__real_ctime(const time_t *);
char *__wrap_ctime(const time_t *t) { NOTE("ctime"); return __real_ctime(t); }
struct tm *__real_gmtime(const time_t *);
struct tm *__wrap_gmtime(const time_t *t) { NOTE("gmtime"); return __real_gmtime(t); }
struct tm *__real_localtime(const time_t *);
struct tm *__wrap_localtime(const time_t *t) { NOTE("localtime"); return __real_localtime(t); }
char *__real_tmpnam(char *);
char *__wrap_tmpnam(char *b) { if (!b) NOTE("tmpnam(NULL)"); return __real_tmpnam(b); }
char *__real_setlocale(int, const char *);
char *__wrap_setlocale(int c, const char *l) { if (l) NOTE("setlocale"); return __real_setlocale(c, l); }
