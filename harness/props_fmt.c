/* props_fmt.c -- C09: %n is never executed by any printf_s / scanf_s family member */
#include "fmt.h"

static fres_t FX;

static int gen_c09(cs_t *cs, void *k, const runcfg_t *cfg) {
    fcase_t *c = k;
    int i, has = 0;
    (void)cfg;
    c->ent = (int)cs_range(cs, 0, NFENT - 1);
    if (cfg->row_filter) { for (i = 0; i < NFENT; i++) if (!strcmp(g_fent[i].name, cfg->row_filter)) c->ent = i; }
    if (cfg->phase == 0) {
        /* small exhaustive lattice: one n directive with every length modifier, 0..2 escaped percents in front,
           optionally preceded by one integer directive, optional width */
        fdir_t *d;
        int pre = (int)cs_range(cs, 0, 2);
        c->nd = 0;
        if (pre == 1) { d = &c->d[c->nd++]; memset(d, 0, sizeof *d); d->conv = 'd'; d->width = -1; d->prec = -1; d->vsel = 3; }
        if (pre == 2) { d = &c->d[c->nd++]; memset(d, 0, sizeof *d); d->conv = '%'; d->width = -1; d->prec = -1; d->lit = 1; }
        d = &c->d[c->nd++];
        memset(d, 0, sizeof *d);
        d->conv = cs_range(cs, 0, 5) == 0 ? 'N' : 'n';
        d->width = cs_range(cs, 0, 2) == 0 ? (int16_t)cs_range(cs, 1, 2) * 3 : -1;
        d->prec = -1;
        d->len = (uint8_t)cs_range(cs, 0, 7);
        d->esc = (uint8_t)cs_range(cs, 0, 3);
        d->lit = (uint8_t)cs_range(cs, 0, 2);
        if (g_fent[c->ent].kind == FK_PRINTF) d->flags = (uint8_t)(cs_range(cs, 0, 2) == 0 ? 1 : 0);
        c->tail_lit = (uint8_t)cs_range(cs, 0, 1);
        c->dmax_rel = 0; c->dbos = (uint8_t)cs_noise(cs, 0, 1); c->locale = 0; c->dirty = 1;
        return 1;
    }
    c->nd = (int)cs_range(cs, 1, 4);
    for (i = 0; i < c->nd; i++) {
        fmt_gen_dir(cs, &c->d[i], g_fent[c->ent].kind, 1, 0, 0);
        if (c->d[i].conv == 'n' || c->d[i].conv == 'N') has = 1;
    }
    if (!has) { fdir_t *d = &c->d[cs_range(cs, 0, c->nd - 1)]; uint8_t lit = d->lit; fmt_gen_dir(cs, d, g_fent[c->ent].kind, 1, 0, 0); d->conv = 'n'; d->lit = lit; d->esc = (uint8_t)cs_range(cs, 0, 2); d->suppress = 0; }
    c->tail_lit = (uint8_t)cs_range(cs, 0, 7);
    c->dmax_rel = (int16_t)cs_range(cs, 0, 8);
    c->dbos = (uint8_t)cs_range(cs, 0, 1);
    c->locale = (uint8_t)cs_range(cs, 0, 1);
    c->dirty = 1;
    return 1;
}

static const char *nshape(const fcase_t *c) {
    int i, seen = 0;
    for (i = 0; i < c->nd; i++) {
        const fdir_t *d = &c->d[i];
        if (d->conv != 'n') { if (d->conv != '%' && d->conv != 'N') seen = 1; else seen = seen ? 1 : 2; continue; }
        if (d->esc > 0) return "after-escaped-percent";
        if (d->len != LEN_NONE) return "length-modifier";
        if (d->flags || d->width != -1 || d->prec != -1) return "flags-or-width";
        if (i > 0 && seen == 1) return "after-other-directive";
        if (i > 0) return "after-percent-literal";
        return "plain";
    }
    return "none";
}

static void exec_c09(const void *k, res_t *r, const runcfg_t *cfg) {
    const fcase_t *c = k;
    const fent_t *e = &g_fent[c->ent];
    (void)cfg;
    fmt_run(c, &FX, 0, G_NA);
    r->hash = fmt_hash(c);
    res_label(r, e->kind == FK_PRINTF ? (e->wide ? "wide-printf" : "narrow-printf") : (e->wide ? "wide-scanf" : "narrow-scanf"));
    res_label(r, e->sink == SK_BUF ? "sink:buffer" : (e->sink == SK_STREAM ? "sink:stream" : "sink:std"));
    r->nontrivial = FX.n_real > 0 || FX.n_lookalike > 0;
    if (FX.faulted) {
        r->fragile = 1;
        if (FX.n_real > 0) {
            RES_VIOL(r, "C09:%s:fault-with-n-directive:%s", e->name, nshape(c));
            RES_DETAIL(r, "signal %d while processing \"%s\"", FX.sig, FX.fmt);
        } else res_label(r, "foreign-fault");
        return;
    }
    if (FX.n_real == 0) {
        res_label(r, "lookalike-only");
        if (FX.ret < 0 && FX.h_count > 0) res_label(r, "over-rejection(not judged)");
        return;
    }
    res_label(r, "has-real-n");
    if (FX.sent_changed) {
        RES_VIOL(r, "C09:%s:n-executed:%s", e->name, nshape(c));
        RES_DETAIL(r, "\"%s\": the %%n argument was stored through (returned %d, handler calls %d)", FX.fmt, FX.ret, FX.h_count);
        return;
    }
    if (FX.ret >= 0 || FX.h_count == 0) {
        RES_VIOL(r, "C09:%s:n-not-rejected:%s", e->name, nshape(c));
        RES_DETAIL(r, "\"%s\": returned %d with %d handler calls; a %%n format must be rejected as a constraint violation", FX.fmt, FX.ret, FX.h_count);
    }
}

static void f_init(const runcfg_t *cfg) { (void)cfg; }

const module_t mod_C09 = {"C09", sizeof(fcase_t), 1, {400000, 4000000}, f_init, gen_c09, exec_c09, fmt_describe,
                          "formats from the grammar literal* (%% | % flags* width? (.prec)? length? conv)* with an n conversion (every length modifier, flags, width, 0..3 escaped percents in front, "
                          "after other directives) or an escaped look-alike, over all 16 printf_s and 12 scanf_s entry points called through libffi; "
                          "non-trivial = the format holds a real n directive or an escaped look-alike; distinct by decoded format and entry point"};
