/* props_fmt.c -- C09: %n is never executed by any printf_s / scanf_s family member */
#include "fmt.h"

static fres_t FX;
static int CVALS_is_nul(unsigned sel) { return sel % 6 == 5; }

static int gen_c09(cs_t *cs, void *k, const runcfg_t *cfg) {
    fcase_t *c = k;
    int i, has = 0;
    (void)cfg;
    c->ent = (int)cs_range(cs, 0, NFENT - 1);
    if (cfg->row_filter) { for (i = 0; i < NFENT; i++) if (!strcmp(g_fent[i].name, cfg->row_filter)) c->ent = i; }
    if (cfg->phase == 0) {
        /* small exhaustive lattice: one n directive with every length modifier, 0..2 escaped percents in front,
           optionally preceded by one integer directive, optional width */
        fdir_t *d;
        int pre = (int)cs_range(cs, 0, 2);
        c->nd = 0;
        if (pre == 1) { d = &c->d[c->nd++]; memset(d, 0, sizeof *d); d->conv = 'd'; d->width = -1; d->prec = -1; d->vsel = 3; }
        if (pre == 2) { d = &c->d[c->nd++]; memset(d, 0, sizeof *d); d->conv = '%'; d->width = -1; d->prec = -1; d->lit = 1; }
        d = &c->d[c->nd++];
        memset(d, 0, sizeof *d);
        d->conv = cs_range(cs, 0, 5) == 0 ? 'N' : 'n';
        d->width = cs_range(cs, 0, 2) == 0 ? (int16_t)cs_range(cs, 1, 2) * 3 : -1;
        d->prec = -1;
        d->len = (uint8_t)cs_range(cs, 0, 7);
        d->esc = (uint8_t)cs_range(cs, 0, 3);
        d->lit = (uint8_t)cs_range(cs, 0, 2);
        if (g_fent[c->ent].kind == FK_PRINTF) d->flags = (uint8_t)(cs_range(cs, 0, 2) == 0 ? 1 : 0);
        c->tail_lit = (uint8_t)cs_range(cs, 0, 1);
        c->dmax_rel = 0; c->dbos = (uint8_t)cs_noise(cs, 0, 1); c->locale = 0; c->dirty = 1;
        c->argmode = (uint8_t)(cs_range(cs, 0, 1) ? 2 : 0); /* positional form %1$n / %2$ln */
        return 1;
    }
    c->nd = (int)cs_range(cs, 1, 4);
    for (i = 0; i < c->nd; i++) {
        fmt_gen_dir(cs, &c->d[i], g_fent[c->ent].kind, 1, 0, 0);
        if (c->d[i].conv == 'n' || c->d[i].conv == 'N') has = 1;
    }
    if (!has) { fdir_t *d = &c->d[cs_range(cs, 0, c->nd - 1)]; uint8_t lit = d->lit; fmt_gen_dir(cs, d, g_fent[c->ent].kind, 1, 0, 0); d->conv = 'n'; d->lit = lit; d->esc = (uint8_t)cs_range(cs, 0, 2); d->suppress = 0; }
    c->tail_lit = (uint8_t)cs_range(cs, 0, 7);
    c->dmax_rel = (int16_t)cs_range(cs, 0, 8);
    c->dbos = (uint8_t)cs_range(cs, 0, 1);
    c->locale = (uint8_t)cs_range(cs, 0, 1);
    c->dirty = 1;
    c->argmode = (uint8_t)(cs_range(cs, 0, 5) == 0 ? 2 : 0);
    /* a format longer than the RSIZE limit in front of the directive (narrow entry points and streams: the output fits the arena) */
    if (cs_range(cs, 0, 11) == 0 && !(g_fent[c->ent].wide && g_fent[c->ent].sink == SK_BUF)) c->d[0].lit = LIT_LONG;
    return 1;
}

static const char *nshape(const fcase_t *c) {
    int i, seen = 0;
    for (i = 0; i < c->nd; i++) {
        const fdir_t *d = &c->d[i];
        if (d->conv == '[') return "after-unknown-conversion";
        if (d->conv != 'n') { if (d->conv != '%' && d->conv != 'N') seen = 1; else seen = seen ? 1 : 2; continue; }
        if (d->esc > 0) return "after-escaped-percent";
        if (d->len >= LEN_BIGZ) return "glibc-length-modifier";
        if (d->len != LEN_NONE) return "length-modifier";
        if (d->flags || d->width != -1 || d->prec != -1) return "flags-or-width";
        if (i > 0 && seen == 1) return "after-other-directive";
        if (i > 0) return "after-percent-literal";
        return "plain";
    }
    return "none";
}

static void exec_c09(const void *k, res_t *r, const runcfg_t *cfg) {
    const fcase_t *c = k;
    const fent_t *e = &g_fent[c->ent];
    (void)cfg;
    fmt_run(c, &FX, 0, G_NA);
    r->hash = fmt_hash(c);
    res_label(r, e->kind == FK_PRINTF ? (e->wide ? "wide-printf" : "narrow-printf") : (e->wide ? "wide-scanf" : "narrow-scanf"));
    res_label(r, e->sink == SK_BUF ? "sink:buffer" : (e->sink == SK_STREAM ? "sink:stream" : "sink:std"));
    r->nontrivial = FX.n_real > 0 || FX.n_lookalike > 0;
    if (FX.faulted) {
        r->fragile = 1;
        if (FX.n_real > 0) {
            RES_VIOL(r, "C09:%s:fault-with-n-directive:%s", e->name, nshape(c));
            RES_DETAIL(r, "signal %d while processing \"%s\"", FX.sig, FX.fmt);
        } else res_label(r, "foreign-fault");
        return;
    }
    if (FX.n_real == 0) {
        res_label(r, "lookalike-only");
        if (FX.ret < 0 && FX.h_count > 0) res_label(r, "over-rejection(not judged)");
        return;
    }
    res_label(r, "has-real-n");
    if (FX.sent_changed) {
        RES_VIOL(r, "C09:%s:n-executed:%s", e->name, nshape(c));
        RES_DETAIL(r, "\"%s\": the %%n argument was stored through (returned %d, handler calls %d)", FX.fmt, FX.ret, FX.h_count);
        return;
    }
    if (FX.ret >= 0 || FX.h_count == 0) {
        RES_VIOL(r, "C09:%s:n-not-rejected:%s", e->name, nshape(c));
        RES_DETAIL(r, "\"%s\": returned %d with %d handler calls; a %%n format must be rejected as a constraint violation", FX.fmt, FX.ret, FX.h_count);
    }
}

static void f_init(const runcfg_t *cfg) { (void)cfg; }

const module_t mod_C09 = {"C09", sizeof(fcase_t), 1, {400000, 4000000}, f_init, gen_c09, exec_c09, fmt_describe,
                          "formats from the grammar literal* (%% | % flags* width? (.prec)? length? conv)* with an n conversion (every length modifier, flags, width, 0..3 escaped percents in front, "
                          "after other directives) or an escaped look-alike, over all 16 printf_s and 12 scanf_s entry points called through libffi; "
                          "non-trivial = the format holds a real n directive or an escaped look-alike; distinct by decoded format and entry point"};

/* ======================= C11: formatted output matches C printf, or fails ======================= */
#include <math.h>
#include <ctype.h>
static fres_t FX2;

static int is_float_conv(int cv) { return cv && strchr("fFeEgGa", cv) != NULL; }

static int gen_c11(cs_t *cs, void *k, const runcfg_t *cfg) {
    fcase_t *c = k;
    int i;
    static const int rels[] = {-100, -3, -2, -1, 0, 1, 2, 5, 0, 1};
    c->ent = (int)cs_range(cs, 0, 7);
    if (cfg->row_filter) { for (i = 0; i < 8; i++) if (!strcmp(g_fent[i].name, cfg->row_filter)) c->ent = i; }
    if (cfg->phase == 0) {
        /* one directive: every integer conversion x flag subset x width/precision class x length x boundary values */
        fdir_t *d = &c->d[0];
        static const char convs[] = {'d', 'u', 'x', 'o', 'c', 's', 'f', 'e', 'g'};
        static const int16_t ws[] = {-1, 1, 8, 33};
        static const int16_t ps[] = {-1, 0, 3, 33};
        memset(d, 0, sizeof *d);
        c->nd = 1;
        d->conv = (uint8_t)convs[cs_range(cs, 0, 8)];
        { static const uint8_t fl[] = {0, 1, 2, 4, 8, 16, 1 | 8, 2 | 16, 4 | 8 | 16, 31}; d->flags = fl[cs_range(cs, 0, 9)]; }
        d->width = ws[cs_range(cs, 0, 3)];
        d->prec = ps[cs_range(cs, 0, 3)];
        if (strchr("duxo", d->conv)) { static const uint8_t ls[] = {LEN_NONE, LEN_HH, LEN_L, LEN_LL}; d->len = ls[cs_range(cs, 0, 3)]; d->vsel = (uint8_t)cs_range(cs, 0, 8); }
        else if (is_float_conv(d->conv)) { d->len = (uint8_t)(cs_range(cs, 0, 3) == 0 ? LEN_BIGL : LEN_NONE); d->vsel = (uint8_t)cs_range(cs, 0, 26); }
        else { d->vsel = (uint8_t)cs_range(cs, 0, 5); d->flags &= 1; if (d->conv == 'c') d->prec = -1; }
        d->lit = (uint8_t)cs_range(cs, 0, 1);
        c->tail_lit = 0;
        c->dmax_rel = (int16_t)rels[cs_range(cs, 3, 5)];
        c->dbos = (uint8_t)cs_noise(cs, 0, 1);
        c->seed = (uint32_t)cs_noise(cs, 0, 0xffff);
        c->locale = 0; c->dirty = 1;
        if (c->ent & 1) return 0; /* the v* twins share the engine: enumerated through the random phase only */
        return 1;
    }
    c->nd = (int)cs_range(cs, 0, 4);
    c->seed = (uint32_t)cs_noise(cs, 0, 0xffff);
    c->locale = (uint8_t)cs_range(cs, 0, 1);
    for (i = 0; i < c->nd; i++) fmt_gen_dir(cs, &c->d[i], FK_PRINTF, 0, 1, c->locale);
    c->tail_lit = (uint8_t)cs_range(cs, 0, 7);
    c->dmax_rel = (int16_t)rels[cs_range(cs, 0, 9)];
    c->dbos = (uint8_t)cs_range(cs, 0, 1);
    c->dirty = 1;
    return 1;
}

/* feature class of the format for finding keys: the first directive with a "risky" feature names the class */
static int dval_kind(unsigned sel) { /* 0 plain, 1 special (inf nan -0 denormal), 2 large (>= 1e9) or tiny */
    unsigned k = sel % 27;
    if (k >= 24 || k == 1 || k == 12) return 1;
    if (k == 7 || k == 8 || k == 9 || k == 10 || k == 11 || k == 20 || k == 23 || k == 16 || k == 15) return 2;
    return 0;
}
static const char *c11_class(const fcase_t *c) {
    int i;
    static char buf[64];
    const char *cls = "literal-only";
    for (i = 0; i < c->nd; i++) {
        const fdir_t *d = &c->d[i];
        int p = d->prec == -2 ? d->pstar : d->prec;
        if (d->conv == '%') continue;
        if (is_float_conv(d->conv)) {
            const char *f = d->len == LEN_BIGL ? "long-double" : (dval_kind(d->vsel) == 1 ? "special-value" : (dval_kind(d->vsel) == 2 ? "large-or-tiny" : (p > 9 ? "prec>9" : "plain")));
            snprintf(buf, sizeof buf, "float-%c:%s", d->conv, f);
            return buf;
        }
    }
    for (i = 0; i < c->nd; i++) {
        const fdir_t *d = &c->d[i];
        int w = d->width == -2 ? (d->wstar < 0 ? -d->wstar : d->wstar) : d->width, p = d->prec == -2 ? d->pstar : d->prec;
        if (d->conv == '%') continue;
        if (d->conv == 'C' || d->conv == 'S') { snprintf(buf, sizeof buf, "wide-%s", d->conv == 'C' ? "lc" : "ls"); return buf; }
        if (d->conv == 'c' && CVALS_is_nul(d->vsel)) return "char-NUL";
        if (strchr("diuxXo", d->conv)) {
            if (p > 31 || w > 31) return "int:field>31";
            if (d->flags & 8) return "int:alt-form";
            if ((d->flags & 16) && d->prec != -1) return "int:zero-flag+precision";
            if ((d->flags & (2 | 4)) && strchr("uxXo", d->conv)) return "int:sign-flag-on-unsigned";
            if (d->prec == -2 && d->pstar < 0) return "int:negative-star-precision";
            if (!strcmp(cls, "literal-only")) cls = "int:plain";
        } else if (d->conv == 's') {
            if (d->prec == -2 && d->pstar < 0) return "string:negative-star-precision";
            if (d->prec == -2) return "string:star-precision";
            if (p == 0) return "string:precision-0";
            if (!strcmp(cls, "literal-only")) cls = "string:plain";
        } else if (d->conv == 'c') {
            if (!strcmp(cls, "literal-only")) cls = "char:plain";
        }
    }
    return cls;
}

static void exec_c11(const void *k, res_t *r, const runcfg_t *cfg) {
    const fcase_t *c = k;
    const fent_t *e = &g_fent[c->ent];
    int nfloat = 0, ndir = 0, i, fits;
    size_t outlen;
    const char *cls, *ename = "";
    (void)cfg;
    fmt_run(c, &FX, 1, G_NA);
    r->hash = fmt_hash(c);
    for (i = 0; i < c->nd; i++) { if (is_float_conv(c->d[i].conv)) nfloat++; if (c->d[i].conv != '%') ndir++; }
    res_label(r, e->sink == SK_BUF ? "sink:buffer" : (e->sink == SK_STREAM ? "sink:stream" : "sink:stdout"));
    if (FX.faulted) {
        r->fragile = 1;
        RES_VIOL(r, "C11:%s:fault:signal-%d", e->sink == SK_BUF ? "buffer" : "stream", FX.sig); /* one key per sink: the format class says nothing about a crash */
        RES_DETAIL(r, "signal %d (%s) while formatting \"%s\"", FX.sig, FX.fault_write ? "store" : "load", FX.fmt);
        return;
    }
    if (FX.ref_len < 0 || FX.ref_len >= (int)sizeof FX.ref - 1) { res_label(r, "libc-declines"); return; }
    /* floating conversions are compared byte for byte like everything else (positive NaN only: the sign of a NaN is implementation-defined) */
    /* %lc with a null wide character: C defines it through %ls of {0, 0} (prints nothing), glibc writes a NUL byte: no reference */
    for (i = 0; i < c->nd; i++) if (c->d[i].conv == 'C' && c->d[i].vsel % 6 == 5) { res_label(r, "lc-NUL(no agreed reference)"); return; }
    /* "%Ld": undefined in ISO C (glibc reads it as ll), the library rejects it: nothing to compare */
    for (i = 0; i < c->nd; i++) if (c->d[i].len >= LEN_BIGL && strchr("diuxXo", c->d[i].conv)) { res_label(r, "L/Z/q-with-integer(not ISO C)"); return; }
    cls = c11_class(c);
    ename = e->sink == SK_BUF ? "buffer" : "stream";
    fits = e->sink != SK_BUF || (size_t)FX.ref_len < FX.dmax;
    /* a long double prints up to 4933 digits: a buffer that holds it can exceed RSIZE_MAX_STR, and such a dmax is itself a violation */
    if (e->sink == SK_BUF && FX.dmax > (e->wide ? RSIZE_MAX_WSTR : RSIZE_MAX_STR)) { res_label(r, "dmax-above-RSIZE_MAX"); return; }
    r->nontrivial = ndir > 0 && fits;
    res_label(r, nfloat ? "has-float" : "exact-class");
    res_label(r, fits ? "fits" : "does-not-fit");
    /* history independence: an unrelated long-double/hex-float formatting call in between must not change the bytes */
    if ((c->seed & 3) == 0 || nfloat) {
        fcase_t other;
        memset(&other, 0, sizeof other);
        other.ent = 0; other.nd = 2;
        other.d[0].conv = 'f'; other.d[0].len = LEN_BIGL; other.d[0].width = -1; other.d[0].prec = 7; other.d[0].vsel = 13;
        other.d[1].conv = 'e'; other.d[1].width = 12; other.d[1].prec = -1; other.d[1].vsel = 11; other.d[1].lit = 2;
        other.dmax_rel = 3;
        FX2 = FX;
        fmt_run(&other, &FX, 1, G_NA);
        fmt_run(c, &FX, 1, G_NA);
        if (!FX.faulted && (FX.ret != FX2.ret || FX.out_len != FX2.out_len || memcmp(FX.out, FX2.out, FX.out_len) != 0)) {
            RES_VIOL(r, "C11:%s:history-dependent:%s", ename, cls);
            RES_DETAIL(r, "\"%s\": first call returned %d, the same call after an unrelated one returned %d / different bytes", FX.fmt, FX2.ret, FX.ret);
            return;
        }
    }
    if (FX.ret < 0) {
        res_label(r, "ret:negative");
        if (fits && !(e->sink == SK_BUF && FX.dmax == 0)) {
            /* invalid arguments are allowed to fail: %lc/%ls with characters not representable in the locale */
            int enc = 0;
            for (i = 0; i < c->nd; i++) if ((c->d[i].conv == 'C' || c->d[i].conv == 'S') ) enc = 1;
            if (enc) { res_label(r, "encoding-may-fail"); return; }
            RES_VIOL(r, "C11:%s:fails-although-it-fits:%s", ename, cls);
            RES_DETAIL(r, "\"%s\": libc renders %d characters (\"%.40s\"), dmax=%zu, but the call returned %d", FX.fmt, FX.ref_len, FX.ref, FX.dmax, FX.ret);
        }
        return;
    }
    /* success path */
    if (e->sink == SK_BUF) {
        size_t L = strnlen((char *)FX.dest, FX.dmax);
        if (L >= FX.dmax) { res_label(r, "foreign-unterminated(C03)"); return; }
        /* a NUL written by %c is part of the result: the terminator is the one at the returned count */
        if ((size_t)FX.ret < FX.dmax && FX.dest[FX.ret] == 0 && (size_t)FX.ret > L) L = (size_t)FX.ret;
        outlen = L;
        if (!fits) {
            if (!e->trunc) {
                RES_VIOL(r, "C11:%s:success-although-it-does-not-fit:%s", ename, cls);
                RES_DETAIL(r, "\"%s\": needs %d+1 characters, dmax=%zu, returned %d", FX.fmt, FX.ref_len, FX.dmax, FX.ret);
                return;
            }
            /* documented truncation: dest must hold the first dmax-1 characters */
            if ((FX.dest[FX.dmax - 1] != 0 || memcmp(FX.dest, FX.ref, FX.dmax - 1) != 0)) { /* bytes, a %c NUL included */
                RES_VIOL(r, "C11:%s:wrong-truncated-text:%s", ename, cls);
                RES_DETAIL(r, "\"%s\": truncated to \"%.40s\", libc prefix \"%.*s\"", FX.fmt, (char *)FX.dest, (int)(FX.dmax - 1), FX.ref);
            }
            return;
        }
        memcpy(FX.out, FX.dest, L); FX.out[L] = 0;
    } else {
        outlen = FX.out_len;
        /* a NUL written by %c is part of the byte stream */
    }
    if (outlen != (size_t)FX.ref_len || memcmp(FX.out, FX.ref, outlen) != 0) {
        RES_VIOL(r, "C11:%s:%stext-differs:%s", ename, nfloat ? "float-" : "", cls);
        RES_DETAIL(r, "\"%s\": got \"%.60s\" (%zu), libc \"%.60s\" (%d)", FX.fmt, FX.out, outlen, FX.ref, FX.ref_len);
        return;
    }
    if (FX.ret != (int)outlen) {
        RES_VIOL(r, "C11:%s:wrong-count-returned:%s", ename, cls);
        RES_DETAIL(r, "\"%s\": returned %d but %zu characters were stored", FX.fmt, FX.ret, outlen);
    }
}

const module_t mod_C11 = {"C11", sizeof(fcase_t), 1, {300000, 4000000}, f_init, gen_c11, exec_c11, fmt_describe,
                          "formats with 0..4 directives from {d i u x X o c s % lc ls f F e E g G (L)} x flags x width (incl. *) x precision (incl. .*) x length, boundary values, "
                          "dmax from 1 to needed+5, 8 narrow entry points; reference = libc snprintf on the same arguments (called through libffi); "
                          "non-trivial = at least one directive other than %% and the text fits; distinct by decoded format/values/dmax relation/entry point"};
