/* fmt.h -- generated format strings, argument lists and libffi calls for the
 * printf_s / scanf_s families (C09, C11, and the FMT rows of C01..C05, C08) */
#ifndef FMT_H
#define FMT_H
#include "../engine/pbt.h"
#include <ffi.h>
#include <wchar.h>
#include <stdio.h>
#include "safe_lib.h"
#include "safe_str_lib.h"
#include "safe_mem_lib.h"

enum { FK_PRINTF, FK_SCANF };
enum { SK_BUF, SK_STREAM, SK_STD };
enum { LEN_NONE, LEN_HH, LEN_H, LEN_L, LEN_LL, LEN_J, LEN_Z, LEN_T, LEN_BIGL, LEN_BIGZ /* glibc: old spelling of z */, LEN_Q /* glibc/BSD: quad = ll */, LEN_COUNT };

typedef struct fent {
    const char *name;
    int kind, wide, sink, isv, trunc; /* trunc: snprintf-like (truncation is success) */
} fent_t;
#define NFENT 28
extern const fent_t g_fent[NFENT];

typedef struct fdir {
    uint8_t conv;      /* d i u x X o c s n f F e E g G a p, 'C' = lc, 'S' = ls, '%' = literal percent pair, 'N' = look-alike "%%n" text */
    uint8_t flags;     /* 1 '-', 2 '+', 4 ' ', 8 '#', 16 '0' */
    int16_t width;     /* -1 none, -2 '*', else the number */
    int16_t prec;      /* -1 none, -2 '*', else the number */
    uint8_t len;       /* LEN_* */
    uint8_t esc;       /* number of "%%" pairs emitted directly in front of the directive */
    uint8_t lit;       /* literal text index emitted in front */
    int16_t wstar, pstar;
    uint8_t vsel;      /* value selector */
    uint8_t suppress;  /* scanf assignment suppression '*' */
} fdir_t;

#define FMAXD 5
#define FMT_MAXLEN 9216
#define LIT_LONG 200   /* fdir_t.lit value: 4100 blanks instead of a table literal */
typedef struct fcase {
    int ent;
    int nd;
    fdir_t d[FMAXD];
    uint8_t tail_lit;
    int16_t dmax_rel;  /* dmax = needed + dmax_rel (buffer sinks); special: -100 => dmax 1 */
    uint8_t dbos;      /* destbos known */
    uint8_t locale;    /* 0 C, 1 C.utf8 */
    uint8_t dirty;     /* dest prefill class */
    uint8_t argmode;   /* 1: %s / %ls arguments live in the guard arena: exactly `precision` elements and unterminated when a numeric precision is given, else the terminated string flush against the guard */
    uint32_t seed;
} fcase_t;

/* what a call did */
typedef struct fres {
    int ret;
    int faulted, fault_write, sig;
    int fault_dir;            /* argmode: index of the directive whose argument block the fault lies just behind, else -1 */
    int h_count, h_code, h_codes[4];
    size_t dmax;              /* elements given to a buffer sink */
    unsigned char *dest;      /* arena buffer (buffer sinks) */
    size_t dest_bytes;
    char out[8192];           /* captured bytes (stream sinks) / copy of dest as multibyte-independent raw bytes */
    size_t out_len;
    char ref[8192];           /* libc reference rendering (narrow, bytes) */
    int ref_len;              /* libc snprintf return (<0: libc failed) */
    int nsent;                /* number of sentinel blocks (n directives) */
    int sent_changed;         /* some sentinel block changed */
    int n_real;               /* number of real n directives in the format */
    int n_lookalike;
    char fmt[FMT_MAXLEN];
    long canary_bad;
} fres_t;

void fmt_render(const fcase_t *c, char *out, size_t n);
int fmt_count_real_n(const fcase_t *c);
void fmt_run(const fcase_t *c, fres_t *x, int want_ref, int guard);
void fmt_describe(const void *k, char *buf, size_t n);
uint64_t fmt_hash(const fcase_t *c);
/* generator pieces */
void fmt_gen_dir(cs_t *cs, fdir_t *d, int kind, int allow_n, int floats, int wide_args);

#endif
