#include "rows.h"
#include <string.h>

#define A a
#define D8 ((char *)a->dest)
#define S8 ((const char *)a->src)
#define DW ((wchar_t *)a->dest)
#define SW ((const wchar_t *)a->src)

/* ---- COPY ---- */
static void c_strcpy_s(args_t *a) { a->ret = _strcpy_s_chk(D8, a->dmax, S8, a->destbos); }
static void c_strncpy_s(args_t *a) { a->ret = _strncpy_s_chk(D8, a->dmax, S8, a->slen, a->destbos, a->srcbos); }
static void c_stpcpy_s(args_t *a) { a->ret = (long)_stpcpy_s_chk(D8, a->dmax, S8, a->errp, a->destbos, a->srcbos); }
static void c_stpncpy_s(args_t *a) { a->ret = (long)_stpncpy_s_chk(D8, a->dmax, S8, a->slen, a->errp, a->destbos, a->srcbos); }
static void c_strcpyfld_s(args_t *a) { a->ret = _strcpyfld_s_chk(D8, a->dmax, S8, a->slen, a->destbos); }
static void c_strcpyfldin_s(args_t *a) { a->ret = _strcpyfldin_s_chk(D8, a->dmax, S8, a->slen, a->destbos); }
static void c_strcpyfldout_s(args_t *a) { a->ret = _strcpyfldout_s_chk(D8, a->dmax, S8, a->slen, a->destbos); }
static void c_wcscpy_s(args_t *a) { a->ret = _wcscpy_s_chk(DW, a->dmax, SW, a->destbos); }
static void c_wcsncpy_s(args_t *a) { a->ret = _wcsncpy_s_chk(DW, a->dmax, SW, a->slen, a->destbos, a->srcbos); }
/* ---- CAT ---- */
static void c_strcat_s(args_t *a) { a->ret = _strcat_s_chk(D8, a->dmax, S8, a->destbos); }
static void c_strncat_s(args_t *a) { a->ret = _strncat_s_chk(D8, a->dmax, S8, a->slen, a->destbos, a->srcbos); }
static void c_wcscat_s(args_t *a) { a->ret = _wcscat_s_chk(DW, a->dmax, SW, a->destbos); }
static void c_wcsncat_s(args_t *a) { a->ret = _wcsncat_s_chk(DW, a->dmax, SW, a->slen, a->destbos, a->srcbos); }
/* ---- MEMCPY ---- */
static void c_memcpy_s(args_t *a) { a->ret = _memcpy_s_chk(a->dest, a->dmax, a->src, a->slen, a->destbos, a->srcbos); }
static void c_memmove_s(args_t *a) { a->ret = _memmove_s_chk(a->dest, a->dmax, a->src, a->slen, a->destbos, a->srcbos); }
static void c_memcpy16_s(args_t *a) { a->ret = _memcpy16_s_chk((uint16_t *)a->dest, a->dmax, (const uint16_t *)a->src, a->slen, a->destbos, a->srcbos); }
static void c_memcpy32_s(args_t *a) { a->ret = _memcpy32_s_chk((uint32_t *)a->dest, a->dmax, (const uint32_t *)a->src, a->slen, a->destbos, a->srcbos); }
static void c_memmove16_s(args_t *a) { a->ret = _memmove16_s_chk((uint16_t *)a->dest, a->dmax, (const uint16_t *)a->src, a->slen, a->destbos, a->srcbos); }
static void c_memmove32_s(args_t *a) { a->ret = _memmove32_s_chk((uint32_t *)a->dest, a->dmax, (const uint32_t *)a->src, a->slen, a->destbos, a->srcbos); }
static void c_wmemcpy_s(args_t *a) { a->ret = _wmemcpy_s_chk(DW, a->dmax, SW, a->slen, a->destbos, a->srcbos); }
static void c_wmemmove_s(args_t *a) { a->ret = _wmemmove_s_chk(DW, a->dmax, SW, a->slen, a->destbos, a->srcbos); }
static void c_memccpy_s(args_t *a) { a->ret = _memccpy_s_chk(a->dest, a->dmax, a->src, (int)a->val, a->n, a->destbos, a->srcbos); }
/* ---- FILL ---- */
static void c_memset_s(args_t *a) { a->ret = _memset_s_chk(a->dest, a->dmax, (int)a->val, a->n, a->destbos); }
static void c_memset16_s(args_t *a) { a->ret = _memset16_s_chk((uint16_t *)a->dest, a->dmax, (uint16_t)a->val, a->n, a->destbos); }
static void c_memset32_s(args_t *a) { a->ret = _memset32_s_chk((uint32_t *)a->dest, a->dmax, (uint32_t)a->val, a->n, a->destbos); }
static void c_memzero_s(args_t *a) { a->ret = _memzero_s_chk(a->dest, a->dmax, a->destbos); }
static void c_memzero16_s(args_t *a) { a->ret = _memzero16_s_chk((uint16_t *)a->dest, a->dmax, a->destbos); }
static void c_memzero32_s(args_t *a) { a->ret = _memzero32_s_chk((uint32_t *)a->dest, a->dmax, a->destbos); }
static void c_strzero_s(args_t *a) { a->ret = _strzero_s_chk(D8, a->dmax, a->destbos); }
static void c_strset_s(args_t *a) { a->ret = _strset_s_chk(D8, a->dmax, (int)a->val, a->destbos); }
static void c_strnset_s(args_t *a) { a->ret = _strnset_s_chk(D8, a->dmax, (int)a->val, a->n, a->destbos); }
static void c_wcsset_s(args_t *a) { a->ret = _wcsset_s_chk(DW, a->dmax, (wchar_t)a->val, a->destbos); }
static void c_wcsnset_s(args_t *a) { a->ret = _wcsnset_s_chk(DW, a->dmax, (wchar_t)a->val, a->n, a->destbos); }
static void c_strnterminate_s(args_t *a) { a->ret = (long)_strnterminate_s_chk(D8, a->dmax, a->destbos); }
/* ---- INPLACE ---- */
static void c_strtolowercase_s(args_t *a) { a->ret = _strtolowercase_s_chk(D8, a->dmax, a->destbos); }
static void c_strtouppercase_s(args_t *a) { a->ret = _strtouppercase_s_chk(D8, a->dmax, a->destbos); }
static void c_strljustify_s(args_t *a) { a->ret = _strljustify_s_chk(D8, a->dmax, a->destbos); }
static void c_strremovews_s(args_t *a) { a->ret = _strremovews_s_chk(D8, a->dmax, a->destbos); }
static void c_wcslwr_s(args_t *a) { a->ret = _wcslwr_s_chk(DW, a->dmax, a->destbos); }
static void c_wcsupr_s(args_t *a) { a->ret = _wcsupr_s_chk(DW, a->dmax, a->destbos); }
/* ---- QUERY ---- */
static void c_strnlen_s(args_t *a) { a->ret = (long)_strnlen_s_chk(D8, a->dmax, a->destbos); }
static void c_wcsnlen_s(args_t *a) { a->ret = (long)_wcsnlen_s_chk(DW, a->dmax, a->destbos); }
static void c_strcmp_s(args_t *a) { a->ret = _strcmp_s_chk(D8, a->dmax, S8, (int *)a->out, a->destbos, a->srcbos); }
static void c_strcasecmp_s(args_t *a) { a->ret = _strcasecmp_s_chk(D8, a->dmax, S8, (int *)a->out, a->destbos); }
static void c_strnatcmp_s(args_t *a) { a->ret = _strnatcmp_s_chk(D8, a->dmax, S8, (int)a->val, (int *)a->out, a->destbos, a->srcbos); }
static void c_strcmpfld_s(args_t *a) { a->ret = _strcmpfld_s_chk(D8, a->dmax, S8, (int *)a->out, a->destbos); }
static void c_strcoll_s(args_t *a) { a->ret = _strcoll_s_chk(D8, a->dmax, S8, (int *)a->out, a->destbos); }
static void c_strstr_s(args_t *a) { a->ret = _strstr_s_chk(D8, a->dmax, S8, a->slen, (char **)a->out, a->destbos, a->srcbos); }
static void c_strcasestr_s(args_t *a) { a->ret = _strcasestr_s_chk(D8, a->dmax, S8, a->slen, (char **)a->out, a->destbos, a->srcbos); }
static void c_strchr_s(args_t *a) { a->ret = _strchr_s_chk(D8, a->dmax, (int)a->val, (char **)a->out, a->destbos); }
static void c_strrchr_s(args_t *a) { a->ret = _strrchr_s_chk(D8, a->dmax, (int)a->val, (char **)a->out, a->destbos); }
static void c_strpbrk_s(args_t *a) { a->ret = _strpbrk_s_chk(D8, a->dmax, (char *)a->src, a->slen, (char **)a->out, a->destbos, a->srcbos); }
static void c_strspn_s(args_t *a) { a->ret = _strspn_s_chk(D8, a->dmax, S8, a->slen, (rsize_t *)a->out, a->destbos, a->srcbos); }
static void c_strcspn_s(args_t *a) { a->ret = _strcspn_s_chk(D8, a->dmax, S8, a->slen, (rsize_t *)a->out, a->destbos, a->srcbos); }
static void c_strprefix_s(args_t *a) { a->ret = _strprefix_s_chk(D8, a->dmax, S8, a->destbos); }
static void c_strfirstchar_s(args_t *a) { a->ret = _strfirstchar_s_chk(D8, a->dmax, (char)a->val, (char **)a->out, a->destbos); }
static void c_strlastchar_s(args_t *a) { a->ret = _strlastchar_s_chk(D8, a->dmax, (char)a->val, (char **)a->out, a->destbos); }
static void c_strfirstdiff_s(args_t *a) { a->ret = _strfirstdiff_s_chk(D8, a->dmax, S8, (rsize_t *)a->out, a->destbos); }
static void c_strfirstsame_s(args_t *a) { a->ret = _strfirstsame_s_chk(D8, a->dmax, S8, (rsize_t *)a->out, a->destbos); }
static void c_strlastdiff_s(args_t *a) { a->ret = _strlastdiff_s_chk(D8, a->dmax, S8, (rsize_t *)a->out, a->destbos); }
static void c_strlastsame_s(args_t *a) { a->ret = _strlastsame_s_chk(D8, a->dmax, S8, (rsize_t *)a->out, a->destbos); }
static void c_strisalphanumeric_s(args_t *a) { a->ret = _strisalphanumeric_s_chk(D8, a->dmax, a->destbos); }
static void c_strisascii_s(args_t *a) { a->ret = _strisascii_s_chk(D8, a->dmax, a->destbos); }
static void c_strisdigit_s(args_t *a) { a->ret = _strisdigit_s_chk(D8, a->dmax, a->destbos); }
static void c_strishex_s(args_t *a) { a->ret = _strishex_s_chk(D8, a->dmax, a->destbos); }
static void c_strislowercase_s(args_t *a) { a->ret = _strislowercase_s_chk(D8, a->dmax, a->destbos); }
static void c_strismixedcase_s(args_t *a) { a->ret = _strismixedcase_s_chk(D8, a->dmax, a->destbos); }
static void c_strispassword_s(args_t *a) { a->ret = _strispassword_s_chk(D8, a->dmax, a->destbos); }
static void c_strisuppercase_s(args_t *a) { a->ret = _strisuppercase_s_chk(D8, a->dmax, a->destbos); }
static void c_memcmp_s(args_t *a) { a->ret = _memcmp_s_chk(a->dest, a->dmax, a->src, a->slen, (int *)a->out, a->destbos, a->srcbos); }
static void c_memcmp16_s(args_t *a) { a->ret = _memcmp16_s_chk((const uint16_t *)a->dest, a->dmax, (const uint16_t *)a->src, a->slen, (int *)a->out, a->destbos, a->srcbos); }
static void c_memcmp32_s(args_t *a) { a->ret = _memcmp32_s_chk((const uint32_t *)a->dest, a->dmax, (const uint32_t *)a->src, a->slen, (int *)a->out, a->destbos, a->srcbos); }
static void c_wmemcmp_s(args_t *a) { a->ret = _wmemcmp_s_chk(DW, a->dmax, SW, a->slen, (int *)a->out, a->destbos, a->srcbos); }
static void c_memchr_s(args_t *a) { a->ret = _memchr_s_chk(a->dest, a->dmax, (int)a->val, (void **)a->out, a->destbos); }
static void c_memrchr_s(args_t *a) { a->ret = _memrchr_s_chk(a->dest, a->dmax, (int)a->val, (void **)a->out, a->destbos); }
static void c_wcscmp_s(args_t *a) { a->ret = _wcscmp_s_chk(DW, a->dmax, SW, a->slen, (int *)a->out, a->destbos, a->srcbos); }
static void c_wcsncmp_s(args_t *a) { a->ret = _wcsncmp_s_chk(DW, a->dmax, SW, a->slen, a->n, (int *)a->out, a->destbos, a->srcbos); }
static void c_wcsicmp_s(args_t *a) { a->ret = _wcsicmp_s_chk(DW, a->dmax, SW, a->slen, (int *)a->out, a->destbos, a->srcbos); }
static void c_wcsnatcmp_s(args_t *a) { a->ret = _wcsnatcmp_s_chk(DW, a->dmax, SW, a->slen, (int)a->val, (int *)a->out, a->destbos, a->srcbos); }
static void c_wcscoll_s(args_t *a) { a->ret = _wcscoll_s_chk(DW, a->dmax, SW, a->slen, (int *)a->out, a->destbos, a->srcbos); }
static void c_wcsstr_s(args_t *a) { a->ret = _wcsstr_s_chk(DW, a->dmax, SW, a->slen, (wchar_t **)a->out, a->destbos, a->srcbos); }
static void c_timingsafe_bcmp(args_t *a) { a->ret = _timingsafe_bcmp_chk(a->dest, a->src, a->dmax, a->destbos, a->srcbos); }
static void c_timingsafe_memcmp(args_t *a) { a->ret = _timingsafe_memcmp_chk(a->dest, a->src, a->dmax, a->destbos, a->srcbos); }

#define STRMAX RSIZE_MAX_STR
#define WSTRMAX RSIZE_MAX_WSTR
#define MEMMAX RSIZE_MAX_MEM

#define SRCS (F_SRC | F_SRCSTR)
#define SRCN (F_SRC | F_SRCSTR | F_SLEN)     /* string source bounded by slen */
#define SRCM (F_SRC | F_SLEN)                /* counted memory source */
#define OUTSTR (F_DW | F_DSTR | F_CLEAR | F_SLACK)

const row_t g_rows[] = {
    /* name, call, flags, fam, w, du, su, dmax_max, out_kind, ret_kind */
    {"strcpy_s", c_strcpy_s, SRCS | OUTSTR, FAM_COPY, 1, 1, 1, STRMAX, OUT_NONE, RK_ERRNO},
    {"strncpy_s", c_strncpy_s, SRCN | F_SRCBOS | OUTSTR, FAM_COPY, 1, 1, 1, STRMAX, OUT_NONE, RK_ERRNO},
    {"stpcpy_s", c_stpcpy_s, SRCS | F_SRCBOS | OUTSTR, FAM_COPY, 1, 1, 1, STRMAX, OUT_NONE, RK_PTR_ERRP},
    {"stpncpy_s", c_stpncpy_s, SRCN | F_SRCBOS | OUTSTR, FAM_COPY, 1, 1, 1, STRMAX, OUT_NONE, RK_PTR_ERRP},
    {"strcpyfld_s", c_strcpyfld_s, SRCM | F_DW | F_CLEAR | F_SLE_DMAX | F_ZEROLEN_NOOP, FAM_COPY, 1, 1, 1, STRMAX, OUT_NONE, RK_ERRNO},
    {"strcpyfldin_s", c_strcpyfldin_s, SRCN | F_DW | F_CLEAR | F_SLE_DMAX | F_ZEROLEN_NOOP, FAM_COPY, 1, 1, 1, STRMAX, OUT_NONE, RK_ERRNO},
    {"strcpyfldout_s", c_strcpyfldout_s, SRCM | OUTSTR | F_SLE_DMAX | F_ZEROLEN_NOOP, FAM_COPY, 1, 1, 1, STRMAX, OUT_NONE, RK_ERRNO},
    {"wcscpy_s", c_wcscpy_s, SRCS | OUTSTR, FAM_COPY, 4, 4, 4, WSTRMAX, OUT_NONE, RK_ERRNO},
    {"wcsncpy_s", c_wcsncpy_s, SRCN | F_SRCBOS | OUTSTR, FAM_COPY, 4, 4, 4, WSTRMAX, OUT_NONE, RK_ERRNO},

    {"strcat_s", c_strcat_s, SRCS | OUTSTR | F_DIN | F_DIN_TERM, FAM_CAT, 1, 1, 1, STRMAX, OUT_NONE, RK_ERRNO},
    {"strncat_s", c_strncat_s, SRCN | F_SRCBOS | OUTSTR | F_DIN | F_DIN_TERM, FAM_CAT, 1, 1, 1, STRMAX, OUT_NONE, RK_ERRNO},
    {"wcscat_s", c_wcscat_s, SRCS | OUTSTR | F_DIN | F_DIN_TERM, FAM_CAT, 4, 4, 4, WSTRMAX, OUT_NONE, RK_ERRNO},
    {"wcsncat_s", c_wcsncat_s, SRCN | F_SRCBOS | OUTSTR | F_DIN | F_DIN_TERM, FAM_CAT, 4, 4, 4, WSTRMAX, OUT_NONE, RK_ERRNO},

    {"memcpy_s", c_memcpy_s, SRCM | F_SRCBOS | F_DW | F_CLEAR | F_MEM | F_SLE_DMAX | F_ZEROLEN_NOOP, FAM_MEMCPY, 1, 1, 1, MEMMAX, OUT_NONE, RK_ERRNO},
    {"memmove_s", c_memmove_s, SRCM | F_SRCBOS | F_DW | F_CLEAR | F_MEM | F_SLE_DMAX | F_ZEROLEN_NOOP, FAM_MEMCPY, 1, 1, 1, MEMMAX, OUT_NONE, RK_ERRNO},
    {"memcpy16_s", c_memcpy16_s, SRCM | F_SRCBOS | F_DW | F_CLEAR | F_MEM | F_SLE_DMAX | F_ZEROLEN_NOOP, FAM_MEMCPY, 2, 1, 2, MEMMAX, OUT_NONE, RK_ERRNO},
    {"memcpy32_s", c_memcpy32_s, SRCM | F_SRCBOS | F_DW | F_CLEAR | F_MEM | F_SLE_DMAX | F_ZEROLEN_NOOP, FAM_MEMCPY, 4, 1, 4, MEMMAX, OUT_NONE, RK_ERRNO},
    {"memmove16_s", c_memmove16_s, SRCM | F_SRCBOS | F_DW | F_CLEAR | F_MEM | F_SLE_DMAX | F_ZEROLEN_NOOP, FAM_MEMCPY, 2, 1, 2, MEMMAX, OUT_NONE, RK_ERRNO},
    {"memmove32_s", c_memmove32_s, SRCM | F_SRCBOS | F_DW | F_CLEAR | F_MEM | F_SLE_DMAX | F_ZEROLEN_NOOP, FAM_MEMCPY, 4, 1, 4, MEMMAX, OUT_NONE, RK_ERRNO},
    {"wmemcpy_s", c_wmemcpy_s, SRCM | F_SRCBOS | F_DW | F_CLEAR | F_MEM | F_SLE_DMAX | F_ZEROLEN_NOOP, FAM_MEMCPY, 4, 4, 4, RSIZE_MAX_WMEM, OUT_NONE, RK_ERRNO},
    {"wmemmove_s", c_wmemmove_s, SRCM | F_SRCBOS | F_DW | F_CLEAR | F_MEM | F_SLE_DMAX | F_ZEROLEN_NOOP, FAM_MEMCPY, 4, 4, 4, RSIZE_MAX_WMEM, OUT_NONE, RK_ERRNO},
    {"memccpy_s", c_memccpy_s, F_SRC | F_N | F_NLE_DMAX | F_VAL | F_SRCBOS | F_DW | F_CLEAR | F_MEM, FAM_MEMCPY, 1, 1, 1, MEMMAX, OUT_NONE, RK_ERRNO},

    {"memset_s", c_memset_s, F_DW | F_MEM | F_VAL | F_VAL255 | F_N | F_NLE_DMAX | F_DMAX_ZERO_OK, FAM_FILL, 1, 1, 1, MEMMAX, OUT_NONE, RK_ERRNO},
    {"memset16_s", c_memset16_s, F_DW | F_MEM | F_VAL | F_N | F_NLE_DMAX, FAM_FILL, 2, 1, 2, MEMMAX, OUT_NONE, RK_ERRNO},
    {"memset32_s", c_memset32_s, F_DW | F_MEM | F_VAL | F_N | F_NLE_DMAX, FAM_FILL, 4, 1, 4, MEMMAX, OUT_NONE, RK_ERRNO},
    {"memzero_s", c_memzero_s, F_DW | F_MEM, FAM_FILL, 1, 1, 1, MEMMAX, OUT_NONE, RK_ERRNO},
    {"memzero16_s", c_memzero16_s, F_DW | F_MEM, FAM_FILL, 2, 2, 2, RSIZE_MAX_MEM16, OUT_NONE, RK_ERRNO},
    {"memzero32_s", c_memzero32_s, F_DW | F_MEM, FAM_FILL, 4, 4, 4, RSIZE_MAX_MEM32, OUT_NONE, RK_ERRNO},
    {"strzero_s", c_strzero_s, F_DW | F_DSTR | F_SLACK, FAM_FILL, 1, 1, 1, STRMAX, OUT_NONE, RK_ERRNO},
    {"strset_s", c_strset_s, F_DW | F_DSTR | F_DIN | F_VAL | F_VAL255 | F_SLACK, FAM_FILL, 1, 1, 1, STRMAX, OUT_NONE, RK_ERRNO},
    {"strnset_s", c_strnset_s, F_DW | F_DSTR | F_DIN | F_VAL | F_VAL255 | F_N | F_NLE_DMAX | F_SLACK, FAM_FILL, 1, 1, 1, STRMAX, OUT_NONE, RK_ERRNO},
    {"wcsset_s", c_wcsset_s, F_DW | F_DSTR | F_DIN | F_VAL | F_SLACK, FAM_FILL, 4, 4, 4, WSTRMAX, OUT_NONE, RK_ERRNO},
    {"wcsnset_s", c_wcsnset_s, F_DW | F_DSTR | F_DIN | F_VAL | F_N | F_NLE_DMAX | F_SLACK, FAM_FILL, 4, 4, 4, WSTRMAX, OUT_NONE, RK_ERRNO},
    {"strnterminate_s", c_strnterminate_s, F_DW | F_DSTR | F_DIN, FAM_FILL, 1, 1, 1, STRMAX, OUT_NONE, RK_LEN},

    {"strtolowercase_s", c_strtolowercase_s, F_DW | F_DIN, FAM_INPLACE, 1, 1, 1, STRMAX, OUT_NONE, RK_ERRNO},
    {"strtouppercase_s", c_strtouppercase_s, F_DW | F_DIN, FAM_INPLACE, 1, 1, 1, STRMAX, OUT_NONE, RK_ERRNO},
    {"strljustify_s", c_strljustify_s, F_DW | F_DIN | F_DIN_TERM | F_DSTR, FAM_INPLACE, 1, 1, 1, STRMAX, OUT_NONE, RK_ERRNO},
    {"strremovews_s", c_strremovews_s, F_DW | F_DIN | F_DIN_TERM | F_DSTR, FAM_INPLACE, 1, 1, 1, STRMAX, OUT_NONE, RK_ERRNO},
    {"wcslwr_s", c_wcslwr_s, F_DW | F_DIN, FAM_INPLACE, 4, 4, 4, WSTRMAX, OUT_NONE, RK_ERRNO},
    {"wcsupr_s", c_wcsupr_s, F_DW | F_DIN, FAM_INPLACE, 4, 4, 4, WSTRMAX, OUT_NONE, RK_ERRNO},

    {"strnlen_s", c_strnlen_s, F_DIN | F_DMAX_ZERO_OK, FAM_QUERY, 1, 1, 1, STRMAX, OUT_NONE, RK_LEN},
    {"wcsnlen_s", c_wcsnlen_s, F_DIN | F_DMAX_ZERO_OK, FAM_QUERY, 4, 4, 4, WSTRMAX, OUT_NONE, RK_LEN},
    {"strcmp_s", c_strcmp_s, F_DIN | SRCS | F_SRCBOS, FAM_QUERY, 1, 1, 1, STRMAX, OUT_INT, RK_ERRNO},
    {"strcasecmp_s", c_strcasecmp_s, F_DIN | SRCS, FAM_QUERY, 1, 1, 1, STRMAX, OUT_INT, RK_ERRNO},
    {"strnatcmp_s", c_strnatcmp_s, F_DIN | SRCS | F_SRCBOS | F_VAL, FAM_QUERY, 1, 1, 1, STRMAX, OUT_INT, RK_ERRNO},
    {"strcmpfld_s", c_strcmpfld_s, F_DMEM | F_SRC, FAM_QUERY, 1, 1, 1, STRMAX, OUT_INT, RK_ERRNO},
    {"strcoll_s", c_strcoll_s, F_DIN | SRCS, FAM_QUERY, 1, 1, 1, STRMAX, OUT_INT, RK_ERRNO},
    {"strstr_s", c_strstr_s, F_DIN | SRCN | F_SRCBOS, FAM_QUERY, 1, 1, 1, STRMAX, OUT_PTR, RK_ERRNO},
    {"strcasestr_s", c_strcasestr_s, F_DIN | SRCN | F_SRCBOS | F_SLEN_NZ, FAM_QUERY, 1, 1, 1, STRMAX, OUT_PTR, RK_ERRNO},
    {"strchr_s", c_strchr_s, F_DIN | F_VAL | F_VAL255, FAM_QUERY, 1, 1, 1, STRMAX, OUT_PTR, RK_ERRNO},
    {"strrchr_s", c_strrchr_s, F_DIN | F_VAL | F_VAL255, FAM_QUERY, 1, 1, 1, STRMAX, OUT_PTR, RK_ERRNO},
    {"strpbrk_s", c_strpbrk_s, F_DIN | SRCN | F_SRCBOS | F_SLEN_NZ, FAM_QUERY, 1, 1, 1, STRMAX, OUT_PTR, RK_ERRNO},
    {"strspn_s", c_strspn_s, F_DIN | SRCN | F_SRCBOS | F_SLEN_NZ, FAM_QUERY, 1, 1, 1, STRMAX, OUT_SIZE, RK_ERRNO},
    {"strcspn_s", c_strcspn_s, F_DIN | SRCN | F_SRCBOS | F_SLEN_NZ, FAM_QUERY, 1, 1, 1, STRMAX, OUT_SIZE, RK_ERRNO},
    {"strprefix_s", c_strprefix_s, F_DIN | SRCS, FAM_QUERY, 1, 1, 1, STRMAX, OUT_NONE, RK_ERRNO},
    {"strfirstchar_s", c_strfirstchar_s, F_DIN | F_VAL, FAM_QUERY, 1, 1, 1, STRMAX, OUT_PTR, RK_ERRNO},
    {"strlastchar_s", c_strlastchar_s, F_DIN | F_VAL, FAM_QUERY, 1, 1, 1, STRMAX, OUT_PTR, RK_ERRNO},
    {"strfirstdiff_s", c_strfirstdiff_s, F_DIN | SRCS, FAM_QUERY, 1, 1, 1, STRMAX, OUT_SIZE, RK_ERRNO},
    {"strfirstsame_s", c_strfirstsame_s, F_DIN | SRCS, FAM_QUERY, 1, 1, 1, STRMAX, OUT_SIZE, RK_ERRNO},
    {"strlastdiff_s", c_strlastdiff_s, F_DIN | SRCS, FAM_QUERY, 1, 1, 1, STRMAX, OUT_SIZE, RK_ERRNO},
    {"strlastsame_s", c_strlastsame_s, F_DIN | SRCS, FAM_QUERY, 1, 1, 1, STRMAX, OUT_SIZE, RK_ERRNO},
    {"strisalphanumeric_s", c_strisalphanumeric_s, F_DIN, FAM_QUERY, 1, 1, 1, STRMAX, OUT_NONE, RK_BOOL},
    {"strisascii_s", c_strisascii_s, F_DIN, FAM_QUERY, 1, 1, 1, STRMAX, OUT_NONE, RK_BOOL},
    {"strisdigit_s", c_strisdigit_s, F_DIN, FAM_QUERY, 1, 1, 1, STRMAX, OUT_NONE, RK_BOOL},
    {"strishex_s", c_strishex_s, F_DIN, FAM_QUERY, 1, 1, 1, STRMAX, OUT_NONE, RK_BOOL},
    {"strislowercase_s", c_strislowercase_s, F_DIN, FAM_QUERY, 1, 1, 1, STRMAX, OUT_NONE, RK_BOOL},
    {"strismixedcase_s", c_strismixedcase_s, F_DIN, FAM_QUERY, 1, 1, 1, STRMAX, OUT_NONE, RK_BOOL},
    {"strispassword_s", c_strispassword_s, F_DIN, FAM_QUERY, 1, 1, 1, STRMAX, OUT_NONE, RK_BOOL},
    {"strisuppercase_s", c_strisuppercase_s, F_DIN, FAM_QUERY, 1, 1, 1, STRMAX, OUT_NONE, RK_BOOL},
    {"memcmp_s", c_memcmp_s, F_DMEM | SRCM | F_SRCBOS | F_MEM | F_SLE_DMAX | F_SLEN_NZ, FAM_QUERY, 1, 1, 1, MEMMAX, OUT_INT, RK_ERRNO},
    {"memcmp16_s", c_memcmp16_s, F_DMEM | SRCM | F_SRCBOS | F_MEM | F_SLE_DMAX | F_SLEN_NZ, FAM_QUERY, 2, 2, 2, RSIZE_MAX_MEM16, OUT_INT, RK_ERRNO},
    {"memcmp32_s", c_memcmp32_s, F_DMEM | SRCM | F_SRCBOS | F_MEM | F_SLE_DMAX | F_SLEN_NZ, FAM_QUERY, 4, 4, 4, RSIZE_MAX_MEM32, OUT_INT, RK_ERRNO},
    {"wmemcmp_s", c_wmemcmp_s, F_DMEM | SRCM | F_SRCBOS | F_MEM | F_SLE_DMAX | F_SLEN_NZ, FAM_QUERY, 4, 4, 4, RSIZE_MAX_WMEM, OUT_INT, RK_ERRNO},
    {"memchr_s", c_memchr_s, F_DMEM | F_VAL | F_VAL255 | F_MEM, FAM_QUERY, 1, 1, 1, MEMMAX, OUT_PTR, RK_ERRNO},
    {"memrchr_s", c_memrchr_s, F_DMEM | F_VAL | F_VAL255 | F_MEM, FAM_QUERY, 1, 1, 1, MEMMAX, OUT_PTR, RK_ERRNO},
    {"wcscmp_s", c_wcscmp_s, F_DIN | SRCN | F_SRCBOS | F_SLEN_NZ, FAM_QUERY, 4, 4, 4, WSTRMAX, OUT_INT, RK_ERRNO},
    {"wcsncmp_s", c_wcsncmp_s, F_DIN | SRCN | F_SRCBOS | F_SLEN_NZ | F_N, FAM_QUERY, 4, 4, 4, WSTRMAX, OUT_INT, RK_ERRNO},
    {"wcsicmp_s", c_wcsicmp_s, F_DIN | SRCN | F_SRCBOS | F_SLEN_NZ, FAM_QUERY, 4, 4, 4, WSTRMAX, OUT_INT, RK_ERRNO},
    {"wcsnatcmp_s", c_wcsnatcmp_s, F_DIN | SRCN | F_SRCBOS | F_SLEN_NZ | F_VAL, FAM_QUERY, 4, 4, 4, WSTRMAX, OUT_INT, RK_ERRNO},
    {"wcscoll_s", c_wcscoll_s, F_DIN | SRCN | F_SRCBOS | F_SLEN_NZ, FAM_QUERY, 4, 4, 4, WSTRMAX, OUT_INT, RK_ERRNO},
    {"wcsstr_s", c_wcsstr_s, F_DIN | SRCN | F_SRCBOS, FAM_QUERY, 4, 4, 4, WSTRMAX, OUT_PTR, RK_ERRNO},
    {"timingsafe_bcmp", c_timingsafe_bcmp, F_DMEM | F_SRC | F_SRCBOS | F_MEM | F_DMAX_ZERO_OK | F_NONULL, FAM_QUERY, 1, 1, 1, MEMMAX, OUT_NONE, RK_LEN},
    {"timingsafe_memcmp", c_timingsafe_memcmp, F_DMEM | F_SRC | F_SRCBOS | F_MEM | F_DMAX_ZERO_OK | F_NONULL, FAM_QUERY, 1, 1, 1, MEMMAX, OUT_NONE, RK_LEN},
};
const int g_nrows = (int)(sizeof g_rows / sizeof g_rows[0]);

const row_t *row_by_name(const char *name) {
    int i;
    for (i = 0; i < g_nrows; i++)
        if (strcmp(g_rows[i].name, name) == 0) return &g_rows[i];
    return NULL;
}
