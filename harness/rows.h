/* rows.h -- one row per library entry point of the "plain signature" families
 * (COPY CAT MEMCPY FILL INPLACE QUERY). Written from the doc comment of each
 * function (notes/contracts_extracted.md), not from its name. */
#ifndef ROWS_H
#define ROWS_H
#include <stddef.h>
#include <stdint.h>
#include <wchar.h>
#include <stdbool.h>
#include "safe_lib.h"
#include "safe_str_lib.h"
#include "safe_mem_lib.h"

typedef struct args {
    void *dest; size_t dmax; size_t destbos;
    void *src;  size_t slen; size_t srcbos;
    long val;            /* ch / value / fold_case / c */
    size_t n;            /* extra count (wcsncmp_s count, memccpy_s n, strnset_s n) */
    void *out;           /* primary out-parameter */
    errno_t *errp;       /* stp*cpy_s */
    long ret;            /* raw return value */
} args_t;

/* flags */
#define F_SRC       0x000001u  /* has a src pointer */
#define F_SRCSTR    0x000002u  /* src is read as a NUL-terminated string */
#define F_SLEN      0x000004u  /* has slen (declared readable elements of src) */
#define F_SRCBOS    0x000008u  /* entry point takes srcbos */
#define F_DIN       0x000010u  /* dest is an input string (read up to NUL or dmax) */
#define F_DW        0x000020u  /* dest is written */
#define F_DSTR      0x000040u  /* dest holds a string result (C03) */
#define F_MEM       0x000080u  /* reports through the mem handler, RSIZE_MAX_MEM */
#define F_VAL       0x000100u  /* has a value/char parameter */
#define F_VAL255    0x000200u  /* value must be <= 255 */
#define F_SLACK     0x000400u  /* doc promises nulled slack after success (C08) */
#define F_CLEAR     0x000800u  /* doc: dest nulled on constraint violation (C04) */
#define F_SLE_DMAX  0x001000u  /* constraint: slen <= dmax (in elements) */
#define F_SLEN_NZ   0x002000u  /* constraint: slen != 0 */
#define F_N         0x004000u  /* has extra count n */
#define F_DMEM      0x008000u  /* dest is counted memory (not a string) for reading */
#define F_NOBOS     0x010000u  /* entry point has no destbos (plain function) */
#define F_DIN_TERM  0x020000u  /* doc: dest shall be terminated (unterminated => error allowed) */
#define F_ZEROLEN_NOOP 0x040000u /* doc: slen==0 is a no-op returning EOK, dest untouched */
#define F_NLE_DMAX  0x080000u  /* constraint: n <= dmax */
#define F_DMAX_ZERO_OK 0x100000u /* dmax==0 is not a violation */
#define F_NONULL    0x200000u  /* doc gives no failure indication for NULL: never pass NULL */

enum { OUT_NONE, OUT_INT, OUT_SIZE, OUT_PTR };
enum { RK_ERRNO, RK_BOOL, RK_LEN, RK_PTR_ERRP };
enum { FAM_COPY, FAM_CAT, FAM_MEMCPY, FAM_FILL, FAM_INPLACE, FAM_QUERY };

typedef struct row {
    const char *name;
    void (*call)(args_t *a);
    unsigned fl;
    int fam;
    int w;              /* element width in bytes (dest and src) */
    int du;             /* bytes per dmax unit */
    int su;             /* bytes per slen unit */
    size_t dmax_max;    /* RSIZE limit in dmax units */
    int out_kind;
    int ret_kind;
} row_t;

extern const row_t g_rows[];
extern const int g_nrows;
const row_t *row_by_name(const char *name);

#endif
