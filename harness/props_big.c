/* props_big.c -- module C06B: the memory fill/copy/move rows at LARGE sizes (64 Ki .. 1.5 Mi elements).
 * The arena modules stop at a few KiB, so a defect that needs a counter to wrap (16-bit loop counters, sizes
 * truncated to uint16_t/uint32_t, block loops that only start beyond some size) is out of their reach.
 * Oracle: dest equals memset / memcpy / memmove of the same operands, byte for byte, and 256 bytes on either
 * side of dest are untouched. Keys are C06 (wrong result) or, when the operands of a move overlap, C07. */
#define _GNU_SOURCE
#include "generic.h"
#include <sys/mman.h>

#define BIG_BYTES (7UL << 20)
#define BIG_PAD 4096
static unsigned char *big_a, *big_b, *big_ref;
/* a region with a multiple of 4 GiB in its middle: code that compares or subtracts pointers through a 32-bit type gives
 * different answers for two operands on either side of it, and nowhere else */
static unsigned char *big_s;
static uintptr_t big_boundary;

typedef struct bcase {
    int row;          /* index into big_rows */
    long nel;         /* elements of the row's width */
    int doff, soff;   /* element offsets of dest / src inside their regions (alignment) */
    int mode;         /* moves: 0 disjoint, 1 src = dest + k, 2 src = dest - k */
    long k;           /* overlap distance in elements */
    long val;
    uint32_t cseed;
    int straddle;     /* operands placed across a multiple of 4 GiB (region big_s) */
} bcase_t;

static const char *const big_names[] = {"memset_s", "memzero_s", "memset16_s", "memzero16_s", "memset32_s", "memzero32_s",
                                        "memcpy_s", "memmove_s", "memcpy16_s", "memmove16_s", "memcpy32_s", "memmove32_s", "wmemcpy_s", "wmemmove_s"};
#define NBIG ((int)(sizeof big_names / sizeof big_names[0]))
static const row_t *big_rows[NBIG];

static void big_init(const runcfg_t *cfg) {
    int i;
    (void)cfg;
    for (i = 0; i < NBIG; i++) big_rows[i] = row_by_name(big_names[i]);
    big_a = mmap(NULL, BIG_BYTES + 2 * BIG_PAD, PROT_READ | PROT_WRITE, MAP_PRIVATE | MAP_ANONYMOUS | MAP_NORESERVE, -1, 0);
    big_b = mmap(NULL, BIG_BYTES + 2 * BIG_PAD, PROT_READ | PROT_WRITE, MAP_PRIVATE | MAP_ANONYMOUS | MAP_NORESERVE, -1, 0);
    big_ref = mmap(NULL, BIG_BYTES + 2 * BIG_PAD, PROT_READ | PROT_WRITE, MAP_PRIVATE | MAP_ANONYMOUS | MAP_NORESERVE, -1, 0);
    for (i = 1; i <= 64 && !big_s; i++) {
        uintptr_t b = (uintptr_t)i << 32;
        void *want = (void *)(b - BIG_BYTES / 2 - BIG_PAD);
        void *p = mmap(want, BIG_BYTES + 2 * BIG_PAD, PROT_READ | PROT_WRITE, MAP_PRIVATE | MAP_ANONYMOUS | MAP_NORESERVE | MAP_FIXED_NOREPLACE, -1, 0);
        if (p == want) { big_s = p; big_boundary = b; }
        else if (p != MAP_FAILED) munmap(p, BIG_BYTES + 2 * BIG_PAD);
    }
}

static int is_move_row(const row_t *r) { return strstr(r->name, "move") != NULL; }
static int is_copy_row(const row_t *r) { return (r->fl & F_SRC) != 0; }

static int gen_big(cs_t *cs, void *k, const runcfg_t *cfg) {
    bcase_t *c = k;
    static const long NS[] = {65535, 65536, 65537, 65543, 70000, 131071, 131072, 131073, 262144, 524287, 524288, 524291, 1048576, 1048600};
    const row_t *r;
    long maxel;
    c->row = (int)cs_range(cs, 0, NBIG - 1);
    if (cfg->row_filter) { int i; for (i = 0; i < NBIG; i++) if (!strcmp(big_names[i], cfg->row_filter)) c->row = i; }
    r = big_rows[c->row];
    if (!r) return 0;
    maxel = (long)((BIG_BYTES / 2 - 65536) / (size_t)r->w);
    if (cfg->phase == 0) c->nel = NS[cs_range(cs, 0, 13)];
    else c->nel = cs_range(cs, 0, 3) ? NS[cs_range(cs, 0, 13)] + cs_range(cs, -2, 70) : cs_range(cs, 60000, maxel);
    if (c->nel > maxel) c->nel = maxel;
    c->mode = is_move_row(r) ? (int)cs_range(cs, 0, 2) : 0;
    /* the remaining parameters are noise: the enumerated lattice is row x size x overlap mode */
    c->doff = (int)cs_noise(cs, 0, 9);
    c->soff = (int)cs_noise(cs, 0, 9);
    { static const long KS[] = {1, 3, 7, 64, 4096, 65536}; c->k = KS[cs_noise(cs, 0, 5)]; if (cs_noise(cs, 0, 3) == 0) c->k = c->nel / 2; }
    { static const long VS[] = {0, 1, 0x5a, 0x80, 0xff, 0x1234, 0xfedc, 0x12345678, 0xa5a5a5a5L, 0xffffffffL, 0x20202020}; c->val = VS[cs_noise(cs, 0, 10)]; }
    if (r->w == 1) c->val &= 0xff; else if (r->w == 2) c->val &= 0xffff; /* larger fill values are a documented constraint violation */
    c->cseed = (uint32_t)cs_noise(cs, 0, 0xffffff);
    c->straddle = cs_noise(cs, 0, 3) == 0;
    return 1;
}

static void big_describe(const void *k, char *buf, size_t n) {
    const bcase_t *c = k;
    const row_t *r = big_rows[c->row % NBIG];
    snprintf(buf, n, "%s(%ld elements of %d bytes, dest+%d%s%s, value 0x%lx)", r ? r->name : "?", c->nel, r ? r->w : 0, c->doff, c->straddle ? ", operands across a multiple of 4 GiB" : "",
             c->mode == 1 ? ", src = dest + k" : c->mode == 2 ? ", src = dest - k" : (r && is_copy_row(r) ? ", src disjoint" : ""), c->val);
}

static int bh_count;
static void big_handler(const char *m, void *p, errno_t e) { (void)m; (void)p; (void)e; bh_count++; }

static void exec_big(const void *k, res_t *r, const runcfg_t *cfg) {
    const bcase_t *c = k;
    const row_t *row = big_rows[c->row % NBIG];
    size_t w, bytes, i, total = BIG_BYTES, win_lo = 0, win_hi = 0;
    unsigned char *dest, *src = NULL, *base;
    args_t a;
    uint32_t s = c->cseed * 2654435761u + 7;
    int overlap;
    (void)cfg;
    r->hash = cs_hash_bytes(CS_HASH_INIT, c, offsetof(bcase_t, cseed));
    r->hash = cs_hash_u64(r->hash, (uint64_t)c->straddle);
    if (!row || !big_a) { res_label(r, "skipped"); return; }
    w = (size_t)row->w;
    bytes = (size_t)c->nel * w;
    res_label(r, row->name);
    /* region A holds dest (and src for overlapping moves), region B a disjoint src */
    base = big_a + BIG_PAD;
    dest = base + 65536 + (size_t)c->doff * w;
    if (c->mode == 1) src = dest + (size_t)c->k * w;
    else if (c->mode == 2) { if ((size_t)c->k * w > 65536 + (size_t)c->doff * w - 64) src = dest - w; else src = dest - (size_t)c->k * w; }
    else if (is_copy_row(row)) src = big_b + BIG_PAD + (size_t)c->soff * w;
    if (c->straddle && big_s) {
        /* the boundary lies between the two operands of an overlapping move (dest below, src at or above it, or the other way
         * round), or in the middle of dest for the other rows */
        size_t kb = (size_t)c->k * w, half = ((kb + 1) / 2 + w - 1) / w * w;
        if (c->mode && (kb >= bytes || bytes + kb + 2 * 65536 > BIG_BYTES / 2)) { res_label(r, "skipped"); return; }
        base = big_s + BIG_PAD;
        if (c->mode == 1) { dest = (unsigned char *)big_boundary - half; src = dest + kb; }
        else if (c->mode == 2) { dest = (unsigned char *)big_boundary + kb - half; src = dest - kb; }
        else dest = (unsigned char *)big_boundary - (bytes / 2) / w * w;
        if (dest < base + 65536 || dest + bytes + 65536 > base + total) { res_label(r, "skipped"); return; }
        res_label(r, "across-4GiB");
    }
    if (!(c->straddle && big_s) && src && (src + bytes > big_a + BIG_PAD + total) && c->mode) { res_label(r, "skipped"); return; }
    overlap = c->mode != 0;
    /* fill: position-coded dest region (with margins), random source */
    /* only the window that can matter is prepared and compared: operands plus 64 KiB on either side */
    {
        size_t first = (size_t)((src && overlap && src < dest ? src : dest) - base);
        size_t lo = first > 65536 ? (first - 65536) & ~(size_t)7 : 0, hi = (size_t)(dest - base) + bytes + 65536 + ((c->mode == 1) ? (size_t)c->k * w : 0);
        if (hi > total) hi = total;
        hi &= ~(size_t)7;
        win_lo = lo; win_hi = hi;
        for (i = lo; i < hi; i += 8) { uint64_t v = 0x8182838485868788ULL + i * 0x9E3779B97F4A7C15ULL; memcpy(base + i, &v, 8); }
        if (src && !overlap) for (i = 0; i < bytes + 64; i += 8) { uint64_t v; s = s * 1664525u + 1013904223u; v = (uint64_t)s * 0x2545F4914F6CDD1DULL; memcpy(src + i, &v, 8); }
        memcpy(big_ref + lo, base + lo, hi - lo);
    }
    /* reference */
    {
        unsigned char *rd = big_ref + (dest - base);
        if (!is_copy_row(row)) {
            int zero = strstr(row->name, "zero") != NULL;
            for (i = 0; i < (size_t)c->nel; i++) {
                if (w == 1) rd[i] = zero ? 0 : (unsigned char)c->val;
                else if (w == 2) ((uint16_t *)(void *)rd)[i] = zero ? 0 : (uint16_t)c->val;
                else ((uint32_t *)(void *)rd)[i] = zero ? 0 : (uint32_t)c->val;
            }
        } else if (overlap) memmove(rd, big_ref + (src - base), bytes);
        else memcpy(rd, src, bytes);
    }
    a = (args_t){0};
    a.dest = dest; a.dmax = bytes / (size_t)row->du; a.destbos = BOS_UNKNOWN;
    a.src = src; a.slen = src ? bytes / (size_t)row->su : 0; a.srcbos = BOS_UNKNOWN;
    a.n = (size_t)c->nel; a.val = c->val;
    bh_count = 0;
    set_str_constraint_handler_s(big_handler); set_mem_constraint_handler_s(big_handler);
    AR_GUARDED(row->call(&a));
    r->nontrivial = 1;
    if (g_ar_fault.faulted) {
        r->fragile = 1;
        RES_VIOL(r, "C01:%s:fault:huge", row->name);
        RES_DETAIL(r, "signal %d at %p (%s) with %ld elements", g_ar_fault.sig, (void *)g_ar_fault.addr, g_ar_fault.is_write ? "store" : "load", c->nel);
        return;
    }
    if (a.ret != EOK) {
        RES_VIOL(r, "%s:%s:valid-call-rejected:huge", overlap ? "C07" : "C06", row->name);
        RES_DETAIL(r, "valid %s of %ld elements (%zu bytes, within the RSIZE limit) returned %ld", overlap ? "overlapping move" : "call", c->nel, bytes, a.ret);
        return;
    }
    if (memcmp(base + win_lo, big_ref + win_lo, win_hi - win_lo) != 0) {
        size_t q = win_lo;
        while (q < win_hi && base[q] == big_ref[q]) q++;
        if (base + q < dest || base + q >= dest + bytes) {
            RES_VIOL(r, "C01:%s:wrote-outside-dest:huge", row->name);
            RES_DETAIL(r, "byte at dest%+ld changed (dest is %zu bytes)", (long)(base + q - dest), bytes);
        } else {
            RES_VIOL(r, "%s:%s:%s:huge", overlap ? "C07" : "C06", row->name, overlap ? "corrupted-copy" : "wrong-result");
            RES_DETAIL(r, "dest byte %zu of %zu is 0x%02x, the reference (%s) gives 0x%02x; return code 0", (size_t)(base + q - dest), bytes, base[q],
                       is_copy_row(row) ? (overlap ? "memmove" : "memcpy") : "memset", big_ref[q]);
        }
    }
}

const module_t mod_C06B = {"C06B", sizeof(bcase_t), 1, {3000, 40000}, big_init, gen_big, exec_big, big_describe,
                           "memory fill/copy/move rows with 65,535 .. 1.5 M elements (sizes around 2^16, 2^17, 2^19, 2^20 and uniform), ten alignments, moves with overlap distances 1..65536 and n/2; "
                           "reference = memset/memcpy/memmove on a private copy, margins around dest checked; non-trivial = every case; distinct by decoded case"};
