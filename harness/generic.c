/* generic.c -- generator and executor of the generic case (truthful callers) */
#include "generic.h"
#include "wraps.h"
#include <limits.h>

static const long LAT[] = {0, 1, 2, 3, 4, 5, 6, 7, 8, 9, 10, 11, 12, 13, 14, 15, 16, 17, 18, 19, 20,
                           31, 32, 33, 34, 63, 64, 65, 127, 128, 129, 255, 256, 257, 511, 512, 513,
                           1023, 1024, 2047, 2048, 4095, 4096};
#define NLAT ((int)(sizeof LAT / sizeof LAT[0]))

/* max elements of width w that fit the arena data area, leaving room for a roomy tail */
static size_t cap_elems(int w) { return (AR_DATA - 256) / (size_t)w; }

static size_t pick_size(cs_t *cs, size_t cap) {
    /* weighted towards small sizes */
    long k = cs_range(cs, 0, 9);
    size_t v;
    if (k < 5) v = (size_t)cs_range(cs, 0, 20);
    else if (k < 8) v = (size_t)LAT[cs_range(cs, 0, NLAT - 1)];
    else if (k == 8) v = (size_t)cs_range(cs, 0, cap > 4200 ? 4200 : (long)cap);                 /* any size: magic lengths are not on the lattice */
    else { long e = cs_range(cs, 2, 12); v = ((size_t)1 << e) + (size_t)cs_range(cs, 0, 15) - 8; } /* around every power of two */
    if (v > cap) v = cap;
    return v;
}

static size_t rel_size(cs_t *cs, size_t base, size_t cap) {
    long k = cs_range(cs, 0, 9);
    size_t v;
    switch (k) {
    case 0: v = base; break;
    case 1: v = base + 1; break;
    case 2: v = base ? base - 1 : 0; break;
    case 3: v = base + 2; break;
    case 4: v = base > 1 ? base - 2 : 0; break;
    case 5: v = 0; break;
    case 6: v = 1; break;
    default: v = pick_size(cs, cap); break;
    }
    if (v > cap) v = cap;
    return v;
}

int gc_gen(cs_t *cs, gcase_t *c, const runcfg_t *cfg, int prop) {
    const row_t *r;
    size_t cap, delems;
    int small = (cfg->phase == 0);
    (void)prop;
    if (cfg->row_filter) {
        const row_t *rr = row_by_name(cfg->row_filter);
        if (!rr) return 0;
        c->row = (int)(rr - g_rows);
    } else {
        /* rows relevant to the property */
        static int sub[12][128], nsub[12];
        if (prop < 0 || prop >= 12) prop = 0;
        if (!nsub[prop]) {
            int i;
            for (i = 0; i < g_nrows; i++) {
                unsigned fl = g_rows[i].fl;
                int in = 1;
                if (prop == 3) in = (fl & F_DSTR) != 0;
                else if (prop == 4) in = (fl & F_CLEAR) != 0;
                else if (prop == 8) in = (fl & F_SLACK) != 0;
                else if (prop == 6) in = g_rows[i].fam != FAM_QUERY;
                else if (prop == 10) in = g_rows[i].fam == FAM_QUERY;
                if (in) sub[prop][nsub[prop]++] = i;
            }
        }
        c->row = sub[prop][cs_range(cs, 0, nsub[prop] - 1)];
    }
    r = &g_rows[c->row];
    cap = cap_elems(r->w > r->du ? r->w : r->du);
    if (cap > r->dmax_max) cap = r->dmax_max;

    /* ---------- dest ---------- */
    if (small) {
        long SM = prop == 10 ? 4 : 9;
        long SSM = prop == 10 ? 3 : SM + 1;
        c->dkind = DK_EXACT;
        c->dmax = (size_t)cs_range(cs, prop == 10 ? 1 : 0, SM);
        if (r->du < r->w) c->dmax *= (size_t)(r->w / r->du) , c->dmax += (size_t)cs_range(cs, 0, 1); /* byte-sized dmax for 16/32-bit rows, incl. odd */
        c->dtrue = c->dmax * (size_t)r->du;
        c->dbos = prop == 10 ? (int)cs_noise(cs, 0, 1) : (int)cs_range(cs, 0, 1);
        c->dplace = PL_END;
        c->dest_null = 0;
        if (r->fl & F_DIN) {
            delems = c->dtrue / (size_t)r->w;
            /* terminated with every length, or unterminated */
            c->dlen = (size_t)cs_range(cs, 0, (long)delems);
            c->dcontent = c->dlen >= delems ? DC_UNTERM : DC_STR;
        } else if (r->fl & F_DMEM) c->dcontent = DC_BYTES;
        else c->dcontent = DC_GARBAGE;
        if (r->fl & F_SRC) {
            c->src_null = 0;
            c->sbos = (r->fl & F_SRCBOS) ? (prop == 10 ? (int)cs_noise(cs, 0, 1) : (int)cs_range(cs, 0, 1)) : 0;
            c->splace = PL_END;
            if (r->fl & F_SLEN) c->slen = (size_t)cs_range(cs, 0, SM + 1);
            if (r->fl & F_SRCSTR) {
                size_t lim = (r->fl & F_SLEN) ? c->slen : (size_t)SM + 1;
                if ((long)lim > SSM) lim = (size_t)SSM;
                c->slen_true = (size_t)cs_range(cs, 0, (long)lim);
                if ((r->fl & F_SLEN) && c->slen_true >= c->slen && c->slen > 0 && cs_range(cs, 0, 1)) {
                    /* unterminated array exactly filling slen */
                    c->scontent = SC_UNTERM;
                    c->strue = c->slen * (size_t)r->su;
                } else {
                    c->scontent = SC_STR;
                    c->strue = (c->slen_true + 1) * (size_t)r->w;
                }
            } else {
                size_t el = (r->fl & F_SLEN) ? c->slen : ((r->fl & F_N) ? 0 : c->dmax * (size_t)r->du / (size_t)r->w);
                c->scontent = SC_BYTES;
                c->strue = el * (size_t)r->su;
            }
        }
        if (r->fl & F_N) {
            c->n = (size_t)cs_range(cs, 0, SM + 1);
            if ((r->fl & F_SRC) && !(r->fl & F_SLEN)) c->strue = c->n * (size_t)r->su; /* memccpy_s: src has n bytes */
        }
        if (r->fl & F_VAL) {
            static const long vals[] = {'a', 0, ' ', 0xE9, 255, 256, 'A', 1};
            c->val = vals[cs_range(cs, 0, (r->fl & F_VAL255) ? 5 : 4)];
            if (!(r->fl & F_VAL255) && r->fam == FAM_QUERY && (r->fl & F_SRC)) c->val = cs_range(cs, 0, 1); /* fold_case */
        }
        if (prop == 10 && r->w != 2) {
            /* exhaustive operand contents over a 4-symbol alphabet {a, A, b|ae, 0xE9|AE} */
            size_t q;
            c->ex_on = 1;
            if (c->dcontent == DC_STR) for (q = 0; q < c->dlen && q < 7; q++) c->ex_d[q] = (uint8_t)cs_range(cs, 0, 3);
            if ((r->fl & F_SRC) && c->scontent == SC_STR) for (q = 0; q < c->slen_true && q < 7; q++) c->ex_s[q] = (uint8_t)cs_range(cs, 0, 3);
            c->alpha = 1;
            if (r->fl & F_VAL) { static const long vv[] = {'a', 'A', 0xE9, 0}; if (r->fl & F_VAL255 || r->out_kind == OUT_PTR) c->val = vv[cs_range(cs, 0, 3)]; }
            c->cseed = (uint32_t)cs_noise(cs, 0, 0xffffff);
            c->src_first = (uint8_t)cs_noise(cs, 0, 1);
            return 1;
        }
        c->src_first = (uint8_t)cs_noise(cs, 0, 1);
        c->alpha = (int)cs_range(cs, 0, 1);
        if (prop == 4) c->alpha = 0;
        c->cseed = (uint32_t)cs_noise(cs, 0, 0xffffff);
        return 1;
    }

    /* ---------- random phase ---------- */
    c->dest_null = cs_range(cs, 0, 39) == 0;
    {
        long k = cs_range(cs, 0, 19);
        if (k < 11) c->dkind = DK_EXACT;
        else if (k < 15) c->dkind = DK_ROOMY;
        else if (k < 17) c->dkind = DK_TOLDLIE;
        else if (k < 19) c->dkind = DK_OVERMAX;
        else c->dkind = DK_EXACT;
    }
    if (prop != 5 && c->dkind == DK_TOLDLIE) c->dkind = DK_EXACT; /* only C05 studies declarations the library is told are wrong */
    c->dmax = pick_size(cs, cap);
    if (r->du < r->w && cs_range(cs, 0, 3)) c->dmax -= c->dmax % (size_t)(r->w / r->du);
    c->dbos = (int)cs_range(cs, 0, 1);
    if (r->fl & F_NOBOS) c->dbos = 0;
    switch (c->dkind) {
    case DK_EXACT: c->dtrue = c->dmax * (size_t)r->du; break;
    case DK_ROOMY: {
        static const long extra[] = {1, 2, 3, 4, 7, 8, 64};
        c->dtrue = (c->dmax + (size_t)extra[cs_range(cs, 0, 6)]) * (size_t)r->du;
        break;
    }
    case DK_TOLDLIE: /* object smaller than dmax, and the library is told (bos exact) */
        c->dbos = 1;
        if (r->fl & F_NOBOS) { c->dkind = DK_EXACT; c->dtrue = c->dmax * (size_t)r->du; break; }
        c->dtrue = (size_t)cs_range(cs, 0, 16) * (size_t)r->w;
        if (c->dmax * (size_t)r->du <= c->dtrue) c->dmax = c->dtrue / (size_t)r->du + 1 + (size_t)cs_range(cs, 0, 3);
        break;
    case DK_OVERMAX:
        if (prop != 5) {
            /* truthful form only: the object really has dmax elements (possible for the string limits) */
            size_t room = (AR_DATA - 64) / (size_t)r->du;
            if (r->dmax_max + 1 <= room) {
                c->dmax = r->dmax_max + 1 + (size_t)cs_range(cs, 0, 40);
                if (c->dmax > room) c->dmax = room;
                c->dtrue = c->dmax * (size_t)r->du;
            } else {
                c->dkind = DK_EXACT;
                c->dtrue = c->dmax * (size_t)r->du;
            }
            break;
        }
        {
        static const size_t huge[] = {1, 2, 4096, (size_t)1 << 31, (size_t)-1 >> 1, (size_t)-1 - 1, (size_t)-1};
        long h = cs_range(cs, 0, 6);
        c->dtrue = (size_t)cs_range(cs, 1, 16) * (size_t)r->w;
        c->dmax = h < 3 ? r->dmax_max + huge[h] : huge[h];
        if (c->dmax <= r->dmax_max) c->dmax = r->dmax_max + 1;
        break;
    }
    }
    /* alignment for element width */
    c->dtrue -= c->dtrue % (size_t)r->w;
    if (c->dkind == DK_EXACT && c->dtrue != c->dmax * (size_t)r->du) c->dkind = DK_ROOMY, c->dtrue += (size_t)r->w; /* odd byte dmax on wide rows */
    if (c->dkind == DK_ROOMY && c->dtrue < c->dmax * (size_t)r->du) c->dtrue = (c->dmax * (size_t)r->du / (size_t)r->w + 1) * (size_t)r->w;
    {
        long p = cs_range(cs, 0, 7);
        c->dplace = p < 5 ? PL_END : (p < 7 ? PL_START : PL_MID);
        c->dskew = (int)cs_range(cs, 0, 15) * r->w % 64;
    }
    delems = c->dtrue / (size_t)r->w;
    if (r->fl & F_DIN) {
        long k = cs_range(cs, 0, 9);
        size_t decl = c->dmax * (size_t)r->du / (size_t)r->w;
        if (decl > delems) decl = delems;
        if (k < 3 || delems == 0) { c->dcontent = DC_UNTERM; c->dlen = delems; }
        else {
            c->dcontent = DC_STR;
            if (k < 5) c->dlen = decl ? decl - 1 : 0;           /* terminator in the last declared cell */
            else if (k < 6 && decl < delems) c->dlen = decl;    /* terminator just outside dmax (roomy) */
            else c->dlen = (size_t)cs_range(cs, 0, (long)(delems - 1));
            if (c->dlen >= delems) c->dlen = delems - 1;
        }
    } else if (r->fl & F_DMEM) c->dcontent = DC_BYTES;
    else c->dcontent = DC_GARBAGE;

    /* ---------- src ---------- */
    if (r->fl & F_SRC) {
        size_t scap = cap_elems(r->su > r->w ? r->su : r->w);
        size_t dm_el = c->dkind == DK_OVERMAX ? delems : c->dmax * (size_t)r->du / (size_t)r->w;
        c->src_null = cs_range(cs, 0, 39) == 0;
        c->sbos = (r->fl & F_SRCBOS) ? (int)cs_range(cs, 0, 1) : 0;
        {
            long p = cs_range(cs, 0, 7);
            c->splace = p < 6 ? PL_END : PL_START;
        }
        if (r->fl & F_SLEN) {
            long k = cs_range(cs, 0, 29);
            c->slen = rel_size(cs, dm_el, scap);
            if (k == 0) c->slen = r->dmax_max + 1;              /* over the limit */
            else if (k == 1) c->slen = (size_t)-1;
        }
        if (r->fl & F_SRCSTR) {
            size_t decl = (r->fl & F_SLEN) ? c->slen : dm_el;
            long k = cs_range(cs, 0, 9);
            if (decl > scap) decl = scap;                     /* what we can back */
            if ((r->fl & F_SLEN) && k < 3 && c->slen > 0 && c->slen <= scap) {
                c->scontent = SC_UNTERM;                       /* array exactly filling slen */
                c->slen_true = c->slen;
                c->strue = c->slen * (size_t)r->su + ((k == 0) ? (size_t)r->w * (size_t)cs_range(cs, 0, 2) : 0);
            } else {
                c->scontent = SC_STR;
                c->slen_true = rel_size(cs, k < 6 ? dm_el : decl, scap - 1);
                c->strue = (c->slen_true + 1) * (size_t)r->w;
                if (cs_range(cs, 0, 7) == 0) c->strue += (size_t)r->w * (size_t)cs_range(cs, 1, 8); /* roomy */
            }
        } else {
            size_t el;
            if (r->fl & F_SLEN) el = c->slen;
            else if (r->fl & F_N) el = 0; /* set below */
            else el = dm_el * (size_t)r->w / (size_t)r->su;
            if (el > scap) el = (size_t)cs_range(cs, 0, 16); /* declared size is a lie the library must refuse; told via srcbos */
            c->scontent = SC_BYTES;
            c->strue = el * (size_t)r->su;
            if (el > 0 && (r->fl & F_SLEN) && c->slen > scap) c->sbos = (r->fl & F_SRCBOS) ? 1 : 0;
            if (cs_range(cs, 0, 7) == 0) c->strue += (size_t)r->su * (size_t)cs_range(cs, 1, 8);
        }
    }
    if (r->fl & F_N) {
        size_t dm_el = c->dkind == DK_OVERMAX ? delems : c->dmax * (size_t)r->du / (size_t)r->w;
        long k = cs_range(cs, 0, 29);
        c->n = rel_size(cs, dm_el, cap);
        if (k == 0) c->n = r->dmax_max + 1;
        else if (k == 1) c->n = (size_t)-1;
        if ((r->fl & F_SRC) && !(r->fl & F_SLEN)) { /* memccpy_s: src has n bytes */
            size_t el = c->n;
            if (el > cap) el = (size_t)cs_range(cs, 0, 16);
            c->strue = el * (size_t)r->su;
        }
    }
    if (r->fl & F_VAL) {
        long k = cs_range(cs, 0, 15);
        static const long vals[] = {'a', 'b', 'A', '1', ' ', '\t', 0xE9, 0x80, 0, 255};
        if (k < 10) c->val = vals[k];
        else if (k < 12) c->val = cs_range(cs, 0, 255);
        else if (k == 12) c->val = 256;
        else if (k == 13) c->val = -1;
        else if (k == 14) c->val = 0x10ffff + cs_range(cs, 0, 2);
        else { /* half of them: one byte repeated in every byte of the element (a fill that can be "optimised" into a byte fill) */
            long q = cs_range(cs, 0, 0x7fff);
            c->val = (q & 1) ? q : (long)(0x01010101u * (uint32_t)(1 + (q >> 1) % 255));
            if (!(q & 1) && r->w == 2) c->val &= 0xffff;
            if (!(q & 1) && (r->fl & F_VAL255)) c->val &= 0x7f7f7f7f; /* an int parameter: stay positive, the documented constraint is "> 255" */
        }
        if (r->fam == FAM_QUERY && (r->fl & F_SRC)) c->val = cs_range(cs, 0, 1);
    }
    c->out_null = (r->out_kind != OUT_NONE || r->ret_kind == RK_PTR_ERRP) ? cs_range(cs, 0, 39) == 0 : 0;
    c->src_first = (uint8_t)cs_range(cs, 0, 1);
    if (r->fl & F_NONULL) c->dest_null = c->src_null = c->out_null = 0;
    c->alpha = (int)cs_range(cs, 0, 4);
    if (prop == 4) c->alpha = c->alpha & 2; /* alphabets 0 ('a','b') and 2 (blanks): disjoint from the prefill */
    c->cseed = (uint32_t)cs_noise(cs, 0, 0xffffff);
    return 1;
}

/* ---------- content ---------- */
static uint32_t lcg(uint32_t *s) { *s = *s * 1664525u + 1013904223u; return *s >> 8; }

static uint32_t alpha_elem(int alpha, int w, uint32_t *s) {
    static const unsigned char a0[] = {'a', 'b'};
    static const unsigned char a1[] = {'a', 'A', 'b', '1', ' ', '\t', 0xE9, 0x80};
    static const uint32_t w1[] = {'a', 'A', 0xE4, 0xC4, 0xDF, 0x10400, ' ', '1'};
    uint32_t v;
    switch (alpha) {
    case 0: return a0[lcg(s) % 2];
    case 1: return w == 1 ? a1[lcg(s) % 8] : (w == 4 ? w1[lcg(s) % 8] : a1[lcg(s) % 8]);
    case 2: return ' ' + lcg(s) % 2 * ('\t' - ' ') ; /* whitespace only */
    case 4: /* printable ASCII, password-like mix: every punctuation character, letters of both cases, digits */
        v = lcg(s);
        switch (v % 10) {
        case 0: case 1: case 2: return 'a' + (v >> 4) % 26;
        case 3: case 4: case 5: return 'A' + (v >> 4) % 26;
        case 6: return '0' + (v >> 4) % 10;
        default: { static const char sp[] = "!\"#$%&'()*+,-./:;<=>?@[\\]^_`{|}~"; return (unsigned char)sp[(v >> 4) % 32]; }
        }
    default:
        v = lcg(s);
        if (w == 1) { v &= 0xff; if (!v) v = 1; }
        else if (w == 2) { v &= 0xffff; if (!v) v = 1; }
        else { v = v % 0x2ff + 1; }
        return v;
    }
}

static void put_elem(unsigned char *p, int w, size_t i, uint32_t v) {
    if (w == 1) p[i] = (unsigned char)v;
    else if (w == 2) ((uint16_t *)(void *)p)[i] = (uint16_t)v;
    else ((uint32_t *)(void *)p)[i] = v;
}
size_t gc_elem(const unsigned char *p, int w, size_t i) {
    if (w == 1) return p[i];
    if (w == 2) return ((const uint16_t *)(const void *)p)[i];
    return ((const uint32_t *)(const void *)p)[i];
}

static uint32_t ex_symbol(int w, unsigned k) {
    static const uint32_t n1[] = {'a', 'A', 'b', 0xE9, '1', ' ', '\t', 0x80};
    static const uint32_t w4[] = {'a', 'A', 0xE4, 0xC4, 0xDF, 0x10400, ' ', '1'};
    return w == 4 ? w4[k & 7] : n1[k & 7];
}
/* ---------- handlers ---------- */
static gexec_t *g_x;
static void h_str(const char *msg, void *ptr, errno_t err) {
    (void)msg; (void)ptr;
    if (g_x) { if (g_x->h_str + g_x->h_mem < 4) g_x->h_codes[g_x->h_str + g_x->h_mem] = err; g_x->h_str++; g_x->h_code = err; }
}
static void h_mem(const char *msg, void *ptr, errno_t err) {
    (void)msg; (void)ptr;
    if (g_x) { if (g_x->h_str + g_x->h_mem < 4) g_x->h_codes[g_x->h_str + g_x->h_mem] = err; g_x->h_mem++; g_x->h_code = err; }
}
void gh_install(void) {
    set_str_constraint_handler_s(h_str);
    set_mem_constraint_handler_s(h_mem);
}

static void gc_run_inner(const gcase_t *c, gexec_t *x);
void gc_run(const gcase_t *c, gexec_t *x) { g_globstate_calls = 0; g_globstate_sym = NULL; gc_run_inner(c, x); }
static void gc_run_inner(const gcase_t *c, gexec_t *x) {
    const row_t *r = &g_rows[c->row];
    uint32_t s = c->cseed * 2654435761u + 12345;
    size_t i, delems = c->dtrue / (size_t)r->w;
    args_t *a = &x->a;
    int g = c->guard;
    memset(a, 0, sizeof *a);
    x->faulted = 0; x->canary_bad = NULL; x->h_str = x->h_mem = 0; x->h_code = -1; x->errp_val = -12345;
    x->dest = x->src = x->out = x->errp = NULL;
    ar_reset();
    if ((r->fl & F_SRC) && c->src_first && !GC_QALIAS(c)) x->src = ar_alloc(g, c->splace, c->strue, 0); /* lower slot = lower address */
    /* dest */
    x->dest = ar_alloc(g, c->dplace, c->dtrue, (size_t)c->dskew);
    for (i = 0; i < delems; i++) {
        uint32_t v;
        if (c->dcontent == DC_BYTES) { v = lcg(&s); if (c->alpha < 2) v = alpha_elem(c->alpha, r->w, &s); else if (lcg(&s) % 4 == 0) v = 0; }
        else if (c->dcontent == DC_STR && i == c->dlen) v = 0;
        else if (c->dcontent == DC_STR && i < c->dlen) v = alpha_elem(c->alpha, r->w, &s);
        else if (c->dcontent == DC_UNTERM) v = alpha_elem(c->alpha, r->w, &s);
        else { v = (uint32_t)(0x81 + (i % 61)); }        /* position coded garbage 0x81..0xBD, non-zero, disjoint from alphabets 0/2 */
        put_elem(x->dest, r->w, i, v);
    }
    if (c->ex_on && c->dcontent == DC_STR)
        for (i = 0; i < c->dlen && i < 7 && i < delems; i++) put_elem(x->dest, r->w, i, ex_symbol(r->w, c->ex_d[i]));
    memcpy(x->dest_before, x->dest, c->dtrue);
    a->dest = c->dest_null ? NULL : x->dest;
    a->dmax = c->dmax;
    a->destbos = c->dbos ? c->dtrue : BOS_UNKNOWN;
    x->dbytes_decl = c->dmax > c->dtrue ? c->dtrue : c->dmax * (size_t)r->du;
    if (x->dbytes_decl > c->dtrue) x->dbytes_decl = c->dtrue;
    /* src */
    if ((r->fl & F_SRC) && GC_QALIAS(c)) { /* the needle / second operand lies inside the first: nothing is written, so this is a valid call */
        x->src = x->dest + (size_t)c->ov_off * (size_t)r->w;
        memcpy(x->src_before, x->src, c->strue);
        a->src = x->src;
        a->slen = c->slen;
        a->srcbos = c->sbos ? c->strue : BOS_UNKNOWN;
    } else if (r->fl & F_SRC) {
        size_t selems = c->strue / (size_t)r->w;
        if (!c->src_first) x->src = ar_alloc(g, c->splace, c->strue, 0);
        for (i = 0; i < selems; i++) {
            uint32_t v;
            if (c->scontent == SC_STR) v = i < c->slen_true ? alpha_elem(c->alpha, r->w, &s) : (i == c->slen_true ? 0 : (uint32_t)(0x70 + i % 13));
            else if (c->scontent == SC_UNTERM) v = alpha_elem(c->alpha, r->w, &s);
            else { v = lcg(&s); if (c->alpha < 2) v = alpha_elem(c->alpha, r->w, &s); else if (lcg(&s) % 4 == 0) v = 0; }
            put_elem(x->src, r->w, i, v);
        }
        if (c->ex_on && c->scontent == SC_STR)
            for (i = 0; i < c->slen_true && i < 7 && i < selems; i++) put_elem(x->src, r->w, i, ex_symbol(r->w, c->ex_s[i]));
        memcpy(x->src_before, x->src, c->strue);
        a->src = c->src_null ? NULL : x->src;
        a->slen = c->slen;
        a->srcbos = c->sbos ? c->strue : BOS_UNKNOWN;
    }
    a->val = c->val;
    a->n = c->n;
    if (r->out_kind != OUT_NONE) {
        size_t osz = r->out_kind == OUT_INT ? sizeof(int) : sizeof(void *);
        x->out = ar_alloc(g, PL_END, osz, 0);
        memset(x->out, 0x5A, osz);
        memcpy(x->out_before, x->out, osz);
        a->out = c->out_null ? NULL : x->out;
    }
    if (r->ret_kind == RK_PTR_ERRP) {
        x->errp = ar_alloc(g, PL_END, sizeof(errno_t), 0);
        *(errno_t *)(void *)x->errp = -12345;
        a->errp = c->out_null ? NULL : (errno_t *)(void *)x->errp;
    }
    g_x = x;
    AR_GUARDED(r->call(a));
    g_x = NULL;
    if (x->errp) x->errp_val = *(errno_t *)(void *)x->errp;
    x->faulted = g_ar_fault.faulted;
    x->fault_write = g_ar_fault.is_write;
    x->fault_addr = g_ar_fault.addr;
    x->sig = g_ar_fault.sig;
    x->fault_buf = -1;
    x->fault_off = 0;
    if (x->faulted) {
        long off = 0;
        int b = ar_locate(g_ar_fault.addr, &off);
        if (b >= 0) {
            unsigned char *p = g_ar.bufs[b].p;
            x->fault_buf = p == x->dest ? 0 : (p == x->src ? 1 : (p == x->out ? 2 : (p == x->errp ? 3 : -1)));
            x->fault_off = off;
        }
    }
    x->canary_bad = ar_check_canaries();
}

uint64_t gc_hash(const gcase_t *c) {
    uint64_t h = CS_HASH_INIT;
    gcase_t t = *c;
    t.cseed = 0;
    h = cs_hash_bytes(h, &t, sizeof t);
    return h;
}

void gc_describe(const void *kase, char *buf, size_t n) {
    const gcase_t *c = (const gcase_t *)kase;
    const row_t *r = &g_rows[c->row];
    static const char *dk[] = {"exact", "roomy", "toldlie", "overmax"};
    static const char *dc[] = {"garbage", "str", "unterm", "bytes"};
    static const char *sc[] = {"str", "unterm", "bytes"};
    static const char *pl[] = {"end", "start", "mid"};
    int k = snprintf(buf, n, "%s(dest=%s dmax=%zu objbytes=%zu[%s] bos=%s place=%s content=%s", r->name,
                     c->dest_null ? "NULL" : "buf", c->dmax, c->dtrue, dk[c->dkind], c->dbos ? "exact" : "unknown",
                     pl[c->dplace], dc[c->dcontent]);
    if (c->dcontent == DC_STR && k < (int)n) k += snprintf(buf + k, n - (size_t)k, " dlen=%zu", c->dlen);
    if ((r->fl & F_SRC) && k < (int)n) {
        k += snprintf(buf + k, n - (size_t)k, "; src=%s objbytes=%zu bos=%s content=%s", c->src_null ? "NULL" : "buf", c->strue,
                      c->sbos ? "exact" : "unknown", sc[c->scontent]);
        if (c->scontent == SC_STR && k < (int)n) k += snprintf(buf + k, n - (size_t)k, " len=%zu", c->slen_true);
        if ((r->fl & F_SLEN) && k < (int)n) k += snprintf(buf + k, n - (size_t)k, " slen=%zu", c->slen);
    }
    if (GC_QALIAS(c) && k < (int)n) k += snprintf(buf + k, n - (size_t)k, "; src = dest + %d (the second operand is a tail of the first)", (int)c->ov_off);
    if ((r->fl & F_N) && k < (int)n) k += snprintf(buf + k, n - (size_t)k, "; n=%zu", c->n);
    if ((r->fl & F_VAL) && k < (int)n) k += snprintf(buf + k, n - (size_t)k, "; val=%ld", c->val);
    if (c->out_null && k < (int)n) k += snprintf(buf + k, n - (size_t)k, "; out=NULL");
    if (c->ex_on && k < (int)n) k += snprintf(buf + k, n - (size_t)k, "; explicit d=[%u %u %u %u] s=[%u %u %u %u]", c->ex_d[0], c->ex_d[1], c->ex_d[2], c->ex_d[3], c->ex_s[0], c->ex_s[1], c->ex_s[2], c->ex_s[3]);
    if (c->src_first && k < (int)n) k += snprintf(buf + k, n - (size_t)k, "; src-below-dest");
    if (k < (int)n) snprintf(buf + k, n - (size_t)k, "; alpha=%d cseed=%u guard=%s)", c->alpha, c->cseed, c->guard == G_RO ? "RO" : "NA");
}
