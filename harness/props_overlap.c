/* props_overlap.c -- C07: every relative placement of src and dest inside one object */
#include "model.h"

#define OV_TOTAL 720          /* elements in the shared object: dest at 200, src up to 198 further, operands up to 132+1 elements, and room behind */
#define OV_DEST 200           /* dest starts here */

typedef struct ocase {
    int row;
    size_t dmax;      /* declared (dmax units) */
    long off;         /* src - dest in elements */
    size_t slen;      /* declared slen / n */
    size_t slen_true; /* source string length */
    size_t dlen;      /* dest string length (CAT rows) */
    int dbos, sbos;
    long val;         /* memccpy_s stop character */
    int stopat;       /* memccpy_s: index of stop char in src, or >= n for absent */
    uint32_t cseed;
} ocase_t;

static int ov_rows[32], ov_nrows;
static void ov_init_rows(void) {
    int i;
    if (ov_nrows) return;
    for (i = 0; i < g_nrows; i++)
        if (g_rows[i].fam == FAM_COPY || g_rows[i].fam == FAM_CAT || g_rows[i].fam == FAM_MEMCPY) ov_rows[ov_nrows++] = i;
}

static int gen_c07(cs_t *cs, void *k, const runcfg_t *cfg) {
    ocase_t *c = k;
    const row_t *r;
    long maxsz, span;
    ov_init_rows();
    if (cfg->row_filter) { const row_t *rr = row_by_name(cfg->row_filter); if (!rr) return 0; c->row = (int)(rr - g_rows); }
    else c->row = ov_rows[cs_range(cs, 0, ov_nrows - 1)];
    r = &g_rows[c->row];
    if (cfg->phase == 0) maxsz = 5;
    else {
        static const long big[] = {12, 12, 12, 0x1f, 0x20, 0x21, 0x22, 63, 64, 65, 66, 127, 128, 129, 130};
        maxsz = cfg->tier ? big[cs_range(cs, 0, 14)] : big[cs_range(cs, 0, 6)];
    }
    if (maxsz <= 12) c->dmax = (size_t)cs_range(cs, 1, maxsz);
    else c->dmax = (size_t)cs_range(cs, maxsz - 3, maxsz);
    if (r->du < r->w) c->dmax *= (size_t)(r->w / r->du);   /* byte-counted dmax of the 16/32-bit rows */
    if (r->fl & (F_SLEN | F_N)) c->slen = maxsz <= 12 ? (size_t)cs_range(cs, 0, maxsz + 1) : (size_t)cs_range(cs, 0, maxsz + 2);
    if (r->fl & F_SRCSTR) c->slen_true = maxsz <= 12 ? (size_t)cs_range(cs, 0, maxsz + 1) : (size_t)cs_range(cs, 0, maxsz + 2);
    if (r->fl & F_DIN) { size_t n = c->dmax; c->dlen = (size_t)cs_range(cs, 0, (long)n - 1); }
    span = (long)(c->dmax * (size_t)r->du / (size_t)r->w) + (long)(c->slen > c->slen_true ? c->slen : c->slen_true) + 1;
    if (span > OV_DEST - 2) span = OV_DEST - 2;
    c->off = cs_range(cs, -span, span);
    if (cfg->phase == 0) { c->dbos = (int)cs_noise(cs, 0, 1); c->sbos = (int)cs_noise(cs, 0, 1); }
    else { c->dbos = (int)cs_range(cs, 0, 1); c->sbos = (int)cs_range(cs, 0, 1); }
    if (!strcmp(r->name, "memccpy_s")) { c->val = cs_range(cs, 0, 1) ? 'c' : 0; c->stopat = (int)cs_range(cs, 0, (long)c->slen + 1); }
    c->cseed = (uint32_t)cs_noise(cs, 0, 0xffffff);
    return 1;
}

static void ov_describe(const void *k, char *buf, size_t n) {
    const ocase_t *c = k;
    const row_t *r = &g_rows[c->row];
    snprintf(buf, n, "%s(dmax=%zu, src=dest%+ld elements, slen/n=%zu, srclen=%zu, destlen=%zu, destbos=%s, srcbos=%s, stop=%ld@%d, cseed=%u)", r->name, c->dmax,
             c->off, c->slen, c->slen_true, c->dlen, c->dbos ? "known" : "unknown", c->sbos ? "known" : "unknown", c->val, c->stopat, c->cseed);
}

static int h_count, h_code;
static void ov_handler(const char *msg, void *ptr, errno_t err) { (void)msg; (void)ptr; h_count++; h_code = err; }

static mref_t M;
static unsigned char snap[OV_TOTAL * 4], after[OV_TOTAL * 4];

static int is_move(const char *nm) { return strstr(nm, "memmove") != NULL; }
static int same_ptr_ok(const char *nm) {
    static const char *ok[] = {"strcpy_s", "wcscpy_s", "stpcpy_s", "stpncpy_s", "memcpy_s", "memcpy16_s", "memcpy32_s", "wmemcpy_s", 0};
    int i;
    for (i = 0; ok[i]; i++) if (!strcmp(ok[i], nm)) return 1;
    return 0;
}
static const char *zname(int z) { return z == 0 ? "disjoint" : z == 1 ? "hard-overlap" : z == 2 ? "partial-overlap" : "same-pointer"; }

/* prop 7: the overlap oracle. prop 4 / 5: the same aliasing placements judged by C04's clearing rule / C05's
   reporting rule only (modules C07C, C07H), so that a clearing or reporting defect that needs overlapping operands
   is a finding of the property that states it and is not masked by an overlap verdict */
static void exec_ov(const void *k, res_t *r, const runcfg_t *cfg, int prop) {
    const ocase_t *c = k;
    const row_t *row = &g_rows[c->row];
    int w = row->w;
    size_t n = c->dmax * (size_t)row->du / (size_t)w;     /* dest elements */
    size_t total = OV_TOTAL, i;
    unsigned char *obj, *dest, *src;
    long so = OV_DEST + c->off;
    uint32_t s = c->cseed * 2654435761u + 99;
    args_t a;
    gcase_t g;
    errno_t errv = -12345;
    size_t rn, wn, woff;
    long code;
    int failed, zone, noslack = cfg->libcfg && strstr(cfg->libcfg, "noslack");
    size_t sl;
    r->hash = cs_hash_bytes(CS_HASH_INIT, c, offsetof(ocase_t, cseed));
    if (so < 1 || n == 0) { res_label(r, "skipped"); return; }
    ar_reset();
    obj = ar_alloc(G_NA, PL_END, total * (size_t)w, 0);
    dest = obj + (size_t)OV_DEST * (size_t)w;
    src = obj + (size_t)so * (size_t)w;
    /* contents: garbage, then the dest string (CAT rows), then the source last */
#define PUT(p, idx, v) do { if (w == 1) (p)[idx] = (unsigned char)(v); else if (w == 2) ((uint16_t *)(void *)(p))[idx] = (uint16_t)(v); else ((uint32_t *)(void *)(p))[idx] = (uint32_t)(v); } while (0)
    for (i = 0; i < total; i++) PUT(obj, i, 0x81 + (i % 61));
    if (row->fl & F_DIN) { for (i = 0; i < c->dlen; i++) PUT(dest, i, 'd'); PUT(dest, c->dlen, 0); }
    if (row->fl & F_SRCSTR) { for (i = 0; i < c->slen_true; i++) { s = s * 1664525u + 1013904223u; PUT(src, i, 's' + ((s >> 12) & 1)); } PUT(src, c->slen_true, 0); }
    else {
        size_t cnt = c->slen;
        for (i = 0; i < cnt; i++) { s = s * 1664525u + 1013904223u; PUT(src, i, (w == 1 ? 'A' + ((s >> 12) % 20) : 0x4100 + ((s >> 12) % 200))); }
        if (!strcmp(row->name, "memccpy_s")) { for (i = 0; i < cnt; i++) if (src[i] == (unsigned char)c->val) src[i] = 'x'; if (c->stopat >= 0 && (size_t)c->stopat < cnt) src[c->stopat] = (unsigned char)c->val; }
    }
    memcpy(snap, obj, total * (size_t)w);
    /* reference on the snapshot */
    memset(&g, 0, sizeof g);
    g.row = c->row; g.dmax = c->dmax; g.dtrue = (total - OV_DEST) * (size_t)w; g.slen = c->slen; g.n = c->slen; g.val = c->val;
    g.strue = (total - (size_t)so) * (size_t)w; g.scontent = (row->fl & F_SRCSTR) ? SC_STR : SC_BYTES; g.dcontent = (row->fl & F_DIN) ? DC_STR : DC_GARBAGE;
    g.slen_true = c->slen_true; g.dlen = c->dlen;
    g_model_noslack = cfg->libcfg && strstr(cfg->libcfg, "noslack") != NULL;
    ref_model(row, &g, snap + (size_t)OV_DEST * (size_t)w, snap + (size_t)so * (size_t)w, &M);
    if (!M.known) { res_label(r, "model:declines"); return; }
    /* elements read by the reference */
    sl = 0;
    if (row->fl & F_SRCSTR) {
        const unsigned char *s0 = snap + (size_t)so * (size_t)w;
        size_t lim = (row->fl & F_SLEN) ? c->slen : total - (size_t)so;
        while (sl < lim && gc_elem(s0, w, sl)) sl++;
        rn = sl < lim ? sl + 1 : sl;
    } else if (!strcmp(row->name, "memccpy_s")) rn = c->slen; /* the declared n bytes are the source object */
    else rn = c->slen * (size_t)row->su / (size_t)w;
    /* elements the reference writes (result incl. terminator) */
    woff = 0;
    if (M.expect == MX_FAIL) wn = n;
    else if (row->fam == FAM_CAT) { woff = c->dlen; wn = sl + 1; { const unsigned char *d0 = snap + (size_t)OV_DEST * (size_t)w; size_t dl = 0; while (dl < n && gc_elem(d0, w, dl)) dl++; woff = dl; } }
    else wn = M.cmp_elems < n ? M.cmp_elems : n;
    if (row->fam == FAM_MEMCPY && strcmp(row->name, "memccpy_s")) wn = c->slen * (size_t)row->su / (size_t)w;
    {
        long d0i = OV_DEST, d1i = OV_DEST + (long)n, w0 = OV_DEST + (long)woff, w1 = w0 + (long)wn, r0 = so, r1 = so + (long)rn;
        int dis = (r1 <= d0i || r0 >= d1i || rn == 0);
        int hard = !(r1 <= w0 || r0 >= w1) && rn > 0 && wn > 0;
        zone = c->off == 0 ? 3 : (dis ? 0 : (hard ? 1 : 2));
    }
    a = (args_t){0};
    a.dest = dest; a.dmax = c->dmax; a.destbos = c->dbos ? (total - OV_DEST) * (size_t)w : BOS_UNKNOWN;
    a.src = src; a.slen = c->slen; a.n = c->slen; a.srcbos = c->sbos ? (total - (size_t)so) * (size_t)w : BOS_UNKNOWN;
    /* a declared length above the known size of the source object is its own documented constraint (EOVERFLOW), judged by
       C05's module; here the object size is then left unknown so that the call is about the overlap */
    if (c->sbos && c->slen * (size_t)row->su > (total - (size_t)so) * (size_t)w) a.srcbos = BOS_UNKNOWN;
    a.val = c->val; a.errp = &errv;
    h_count = 0; h_code = -1;
    set_str_constraint_handler_s(ov_handler); set_mem_constraint_handler_s(ov_handler);
    AR_GUARDED(row->call(&a));
    r->nontrivial = zone != 0 || (so + (long)rn == OV_DEST || so == OV_DEST + (long)n || so + (long)rn + 1 == OV_DEST || so == OV_DEST + (long)n + 1);
    res_label(r, zone == 0 ? "zone:disjoint" : zone == 1 ? "zone:hard-overlap" : zone == 2 ? "zone:partial-overlap" : "zone:same-pointer");
    if (g_ar_fault.faulted) {
        RES_VIOL(r, "C07:%s:ran-past-operand:%s", row->name, zname(zone));
        RES_DETAIL(r, "%s fault at object%+ld", g_ar_fault.is_write ? "store" : "load", (long)(g_ar_fault.addr - (uintptr_t)obj));
        if (g_ar_fault.sig != SIGSEGV) r->fragile = 1;
        return;
    }
    memcpy(after, obj, total * (size_t)w);
    if (row->ret_kind == RK_PTR_ERRP) { failed = errv != EOK; code = errv; }
    else { failed = a.ret != EOK; code = a.ret; }
    if (prop == 5) {
        r->nontrivial = failed || zone != 0;
        if (h_count > 1) { RES_VIOL(r, "C05:%s:handler-invoked-%d-times:aliasing-%s", row->name, h_count, zname(zone)); RES_DETAIL(r, "handler ran %d times (last code %d), the call returned %ld", h_count, h_code, code); }
        else if (failed && h_count == 0) { RES_VIOL(r, "C05:%s:failure-without-handler:aliasing-%s", row->name, zname(zone)); RES_DETAIL(r, "the call failed with code %ld but no constraint handler ran", code); }
        else if (!failed && h_count) { RES_VIOL(r, "C05:%s:handler-but-success:aliasing-%s", row->name, zname(zone)); RES_DETAIL(r, "handler ran with code %d but the call reported success", h_code); }
        else if (failed && h_code != code) { RES_VIOL(r, "C05:%s:handler-code-differs:aliasing-%s", row->name, zname(zone)); RES_DETAIL(r, "handler got %d, the call returned %ld", h_code, code); }
        return;
    }
    if (prop == 4) {
        const unsigned char *d1 = after + (size_t)OV_DEST * (size_t)w;
        if (!failed) return;
        r->nontrivial = 1;
        if (gc_elem(d1, w, 0) != 0) { RES_VIOL(r, "C04:%s:dest0-nonzero-after-failure:aliasing-%s", row->name, zname(zone)); RES_DETAIL(r, "dest[0]=0x%zx after failure code %ld", gc_elem(d1, w, 0), code); return; }
        if (!noslack || (row->fl & F_MEM))
            for (i = 0; i < n; i++) if (gc_elem(d1, w, i) != 0) { RES_VIOL(r, "C04:%s:not-all-cleared-after-failure:aliasing-%s", row->name, zname(zone)); RES_DETAIL(r, "dest[%zu]=0x%zx visible after failure code %ld (dmax %zu elements)", i, gc_elem(d1, w, i), code, n); return; }
        return;
    }
    /* nothing outside dest[0,n) may change, whatever happens */
    for (i = 0; i < total; i++)
        if ((i < OV_DEST || i >= OV_DEST + n) && gc_elem(after, w, i) != gc_elem(snap, w, i)) {
            RES_VIOL(r, "C07:%s:wrote-outside-dest:%s", row->name, zname(zone));
            RES_DETAIL(r, "element at dest%+ld changed (dmax elements %zu)", (long)i - OV_DEST, n);
            return;
        }
    if (failed) {
        const unsigned char *d1 = after + (size_t)OV_DEST * (size_t)w;
        int want_ok = (M.expect != MX_FAIL) && (zone == 0 || is_move(row->name));
        if (want_ok) {
            RES_VIOL(r, "C07:%s:%s-rejected-%s", row->name, zname(zone), code == ESOVRLP ? "as-overlapping" : "with-other-code");
            RES_DETAIL(r, "operands %s but the call failed with code %ld", is_move(row->name) ? "may overlap for this function" : "are disjoint", code);
            return;
        }
        /* dest cleared: first element zero; all dmax zero in the default build */
        if (gc_elem(d1, w, 0) != 0) {
            RES_VIOL(r, "C07:%s:not-cleared-after-failure:%s", row->name, zname(zone));
            RES_DETAIL(r, "dest[0]=0x%zx after failure code %ld", gc_elem(d1, w, 0), code);
            return;
        }
        if (!noslack || (row->fl & F_MEM))
            for (i = 0; i < n; i++) if (gc_elem(d1, w, i) != 0) {
                RES_VIOL(r, "C07:%s:not-cleared-after-failure:%s", row->name, zname(zone));
                RES_DETAIL(r, "dest[%zu]=0x%zx after failure code %ld", i, gc_elem(d1, w, i), code);
                return;
            }
        res_label(r, "ret:failure");
        return;
    }
    res_label(r, "ret:success");
    if (zone == 3 && rn == 0 && !is_move(row->name)) { res_label(r, "same-pointer-nothing-read"); return; } /* slen 0: no element is read, either outcome is fine */
    if (M.expect == MX_FAIL && !(zone == 3 && same_ptr_ok(row->name))) { res_label(r, "truncated-success(C06 matter)"); return; }
    if (!is_move(row->name) && (zone == 1 || (zone == 3 && !same_ptr_ok(row->name)))) {
        RES_VIOL(r, "C07:%s:overlap-not-detected:%s", row->name, zname(zone));
        RES_DETAIL(r, "elements written [dest+%zu,+%zu) and read [dest%+ld,+%zu) intersect but the call returned success", woff, wn, c->off, rn);
        return;
    }
    if (zone == 3 && !is_move(row->name)) {
        /* documented special case: identical pointers, contents must be unchanged */
        for (i = 0; i < n; i++) if (gc_elem(after + (size_t)OV_DEST * (size_t)w, w, i) != gc_elem(snap + (size_t)OV_DEST * (size_t)w, w, i)) {
            /* slack nulling behind the terminator is allowed */
            size_t q, term = n;
            for (q = 0; q < n; q++) if (gc_elem(snap + (size_t)OV_DEST * (size_t)w, w, q) == 0) { term = q; break; }
            if ((row->fl & F_DSTR) && i > term && gc_elem(after + (size_t)OV_DEST * (size_t)w, w, i) == 0) continue;
            RES_VIOL(r, "C07:%s:same-pointer-changed-contents", row->name);
            RES_DETAIL(r, "dest[%zu] changed although dest == src", i);
            return;
        }
        return;
    }
    /* success: exactly the copy-through-a-temporary result */
    for (i = 0; i < M.cmp_elems && i < n; i++)
        if (gc_elem(after + (size_t)OV_DEST * (size_t)w, w, i) != gc_elem(M.dest, w, i)) {
            RES_VIOL(r, "C07:%s:corrupted-copy:%s", row->name, zname(zone));
            RES_DETAIL(r, "dest[%zu]=0x%zx, copy-through-temporary gives 0x%zx", i, gc_elem(after + (size_t)OV_DEST * (size_t)w, w, i), gc_elem(M.dest, w, i));
            return;
        }
}

static void ov_init(const runcfg_t *cfg) { (void)cfg; }
static void exec_c07(const void *k, res_t *r, const runcfg_t *cfg) { exec_ov(k, r, cfg, 7); }
static void exec_c07c(const void *k, res_t *r, const runcfg_t *cfg) { exec_ov(k, r, cfg, 4); }
static void exec_c07h(const void *k, res_t *r, const runcfg_t *cfg) { exec_ov(k, r, cfg, 5); }

const module_t mod_C07 = {"C07", sizeof(ocase_t), 1, {1500000, 20000000}, ov_init, gen_c07, exec_c07, ov_describe,
                          "22 copy/concatenate/memcpy/memmove rows; src placed at every element offset relative to dest inside one object (phase 0: all offsets x dmax<=5 x slen<=6 x source length<=6 exhaustively; "
                          "random phase: sizes up to 12 and around 0x20 / 64..130); non-trivial = operand extents intersect, or are adjacent (gap <= 1 element); distinct by decoded placement and sizes"};
const module_t mod_C07C = {"C07C", sizeof(ocase_t), 1, {1500000, 20000000}, ov_init, gen_c07, exec_c07c, ov_describe,
                           "the aliasing placements of module C07 (src at every element offset relative to dest inside one object), judged by the clearing rule: after a failure dest[0] is zero and, in the null-slack build, all dmax elements are; non-trivial = the call failed"};
const module_t mod_C07H = {"C07H", sizeof(ocase_t), 1, {1500000, 20000000}, ov_init, gen_c07, exec_c07h, ov_describe,
                           "the aliasing placements of module C07, judged by the reporting rule: a failing call invokes the handler exactly once with the code it returns, a succeeding one never; non-trivial = the call failed or the operands are not disjoint"};
