/* props_conv.c -- C15: multibyte <-> wide conversions agree with the C library and round-trip
 *
 * Rows: mbstowcs_s mbsrtowcs_s wcstombs_s wcsrtombs_s wcrtomb_s wctomb_s, plus two composite rows
 *   roundtrip : wide -> multibyte -> wide with the plain or the restartable pair
 *   query     : size query (dest NULL), then the converting call sized from the answer
 *
 * Oracle = the corresponding libc function in the same locale, run on private buffers with the
 * limit "space available" (min(len, dmax)), see judge_str()/judge_chr(). What neither the property
 * nor the doc comments fix is accepted either way (error codes, *retvalp after a failure, exact fit
 * of wcrtomb_s/wctomb_s, size query with dmax 0, len > known object size).
 */
#define _GNU_SOURCE
#include "pbt.h"
#include <wchar.h>
#include <locale.h>
#include <errno.h>
#include <limits.h>
#include "safe_str_lib.h"
#include "safe_mem_lib.h"

enum { FN_MBSTOWCS, FN_MBSRTOWCS, FN_WCSTOMBS, FN_WCSRTOMBS, FN_WCRTOMB, FN_WCTOMB, OP_ROUNDTRIP, OP_QUERY, N_OPS };
static const char *const op_name[N_OPS] = {"mbstowcs_s", "mbsrtowcs_s", "wcstombs_s", "wcsrtombs_s", "wcrtomb_s", "wctomb_s", "roundtrip", "query"};

#define MAXSYM 8
#define MAXMB (MAXSYM * 4)
#define DMAX_CAP 80
#define AMPLE 64
#define BIGLEN 1000 /* <= RSIZE_MAX_WSTR, so never a documented ESLEMAX */

typedef struct ccase {
    int op;
    int sub;         /* roundtrip: 0 plain pair, 1 restartable pair; query: function 0..3 */
    int loc;         /* 0 "C", 1 "C.utf8" */
    int nsym;        /* characters / sequences in the source */
    int mbn;         /* bytes in mb[] */
    unsigned char mb[MAXMB + 4];  /* multibyte source (mb -> wide rows) */
    uint32_t ws[MAXSYM + 1];      /* wide source (wide -> mb rows); ws[0] = the character of wcrtomb_s/wctomb_s */
    int destnull;
    int bos_known;   /* destbos = exact object size, else BOS_UNKNOWN */
    int prior_fail;  /* the call is repeated after a failed conversion with the same state object */
    long dmax, len;  /* roundtrip: extra room / len variant; query: dmax of the query / len of the query */
} ccase_t;

static int is_mb_src(int op, int sub) { return op == FN_MBSTOWCS || op == FN_MBSRTOWCS || (op == OP_QUERY && sub < 2); }
static int is_single(int op) { return op == FN_WCRTOMB || op == FN_WCTOMB; }

/* ---- pure helpers for the generator ---- */
static int u8_enc(uint32_t cp, unsigned char *o) {
    if (cp < 0x80) { o[0] = (unsigned char)cp; return 1; }
    if (cp < 0x800) { o[0] = (unsigned char)(0xC0 | (cp >> 6)); o[1] = (unsigned char)(0x80 | (cp & 0x3F)); return 2; }
    if (cp < 0x10000) { o[0] = (unsigned char)(0xE0 | (cp >> 12)); o[1] = (unsigned char)(0x80 | ((cp >> 6) & 0x3F)); o[2] = (unsigned char)(0x80 | (cp & 0x3F)); return 3; }
    o[0] = (unsigned char)(0xF0 | ((cp >> 18) & 7)); o[1] = (unsigned char)(0x80 | ((cp >> 12) & 0x3F)); o[2] = (unsigned char)(0x80 | ((cp >> 6) & 0x3F)); o[3] = (unsigned char)(0x80 | (cp & 0x3F));
    return 4;
}
static int u8_len(uint32_t cp) { return cp < 0x80 ? 1 : cp < 0x800 ? 2 : cp < 0x10000 ? 3 : cp < 0x200000 ? 4 : cp < 0x4000000 ? 5 : 6; }

/* a valid scalar value by class; phase 0 uses the four fixed representatives */
static uint32_t gen_scalar(cs_t *cs, int klass, int fixed) {
    static const uint32_t rep[4] = {'a', 0xE9, 0x20AC, 0x10400};
    if (fixed) return rep[klass];
    switch (klass) {
    case 0: return (uint32_t)cs_range(cs, 0x20, 0x7e);
    case 1: return (uint32_t)cs_range(cs, 0x80, 0x7ff);
    case 2: { uint32_t v = (uint32_t)cs_range(cs, 0x800, 0xffff - 0x800); return v >= 0xD800 ? v + 0x800 : v; }
    default: { uint32_t v = (uint32_t)cs_range(cs, 0x10000, 0x10ffff + 0x8000); return v > 0x10ffff ? 0xE0000 + (v & 0x7f) : v; } /* ~3%: tag characters, which glibc's C locale converts to nothing */
    }
}

/* invalid multibyte sequences */
static const struct { unsigned char b[4]; int n; } bad_mb[] = {
    {{0x80}, 1},                   /* lone continuation */
    {{0xC3}, 1},                   /* lead byte without continuation (truncated when last) */
    {{0xC0, 0x80}, 2},             /* overlong */
    {{0xED, 0xA0, 0x80}, 3},       /* surrogate */
    {{0xF4, 0x90, 0x80, 0x80}, 4}, /* > U+10FFFF (glibc's UTF-8 accepts it; the oracle is libc) */
    {{0xE2, 0x82}, 2},             /* truncated 3-byte */
    {{0xFF}, 1},
};
#define N_BAD_MB 7
/* wide values that are not characters (libc decides per locale) */
static const uint32_t bad_w[] = {0xD800, 0x110000, 0xDFFF, 0x7fffffff, 0x80000000u, 0xffffffffu};
#define N_BAD_W 6

static int gen_source(cs_t *cs, ccase_t *c, int ph0, int mbsrc) {
    int i, allow_bad, nominal = 0;
    c->nsym = (int)cs_range(cs, 0, ph0 ? 3 : MAXSYM);
    allow_bad = ph0 ? 1 : cs_range(cs, 0, 2) == 0;
    c->mbn = 0;
    for (i = 0; i < c->nsym; i++) {
        int kind = ph0 ? (int)cs_range(cs, 0, 5) : (int)cs_range(cs, 0, allow_bad ? 9 : 7), bad2 = 0;
        if (!ph0) kind = kind < 8 ? (kind & 3) : 4; /* classes 0..3 twice, then "invalid" */
        else if (kind == 5) { kind = 4; bad2 = 1; }  /* phase 0: two invalid symbols (0x80 / truncated E2 82; wide 0xD800 / 0x110000) */
        if (kind < 4) {
            uint32_t cp = gen_scalar(cs, kind, ph0 || (!ph0 && cs_range(cs, 0, 1)));
            if (!mbsrc && !c->loc && (cp >> 7) == (0xE0000 >> 7)) cp += 0x80; /* C locale: glibc converts tag characters to nothing and trips over its own assertion */
            if (mbsrc) c->mbn += u8_enc(cp, c->mb + c->mbn);
            else c->ws[i] = cp;
            nominal += mbsrc ? 1 : (c->loc ? u8_len(cp) : 1);
        } else if (mbsrc) {
            int b = ph0 ? (bad2 ? 5 : 0) : (int)cs_range(cs, 0, N_BAD_MB - 1);
            memcpy(c->mb + c->mbn, bad_mb[b].b, (size_t)bad_mb[b].n);
            c->mbn += bad_mb[b].n;
            nominal += 1;
        } else {
            uint32_t v = bad_w[ph0 ? bad2 : cs_range(cs, 0, N_BAD_W - 1)];
            c->ws[i] = v;
            nominal += c->loc ? u8_len(v & 0x7fffffff) : 1;
        }
    }
    return nominal; /* nominal converted length, used only to centre dmax/len */
}

static int gen_c15(cs_t *cs, void *k, const runcfg_t *cfg) {
    ccase_t *c = k;
    int ph0 = cfg->phase == 0, T, i;
    if (cfg->row_filter) {
        for (i = 0; i < N_OPS; i++) if (!strcmp(op_name[i], cfg->row_filter)) break;
        if (i == N_OPS) return 0;
        c->op = i;
    } else if (ph0) c->op = (int)cs_range(cs, 0, N_OPS - 1);
    else { static const long w[] = {0, 1, 2, 3, 0, 1, 2, 3, 0, 1, 2, 3, 4, 5, 6, 7}; c->op = (int)w[cs_range(cs, 0, 15)]; }
    c->loc = (int)cs_range(cs, 0, 1);

    if (is_single(c->op)) {
        int kind = (int)cs_range(cs, 0, ph0 ? 6 : 9);
        c->nsym = 1;
        if (kind == 0) c->ws[0] = 0;
        else if (kind <= 4) { c->ws[0] = gen_scalar(cs, kind - 1, ph0 || cs_range(cs, 0, 1)); if (!c->loc && (c->ws[0] >> 7) == (0xE0000 >> 7)) c->ws[0] += 0x80; }
        else if (ph0) c->ws[0] = bad_w[kind - 5];
        else c->ws[0] = bad_w[cs_range(cs, 0, N_BAD_W - 1)];
        c->destnull = ph0 ? (int)cs_range(cs, 0, 1) : cs_range(cs, 0, 7) == 0;
        if (!c->destnull) { c->dmax = cs_range(cs, 0, 8); c->bos_known = (int)cs_range(cs, 0, 1); }
        c->prior_fail = (int)cs_range(cs, 0, 2); /* 2: the failed call was entered with a mid-character state */
        return 1;
    }
    if (c->op == OP_ROUNDTRIP) c->sub = (int)cs_range(cs, 0, 1);
    if (c->op == OP_QUERY) c->sub = (int)cs_range(cs, 0, 3);
    T = gen_source(cs, c, ph0, is_mb_src(c->op, c->sub));
    if (c->op == OP_ROUNDTRIP) {
        c->dmax = cs_range(cs, 0, 3);   /* dmax = needed + 1 + this */
        c->len = cs_range(cs, 0, 3);    /* len = needed, needed + 1, dmax + 2, BIGLEN */
        c->bos_known = 0;
        return 1;
    }
    if (c->op == OP_QUERY) {
        static const long ql[] = {0, 1, BIGLEN};
        c->dmax = cs_range(cs, 0, 1) ? AMPLE : 0;
        c->len = ql[cs_range(cs, 0, 2)];
        c->bos_known = (int)cs_range(cs, 0, 1);
        return 1;
    }
    c->destnull = ph0 ? (int)cs_range(cs, 0, 1) : cs_range(cs, 0, 5) == 0;
    if (c->destnull) {
        long ql[3] = {0, T, BIGLEN};
        c->dmax = cs_range(cs, 0, 1) ? AMPLE : 0;
        c->len = ql[cs_range(cs, 0, 2)];
        c->prior_fail = (int)cs_range(cs, 0, 2); /* 2: the failed call was entered with a mid-character state */
        return 1;
    }
    {
        long dm, ln;
        int dk = (int)cs_range(cs, 0, ph0 ? 7 : 10), lk;
        switch (dk) {
        case 0: dm = 0; break;
        case 1: dm = 1; break;
        case 2: dm = 2; break;
        case 3: dm = T - 1; break;
        case 4: dm = T; break;
        case 5: dm = T + 1; break;
        case 6: dm = T + 2; break;
        case 7: dm = T + 5; break;
        case 8: dm = T - 2; break;
        case 9: dm = T + 3; break;
        default: dm = T + 8; break;
        }
        if (dm < 0) return 0;
        lk = (int)cs_range(cs, 0, ph0 ? 9 : 13);
        switch (lk) {
        case 0: ln = 0; break;
        case 1: ln = 1; break;
        case 2: ln = T - 1; break;
        case 3: ln = T; break;
        case 4: ln = T + 1; break;
        case 5: ln = dm - 1; break;
        case 6: ln = dm; break;
        case 7: ln = dm + 1; break;
        case 8: ln = dm + 4; break;
        case 9: ln = BIGLEN; break;
        case 10: ln = T - 2; break;
        case 11: ln = T + 2; break;
        case 12: ln = dm - 2; break;
        default: ln = dm + 9; break;
        }
        if (ln < 0) return 0;
        c->dmax = dm;
        c->len = ln;
        c->bos_known = (int)cs_range(cs, 0, 1);
        c->prior_fail = ph0 ? (int)cs_noise(cs, 0, 2) : (int)cs_range(cs, 0, 2);
    }
    return 1;
}

static void cv_describe(const void *k, char *buf, size_t n) {
    const ccase_t *c = k;
    char s[200];
    int i, p = 0;
    s[0] = 0;
    if (is_single(c->op)) p += snprintf(s + p, sizeof s - (size_t)p, "wc=0x%X", c->ws[0]);
    else if (is_mb_src(c->op, c->sub)) {
        p += snprintf(s + p, sizeof s - (size_t)p, "src=bytes[");
        for (i = 0; i < c->mbn && p < 180; i++) p += snprintf(s + p, sizeof s - (size_t)p, "%s%02X", i ? " " : "", c->mb[i]);
        p += snprintf(s + p, sizeof s - (size_t)p, "]");
    } else {
        p += snprintf(s + p, sizeof s - (size_t)p, "src=wide[");
        for (i = 0; i < c->nsym && p < 180; i++) p += snprintf(s + p, sizeof s - (size_t)p, "%s0x%X", i ? " " : "", c->ws[i]);
        p += snprintf(s + p, sizeof s - (size_t)p, "]");
    }
    if (c->op == OP_ROUNDTRIP)
        snprintf(buf, n, "roundtrip(%s pair, locale=%s, %s, dmax=needed+1+%ld, len variant %ld)", c->sub ? "wcsrtombs_s/mbsrtowcs_s" : "wcstombs_s/mbstowcs_s", c->loc ? "C.utf8" : "C", s, c->dmax, c->len);
    else if (c->op == OP_QUERY)
        snprintf(buf, n, "query(%s, locale=%s, %s, dest=NULL dmax=%ld len=%ld, then converting call dmax=answer+1 len=answer, destbos=%s)", op_name[c->sub], c->loc ? "C.utf8" : "C", s, c->dmax, c->len,
                 c->bos_known ? "known" : "unknown");
    else if (c->destnull)
        snprintf(buf, n, "%s(locale=%s, %s, dest=NULL, dmax=%ld, len=%ld, after-failed-call=%d)", op_name[c->op], c->loc ? "C.utf8" : "C", s, c->dmax, c->len, c->prior_fail);
    else if (is_single(c->op))
        snprintf(buf, n, "%s(locale=%s, %s, dmax=%ld, destbos=%s, after-failed-call=%d)", op_name[c->op], c->loc ? "C.utf8" : "C", s, c->dmax, c->bos_known ? "known" : "unknown", c->prior_fail);
    else
        snprintf(buf, n, "%s(locale=%s, %s, dmax=%ld, len=%ld, destbos=%s, after-failed-call=%d)", op_name[c->op], c->loc ? "C.utf8" : "C", s, c->dmax, c->len, c->bos_known ? "known" : "unknown",
                 c->prior_fail);
}

/* ------------------------------------------------------------------ one library call */
enum { B_DEST, B_SRC, B_RET, B_SRCP, B_PS, B_NONE };
static const char *const buf_name[] = {"dest", "src", "retvalp", "srcp", "ps", "?"};

typedef struct io {
    int fn, destnull, bos_known, keep_errno;
    size_t dmax, len;
    const unsigned char *mb; size_t mbn;   /* NUL-terminated */
    const uint32_t *ws; size_t wn;         /* 0-terminated */
    uint32_t wc;
    mbstate_t ps_in;
    int errno_in;
    /* results */
    int faulted, fsig, fwrite, fbuf; long foff;
    int canary, cbuf; long coff;
    errno_t ret; size_t retval; long srcoff; mbstate_t ps_out; int errno_out;
    unsigned char dest[DMAX_CAP * 4 + 8];
} io_t;

static int h_count;
static void cv_handler(const char *msg, void *ptr, errno_t err) { (void)msg; (void)ptr; (void)err; h_count++; }

static int bufid[2 * AR_NSLOTS];
static unsigned char *alloc_id(size_t sz, int id) { bufid[g_ar.nbufs] = id; return ar_alloc(G_NA, PL_END, sz, 0); }

static unsigned char *a_dest, *a_src, *a_rv, *a_srcp, *a_ps;
static errno_t a_ret;
static int a_errno;
static size_t a_dmax, a_len, a_bos;
static uint32_t a_wc;

static void collect(io_t *io);
static void do_call(io_t *io) {
    int fn = io->fn, wide_dest = fn == FN_MBSTOWCS || fn == FN_MBSRTOWCS, single = is_single(fn);
    int rvar = fn == FN_MBSRTOWCS || fn == FN_WCSRTOMBS;
    size_t elsz = wide_dest ? sizeof(wchar_t) : 1, i;
    ar_reset();
    a_dest = a_src = a_rv = a_srcp = a_ps = NULL;
    if (io->dmax > DMAX_CAP) io->dmax = DMAX_CAP;
    if (!io->destnull) {
        a_dest = alloc_id(io->dmax * elsz, B_DEST);
        if (wide_dest) for (i = 0; i < io->dmax; i++) ((uint32_t *)(void *)a_dest)[i] = 0x5A5A5A01u + (uint32_t)i;
        else for (i = 0; i < io->dmax; i++) a_dest[i] = (unsigned char)(0xB1 + i % 13);
    }
    if (!single) {
        if (wide_dest) { a_src = alloc_id(io->mbn + 1, B_SRC); memcpy(a_src, io->mb, io->mbn); a_src[io->mbn] = 0; }
        else { a_src = alloc_id((io->wn + 1) * sizeof(wchar_t), B_SRC); memcpy(a_src, io->ws, io->wn * sizeof(wchar_t)); ((uint32_t *)(void *)a_src)[io->wn] = 0; }
    }
    a_rv = alloc_id(fn == FN_WCTOMB ? sizeof(int) : sizeof(size_t), B_RET);
    memset(a_rv, 0xEE, fn == FN_WCTOMB ? sizeof(int) : sizeof(size_t));
    if (rvar) { a_srcp = alloc_id(sizeof(void *), B_SRCP); *(unsigned char **)(void *)a_srcp = a_src; }
    if (rvar || fn == FN_WCRTOMB) { a_ps = alloc_id(sizeof(mbstate_t), B_PS); memcpy(a_ps, &io->ps_in, sizeof(mbstate_t)); }
    a_dmax = io->dmax; a_len = io->len; a_wc = io->wc;
    a_bos = (io->destnull || !io->bos_known) ? BOS_UNKNOWN : io->dmax * elsz;
    a_errno = io->keep_errno ? io->errno_in : 0;
    a_ret = -12345;
    h_count = 0;
    set_str_constraint_handler_s(cv_handler);
    set_mem_constraint_handler_s(cv_handler);
    switch (fn) {
    case FN_MBSTOWCS: AR_GUARDED((errno = a_errno, a_ret = _mbstowcs_s_chk((size_t *)(void *)a_rv, (wchar_t *)(void *)a_dest, a_dmax, (const char *)a_src, a_len, a_bos))); break;
    case FN_MBSRTOWCS: AR_GUARDED((errno = a_errno, a_ret = _mbsrtowcs_s_chk((size_t *)(void *)a_rv, (wchar_t *)(void *)a_dest, a_dmax, (const char **)(void *)a_srcp, a_len, (mbstate_t *)(void *)a_ps, a_bos))); break;
    case FN_WCSTOMBS: AR_GUARDED((errno = a_errno, a_ret = _wcstombs_s_chk((size_t *)(void *)a_rv, (char *)a_dest, a_dmax, (const wchar_t *)(void *)a_src, a_len, a_bos))); break;
    case FN_WCSRTOMBS: AR_GUARDED((errno = a_errno, a_ret = _wcsrtombs_s_chk((size_t *)(void *)a_rv, (char *)a_dest, a_dmax, (const wchar_t **)(void *)a_srcp, a_len, (mbstate_t *)(void *)a_ps, a_bos))); break;
    case FN_WCRTOMB: AR_GUARDED((errno = a_errno, a_ret = _wcrtomb_s_chk((size_t *)(void *)a_rv, (char *)a_dest, a_dmax, (wchar_t)a_wc, (mbstate_t *)(void *)a_ps, a_bos))); break;
    default: AR_GUARDED((errno = a_errno, a_ret = _wctomb_s_chk((int *)(void *)a_rv, (char *)a_dest, a_dmax, (wchar_t)a_wc, a_bos))); break;
    }
    io->errno_out = errno;
    collect(io);
}

/* read the results back (separate function: nothing here lives across the sigsetjmp of AR_GUARDED) */
static void collect(io_t *io) {
    int fn = io->fn, wide_dest = fn == FN_MBSTOWCS || fn == FN_MBSRTOWCS;
    int rvar = fn == FN_MBSRTOWCS || fn == FN_WCSRTOMBS;
    size_t elsz = wide_dest ? sizeof(wchar_t) : 1;
    long off;
    io->faulted = g_ar_fault.faulted;
    io->canary = 0;
    io->fbuf = io->cbuf = B_NONE;
    io->foff = io->coff = 0;
    if (io->faulted) {
        int b = ar_locate(g_ar_fault.addr, &off);
        io->fsig = g_ar_fault.sig;
        io->fwrite = g_ar_fault.is_write;
        if (b >= 0) { io->fbuf = bufid[b]; io->foff = off; }
        return;
    }
    {
        unsigned char *bad = ar_check_canaries();
        if (bad) {
            int b = ar_locate((uintptr_t)bad, &off);
            io->canary = 1;
            if (b >= 0) { io->cbuf = bufid[b]; io->coff = off; }
        }
    }
    io->ret = a_ret;
    io->retval = fn == FN_WCTOMB ? (size_t)(long)*(int *)(void *)a_rv : *(size_t *)(void *)a_rv;
    io->srcoff = -2;
    if (rvar) {
        unsigned char *sp = *(unsigned char **)(void *)a_srcp;
        io->srcoff = sp ? (long)(sp - a_src) / (long)(wide_dest ? 1 : sizeof(wchar_t)) : -1;
    }
    memset(&io->ps_out, 0, sizeof io->ps_out);
    if (a_ps) memcpy(&io->ps_out, a_ps, sizeof(mbstate_t));
    if (a_dest) memcpy(io->dest, a_dest, io->dmax * elsz);
}

/* ------------------------------------------------------------------ oracle */
static wchar_t refw[BIGLEN + 128];
static char refb[BIGLEN + 128];

/* the corresponding libc function, fresh state, private buffers. lim <= DMAX_CAP unless dnull. */
static size_t ref_conv(const io_t *io, int dnull, size_t lim, long *off) {
    mbstate_t st;
    memset(&st, 0, sizeof st);
    *off = -2;
    switch (io->fn) {
    case FN_MBSTOWCS: return mbstowcs(dnull ? NULL : refw, (const char *)io->mb, lim);
    case FN_MBSRTOWCS: {
        const char *sp = (const char *)io->mb;
        size_t R = mbsrtowcs(dnull ? NULL : refw, &sp, lim, &st);
        *off = sp ? (long)(sp - (const char *)io->mb) : -1;
        return R;
    }
    case FN_WCSTOMBS: return wcstombs(dnull ? NULL : refb, (const wchar_t *)(const void *)io->ws, lim);
    default: {
        const wchar_t *wp = (const wchar_t *)(const void *)io->ws;
        size_t R = wcsrtombs(dnull ? NULL : refb, &wp, lim, &st);
        *off = wp ? (long)(wp - (const wchar_t *)(const void *)io->ws) : -1;
        return R;
    }
    }
}

#define VIOL(r, fname, cls, sfx) RES_VIOL(r, "C15:%s:%s%s", fname, cls, sfx)

/* memory-safety verdicts common to all rows. returns 1 if a violation was recorded */
static int judge_mem(const io_t *io, res_t *r, const char *szc, const char *sfx) {
    const char *fname = op_name[io->fn];
    char cls[96];
    if (io->faulted) {
        const char *what;
        if (io->fsig != SIGSEGV) {
            long o;
            if (!is_single(io->fn) && io->len <= BIGLEN + 100) (void)ref_conv(io, io->destnull, io->len, &o); /* dies here too if it is glibc's assertion */
            what = "killed-by-signal";
            r->fragile = 1;
        }
        else if (io->fbuf == B_DEST) what = io->fwrite ? (io->foff < 0 ? "store-before-dest" : "store-past-dest") : "load-outside-dest";
        else if (io->fbuf == B_SRC) what = io->fwrite ? "store-into-src-object" : (io->foff < 0 ? "load-before-src" : "load-past-src");
        else if (io->fbuf == B_NONE) what = "wild-access";
        else what = "access-outside-argument-object";
        snprintf(cls, sizeof cls, "%s:%s", what, szc);
        VIOL(r, fname, cls, sfx);
        RES_DETAIL(r, "signal %d, %s at %s%+ld bytes (dest object is %zu bytes)", io->fsig, io->fwrite ? "store" : "load", buf_name[io->fbuf], io->foff,
                   io->destnull ? (size_t)0 : io->dmax * ((io->fn == FN_MBSTOWCS || io->fn == FN_MBSRTOWCS) ? sizeof(wchar_t) : 1));
        return 1;
    }
    if (io->canary) {
        snprintf(cls, sizeof cls, "wrote-outside-%s:%s", buf_name[io->cbuf], szc);
        VIOL(r, fname, cls, sfx);
        RES_DETAIL(r, "byte at %s%+ld changed (outside every argument object)", buf_name[io->cbuf], io->coff);
        return 1;
    }
    return 0;
}

static size_t dest_el(const io_t *io, size_t i) {
    if (io->fn == FN_MBSTOWCS || io->fn == FN_MBSRTOWCS) return ((const uint32_t *)(const void *)io->dest)[i];
    return io->dest[i];
}

/* failure: dest[0] must be 0; `full`: all dmax elements (default build, invalid input) */
static int judge_cleared(const io_t *io, res_t *r, const char *why, int full, const char *sfx) {
    size_t i, n = full ? io->dmax : 1;
    char cls[64];
    for (i = 0; i < n && i < io->dmax; i++)
        if (dest_el(io, i) != 0) {
            snprintf(cls, sizeof cls, "not-cleared-after-%s", why);
            VIOL(r, op_name[io->fn], cls, sfx);
            RES_DETAIL(r, "returned %d but dest[%zu]=0x%zx (dmax %zu)", (int)io->ret, i, dest_el(io, i), io->dmax);
            return 1;
        }
    return 0;
}

enum { EXP_OK, EXP_INVALID, EXP_NOSPC, EXP_EITHER };

static void judge_str(const io_t *io, res_t *r, const char *sfx, int noslack) {
    const char *fname = op_name[io->fn];
    int wide_dest = io->fn == FN_MBSTOWCS || io->fn == FN_MBSRTOWCS, rvar = io->fn == FN_MBSRTOWCS || io->fn == FN_WCSRTOMBS;
    const char *szc = io->destnull ? "null-dest" : io->dmax == 0 ? "dmax=0" : io->len < io->dmax ? "len<dmax" : io->len == io->dmax ? "len==dmax" : "len>dmax";
    size_t R, T, lim, i, elsz = wide_dest ? sizeof(wchar_t) : 1;
    long off, off0;
    int exp;
    char cls[96];
    if (judge_mem(io, r, szc, sfx)) return;
    T = ref_conv(io, 1, io->len, &off0);
    if (io->destnull) {
        if (T == (size_t)-1) {
            res_label(r, "expect:invalid");
            if (io->ret == 0) { VIOL(r, fname, "invalid-accepted:null-dest", sfx); RES_DETAIL(r, "libc reports an encoding error, the call returned 0 with *retvalp=%zd", (ssize_t)io->retval); }
            return;
        }
        res_label(r, "expect:length");
        if (io->ret != 0) {
            /* dest NULL is the documented size query; dmax may be anything, also 0 */
            VIOL(r, fname, T == 0 ? "size-query-rejected:empty-result" : (io->dmax > T ? "size-query-rejected" : "size-query-rejected:dmax<=length"), sfx);
            RES_DETAIL(r, "size query (dest NULL, dmax %zu) of a valid string of converted length %zu returned %d (errno before the call %d)", io->dmax, T, (int)io->ret, io->keep_errno ? io->errno_in : 0);
            return;
        }
        if (io->retval != T) { VIOL(r, fname, "size-query-wrong-length", sfx); RES_DETAIL(r, "*retvalp=%zd, libc says %zu", (ssize_t)io->retval, T); return; }
        if (rvar && io->srcoff != off0) { VIOL(r, fname, "size-query-moved-srcp", sfx); RES_DETAIL(r, "*srcp at %ld, libc leaves it at %ld (-1 = NULL)", io->srcoff, off0); return; }
        res_label(r, "ret:success");
        return;
    }
    if (io->dmax == 0) {
        res_label(r, "expect:dmax0-failure");
        if (io->ret == 0) { VIOL(r, fname, "dmax0-accepted", sfx); RES_DETAIL(r, "dest not NULL, dmax 0, returned 0%s", ""); }
        return;
    }
    lim = io->len < io->dmax ? io->len : io->dmax;
    R = ref_conv(io, 0, lim, &off);
    if (R == (size_t)-1) exp = EXP_INVALID;
    else if (io->len < io->dmax) exp = EXP_OK;
    else if (R >= io->dmax) exp = EXP_NOSPC;
    else if (wide_dest) exp = EXP_OK;                       /* libc stopped below the limit: it stored the terminator */
    else exp = (T != (size_t)-1 && T < io->dmax) ? EXP_OK : EXP_EITHER; /* a multibyte character did not fit: C11 says failure, "libc limited to the space" says R */
    res_label(r, exp == EXP_OK ? "expect:success" : exp == EXP_INVALID ? "expect:invalid" : exp == EXP_NOSPC ? "expect:no-space" : "expect:either");
    if (io->ret != 0) {
        res_label(r, "ret:failure");
        if (exp == EXP_OK) {
            if (io->bos_known && io->len > io->dmax) { res_label(r, "len>known-object-size:rejected(accepted)"); return; }
            if (R == 0) snprintf(cls, sizeof cls, "empty-result-rejected");
            else snprintf(cls, sizeof cls, "valid-rejected:%s", szc);
            VIOL(r, fname, cls, sfx);
            RES_DETAIL(r, "libc converts %zu element(s) within min(len,dmax)=%zu, the call returned %d (*retvalp=%zd)", R, lim, (int)io->ret, (ssize_t)io->retval);
            return;
        }
        if (io->bos_known && io->len > io->dmax) return; /* rejected before converting: clearing there is not this property's matter */
        if (exp == EXP_INVALID) judge_cleared(io, r, "invalid-sequence", !noslack, sfx);
        else judge_cleared(io, r, "no-space", 0, sfx);
        return;
    }
    res_label(r, "ret:success");
    if (exp == EXP_INVALID) { VIOL(r, fname, "invalid-accepted", sfx); RES_DETAIL(r, "libc reports an encoding error within the first %zu, the call returned 0 with *retvalp=%zd", lim, (ssize_t)io->retval); return; }
    if (exp == EXP_NOSPC && io->len <= BIGLEN + 100 && ref_conv(io, 0, io->len, &off0) == (size_t)-1) {
        /* the invalid sequence lies behind the first dmax elements but within len */
        VIOL(r, fname, "invalid-accepted", sfx);
        RES_DETAIL(r, "libc reports an encoding error within the first len=%zu (dmax %zu), the call returned 0 with *retvalp=%zd", io->len, io->dmax, (ssize_t)io->retval);
        return;
    }
    if (exp == EXP_NOSPC) {
        snprintf(cls, sizeof cls, "no-space-accepted:%s", szc);
        VIOL(r, fname, cls, sfx);
        RES_DETAIL(r, "no terminator within the first dmax=%zu converted elements (len %zu), the call returned 0 with *retvalp=%zd", io->dmax, io->len, (ssize_t)io->retval);
        return;
    }
    if (io->retval != R) {
        snprintf(cls, sizeof cls, "wrong-count");
        VIOL(r, fname, cls, sfx);
        RES_DETAIL(r, "*retvalp=%zd, libc limited to %zu gives %zu", (ssize_t)io->retval, lim, R);
        return;
    }
    for (i = 0; i < R; i++) {
        size_t want = wide_dest ? (size_t)(uint32_t)refw[i] : (size_t)(unsigned char)refb[i];
        if (dest_el(io, i) != want) {
            snprintf(cls, sizeof cls, "wrong-characters");
            VIOL(r, fname, cls, sfx);
            RES_DETAIL(r, "dest[%zu]=0x%zx, libc gives 0x%zx (count %zu)", i, dest_el(io, i), want, R);
            return;
        }
    }
    if (dest_el(io, R) != 0) {
        snprintf(cls, sizeof cls, "not-terminated");
        VIOL(r, fname, cls, sfx);
        RES_DETAIL(r, "dest[%zu]=0x%zx after a successful conversion of %zu element(s), dmax %zu", R, dest_el(io, R), R, io->dmax);
        return;
    }
    if (!noslack) { /* C08: the documented nulling of everything behind the terminator */
        for (i = R + 1; i < io->dmax; i++) if (dest_el(io, i) != 0) {
            snprintf(cls, sizeof cls, "stale-slack:%s", szc);
            VIOL(r, fname, cls, sfx);
            RES_DETAIL(r, "dest[%zu]=0x%zx behind the terminator at %zu (dmax %zu): earlier contents of dest are still there", i, dest_el(io, i), R, io->dmax);
            return;
        }
    }
    if (rvar) {
        if (io->srcoff != off) {
            snprintf(cls, sizeof cls, "srcp-not-like-libc");
            VIOL(r, fname, cls, sfx);
            RES_DETAIL(r, "*srcp at element %ld, libc leaves it at %ld (-1 = NULL)", io->srcoff, off);
            return;
        }
        if (off == -1 && !mbsinit(&io->ps_out)) { VIOL(r, fname, "state-not-initial-after-terminator", sfx); RES_DETAIL(r, "conversion reached the terminator but mbsinit(ps)==0%s", ""); return; }
    }
    (void)elsz;
}

static void judge_chr(const io_t *io, res_t *r, const char *sfx, int noslack) {
    const char *fname = op_name[io->fn];
    char tmp[MB_LEN_MAX + 8], cls[96];
    const char *szc;
    mbstate_t st;
    long n;
    size_t i;
    memset(&st, 0, sizeof st);
    memset(tmp, 0x33, sizeof tmp);
    if (io->fn == FN_WCRTOMB) n = (long)wcrtomb(io->destnull ? NULL : tmp, (wchar_t)io->wc, &st);
    else { (void)wctomb(NULL, 0); n = wctomb(io->destnull ? NULL : tmp, (wchar_t)io->wc); }
    szc = io->destnull ? "null-dest" : n < 0 ? "invalid-wc" : io->dmax == 0 ? "dmax=0" : (size_t)n > io->dmax ? "dmax<bytes" : (size_t)n == io->dmax ? "dmax==bytes" : "dmax>bytes";
    if (judge_mem(io, r, szc, sfx)) return;
    if (io->destnull) {
        /* doc: equivalent to converting L'\0' into an internal buffer */
        res_label(r, "expect:success");
        if (io->ret != 0) { VIOL(r, fname, "null-dest-rejected", sfx); RES_DETAIL(r, "dest NULL, dmax 0: returned %d (*retvalp=%zd, errno before the call %d); libc returns %ld", (int)io->ret, (ssize_t)io->retval, io->keep_errno ? io->errno_in : 0, n); return; }
        if ((long)io->retval != n) { VIOL(r, fname, "null-dest-wrong-count", sfx); RES_DETAIL(r, "*retvalp=%zd, libc returns %ld", (ssize_t)io->retval, n); return; }
        if (io->fn == FN_WCRTOMB && !mbsinit(&io->ps_out)) { VIOL(r, fname, "state-not-initial-after-terminator", sfx); RES_DETAIL(r, "mbsinit(ps)==0%s", ""); return; }
        res_label(r, "ret:success");
        return;
    }
    if (io->dmax == 0) {
        res_label(r, "expect:dmax0-failure");
        if (io->ret == 0) { VIOL(r, fname, "dmax0-accepted", sfx); RES_DETAIL(r, "dest not NULL, dmax 0, returned 0%s", ""); }
        return;
    }
    if (n == 0) { res_label(r, "libc-converts-to-nothing(either accepted)"); return; } /* glibc drops U+E0000..U+E007F in the C locale */
    if (n < 0) {
        res_label(r, "expect:invalid");
        if (io->ret == 0) { VIOL(r, fname, "invalid-accepted", sfx); RES_DETAIL(r, "libc rejects 0x%X in this locale, the call returned 0 (*retvalp=%zd)", io->wc, (ssize_t)io->retval); return; }
        res_label(r, "ret:failure");
        judge_cleared(io, r, "invalid-sequence", !noslack, sfx);
        return;
    }
    if ((size_t)n > io->dmax) {
        res_label(r, "expect:no-space");
        if (io->ret == 0) { VIOL(r, fname, "no-space-accepted:dmax<bytes", sfx); RES_DETAIL(r, "%ld bytes needed, dmax %zu, returned 0", n, io->dmax); return; }
        res_label(r, "ret:failure");
        judge_cleared(io, r, "no-space", 0, sfx);
        return;
    }
    if ((size_t)n == io->dmax) res_label(r, "expect:either"); /* exact fit without room for a terminator: the library's own tests expect ESNOSPC, C11 expects success */
    else res_label(r, "expect:success");
    if (io->ret != 0) {
        res_label(r, "ret:failure");
        if ((size_t)n == io->dmax) { judge_cleared(io, r, "no-space", 0, sfx); return; }
        snprintf(cls, sizeof cls, "valid-rejected:%s", io->wc == 0 ? "wc=0" : szc);
        VIOL(r, fname, cls, sfx);
        RES_DETAIL(r, "libc converts 0x%X to %ld byte(s), dmax %zu, the call returned %d", io->wc, n, io->dmax, (int)io->ret);
        return;
    }
    res_label(r, "ret:success");
    if ((long)io->retval != n) { snprintf(cls, sizeof cls, "wrong-count"); VIOL(r, fname, cls, sfx); RES_DETAIL(r, "*retvalp=%zd, libc returns %ld", (ssize_t)io->retval, n); return; }
    for (i = 0; i < (size_t)n; i++)
        if (io->dest[i] != (unsigned char)tmp[i]) {
            snprintf(cls, sizeof cls, "wrong-characters");
            VIOL(r, fname, cls, sfx);
            RES_DETAIL(r, "dest[%zu]=0x%02x, libc gives 0x%02x", i, io->dest[i], (unsigned char)tmp[i]);
            return;
        }
    if (io->fn == FN_WCRTOMB && io->wc == 0 && !mbsinit(&io->ps_out)) { VIOL(r, fname, "state-not-initial-after-terminator", sfx); RES_DETAIL(r, "mbsinit(ps)==0%s", ""); }
}

static void judge(const io_t *io, res_t *r, const char *sfx, int noslack) {
    if (is_single(io->fn)) judge_chr(io, r, sfx, noslack);
    else judge_str(io, r, sfx, noslack);
}

/* libc reference calls run guarded as well: glibc 2.36 has assertions of its own (e.g. wcsrtombs.c:121 with
 * U+E0000..U+E007F in the C locale). A case whose *reference* dies gets no verdict. */
static int libc_died;
#define GUARDED_REF(stmt) do { AR_GUARDED(stmt); if (g_ar_fault.faulted) libc_died = 1; } while (0)

/* a call of the same function that fails on an invalid sequence (in both locales) */
static const unsigned char prior_mb[4] = {0xE2, 0x82, 0xFF, 0}; /* invalid in both locales */ /* in C.utf8 glibc leaves the two pending bytes in *ps */
static const uint32_t prior_ws[2] = {0xD800, 0};
static io_t P;
static int mid_entry(const io_t *io, res_t *r);
static void prior_failed_call(int fn, mbstate_t *ps, int *err, int midchar) {
    memset(&P, 0, sizeof P);
    P.fn = fn; P.dmax = 8;
    if (midchar && fn == FN_MBSRTOWCS) {
        /* the failing call is itself entered with a state in the middle of a character (an earlier restartable call
           consumed E2 82 of a three-byte character), and then meets a byte that cannot continue it */
        static const unsigned char cont_bad[4] = {0xFF, 'z', 'z', 0};
        mbstate_t st;
        memset(&st, 0, sizeof st);
        if (mbrtowc(NULL, "\xE2\x82", 2, &st) == (size_t)-2) {
            P.ps_in = st; P.len = 7; P.mb = cont_bad; P.mbn = 3; P.ws = prior_ws; P.wn = 1; P.wc = 0xD800;
            do_call(&P);
            *ps = P.ps_out;
            *err = P.errno_out;
            return;
        }
    }
    P.len = (fn == FN_MBSTOWCS || fn == FN_MBSRTOWCS) ? 1 : 7; /* len 1: glibc feeds the bytes one at a time and keeps E2 82 pending in *ps when FF fails */
    P.mb = prior_mb; P.mbn = 3; P.ws = prior_ws; P.wn = 1; P.wc = 0xD800;
    do_call(&P);
    *ps = P.ps_out;
    *err = P.errno_out;
}

/* fresh call, then (if asked) the same call again after a failed one, carrying ps and errno over.
 * returns 1 when a violation was recorded */
static int scenario(io_t *io, res_t *r, int prior_fail, int noslack) {
    int nl = r->nlabels;
    memset(&io->ps_in, 0, sizeof io->ps_in);
    io->keep_errno = 0;
    do_call(io);
    GUARDED_REF(judge(io, r, "", noslack));
    if (libc_died) return 1;
    if (!r->violation && mid_entry(io, r)) return 1;
    if (r->violation || !prior_fail) return r->violation;
    {
        mbstate_t ps;
        int e;
        prior_failed_call(io->fn, &ps, &e, prior_fail == 2);
        if (P.faulted || P.ret == 0) { res_label(r, "prior-call-did-not-fail-cleanly"); return 0; }
        io->ps_in = ps;
        io->keep_errno = 1;
        io->errno_in = e ? e : ERANGE; /* whatever errno the caller's earlier code left behind must not change the answer */
        r->nlabels = nl;
        do_call(io);
        if (mbsinit(&ps)) GUARDED_REF(judge(io, r, ":after-failed-call", noslack));
        else {
            /* the failed call left *ps in the middle of a character: whatever goes wrong now is that one defect */
            static res_t t;
            memset(&t, 0, sizeof t);
            GUARDED_REF(judge(io, &t, "", noslack));
            memcpy(r->labels, t.labels, sizeof t.labels);
            r->nlabels = t.nlabels;
            if (t.violation) {
                VIOL(r, op_name[io->fn], "state-not-usable-after-invalid-sequence", "");
                RES_DETAIL(r, "after a call that failed on bytes E2 82 FF mbsinit(ps)==0; the next call with that ps: %.90s (%.180s)", t.key, t.detail);
                r->fragile |= t.fragile;
            }
        }
        res_label(r, "after-failed-call");
    }
    return r->violation || libc_died;
}

static int cur_loc = -1;
/* thr: the encoding in effect is installed as the THREAD's locale (uselocale) over the opposite process-wide locale. libc's
 * converters follow the thread locale; code that asks setlocale(LC_CTYPE, NULL) for the name sees the other one. */
static int cur_thr;
static int set_loc2(int l, int thr) {
    static locale_t lc[2];
    if (cur_loc == l && cur_thr == thr) return 1;
    cur_loc = -1;
    if (thr) {
        if (!lc[l]) lc[l] = newlocale(LC_ALL_MASK, l ? "C.utf8" : "C", (locale_t)0);
        if (!lc[l] || !setlocale(LC_ALL, l ? "C" : "C.utf8")) return 0;
        uselocale(lc[l]);
    } else {
        uselocale(LC_GLOBAL_LOCALE);
        if (!setlocale(LC_ALL, l ? "C.utf8" : "C")) return 0;
    }
    cur_loc = l; cur_thr = thr;
    return 1;
}
static int set_loc(int l) {
    if (cur_loc == l && !cur_thr) return 1;
    uselocale(LC_GLOBAL_LOCALE); cur_thr = 0;
    if (!setlocale(LC_ALL, l ? "C.utf8" : "C")) { cur_loc = -1; return 0; }
    cur_loc = l;
    return 1;
}

/* A restartable conversion may legitimately be ENTERED in the middle of a character: an earlier mbrtowc() on a chunk that
 * ended after E2 82 returned (size_t)-2 and left the two bytes in *ps; the next chunk starts with the continuation byte AC.
 * Reference: glibc's mbsrtowcs with a copy of the same state. Judged where nothing is open: the whole string converts and
 * fits (count < dmax, count < len): EOK, the same count, the same characters, terminated. */
static int mid_entry(const io_t *io, res_t *r) {
    static io_t M;
    static unsigned char tmp[BIGLEN + 140];
    mbstate_t st, st2;
    const char *sp;
    size_t R;
    if (io->fn != FN_MBSRTOWCS || io->destnull || cur_loc != 1 || io->mbn + 2 > sizeof tmp) return 0;
    if (io->bos_known && io->len > io->dmax) return 0; /* len above the known object size: rejected before converting, and rightly so */
    memset(&st, 0, sizeof st);
    if (mbrtowc(NULL, "\xE2\x82", 2, &st) != (size_t)-2) return 0;
    tmp[0] = 0xAC; memcpy(tmp + 1, io->mb, io->mbn); tmp[io->mbn + 1] = 0;
    st2 = st; sp = (const char *)tmp;
    R = mbsrtowcs(refw, &sp, BIGLEN, &st2);
    if (R == (size_t)-1 || sp != NULL || !(R < io->dmax && R < io->len) || io->dmax > DMAX_CAP) return 0;
    M = *io; M.mb = tmp; M.mbn = io->mbn + 1; M.ps_in = st; M.keep_errno = 0;
    do_call(&M);
    res_label(r, "entered-mid-character");
    if (M.faulted) return 0; /* the memory verdicts belong to the plain scenario */
    if (M.ret != EOK || M.retval != R || memcmp(M.dest, refw, (R + 1) * sizeof(wchar_t)) != 0) {
        VIOL(r, op_name[io->fn], "wrong-result-when-entered-mid-character", "");
        RES_DETAIL(r, "*ps holds E2 82 (mbrtowc returned -2), src starts with AC: libc converts %zu characters starting with U+20AC; the call returned %d, count %zu, dest[0]=0x%x", R, (int)M.ret, M.retval, (unsigned)((const uint32_t *)(const void *)M.dest)[0]);
        return 1;
    }
    return 0;
}

static io_t IO, IO2;
static unsigned char rt_mb[DMAX_CAP + 8];
static uint32_t rt_ws[DMAX_CAP + 8];

static int pc_nonascii, pc_invalid, rt_ok;
static size_t rt_T;
static void precalc(const ccase_t *c) {
    int mbsrc = is_mb_src(c->op, c->sub), nonascii = 0, invalid, i;
    if (is_single(c->op)) {
        char t[MB_LEN_MAX + 8];
        mbstate_t st;
        memset(&st, 0, sizeof st);
        nonascii = c->ws[0] > 0x7f;
        invalid = wcrtomb(t, (wchar_t)c->ws[0], &st) == (size_t)-1;
    } else if (mbsrc) {
        for (i = 0; i < c->mbn; i++) if (c->mb[i] >= 0x80) nonascii = 1;
        invalid = mbstowcs(NULL, (const char *)c->mb, 0) == (size_t)-1;
    } else {
        for (i = 0; i < c->nsym; i++) if (c->ws[i] > 0x7f) nonascii = 1;
        invalid = (rt_T = wcstombs(NULL, (const wchar_t *)(const void *)c->ws, 0)) == (size_t)-1;
    }
    pc_nonascii = nonascii;
    pc_invalid = invalid;
}
/* libc itself must round-trip (in the C locale glibc silently drops U+E0000..U+E007F) */
static void libc_roundtrip(const ccase_t *c) {
    size_t m;
    rt_ok = 0;
    if (wcstombs(refb, (const wchar_t *)(const void *)c->ws, AMPLE + 8) != rt_T) return;
    m = mbstowcs(refw, refb, AMPLE + 8);
    rt_ok = m == (size_t)c->nsym && memcmp(refw, c->ws, ((size_t)c->nsym + 1) * sizeof(uint32_t)) == 0;
}

static void exec_inner(const void *k, res_t *r, const runcfg_t *cfg) {
    const ccase_t *c = k;
    int noslack = cfg->libcfg && strstr(cfg->libcfg, "noslack");
    int nonascii, invalid;
    io_t *io = &IO;
    r->hash = cs_hash_bytes(CS_HASH_INIT, c, sizeof *c);
    if (c->op < 0 || c->op >= N_OPS || c->nsym < 0 || c->nsym > MAXSYM || c->mbn < 0 || c->mbn > MAXMB || c->dmax < 0 || c->len < 0) { res_label(r, "skipped"); return; }
    {
        int thr = ((c->dmax * 7 + c->len * 3 + (long)c->op) % 3) == 0; /* a third of the cases, fixed by the case */
        if (!set_loc2(c->loc, thr)) { res_label(r, "locale-unavailable"); return; }
        if (thr) res_label(r, "locale-installed-with-uselocale");
    }
    res_label(r, c->loc ? "locale:C.utf8" : "locale:C");
    res_label(r, c->op == FN_MBSTOWCS ? "row:mbstowcs_s" : c->op == FN_MBSRTOWCS ? "row:mbsrtowcs_s" : c->op == FN_WCSTOMBS ? "row:wcstombs_s" : c->op == FN_WCSRTOMBS ? "row:wcsrtombs_s"
                 : c->op == FN_WCRTOMB ? "row:wcrtomb_s" : c->op == FN_WCTOMB ? "row:wctomb_s" : c->op == OP_ROUNDTRIP ? "row:roundtrip" : "row:query");
    memset(io, 0, sizeof *io);
    io->mb = c->mb; io->mbn = (size_t)c->mbn;
    io->ws = c->ws; io->wn = is_single(c->op) ? 0 : (size_t)c->nsym;
    io->wc = c->ws[0];
    /* non-triviality: a multibyte character in C.utf8, or an invalid sequence (libc's verdict on the whole source) */
    GUARDED_REF(precalc(c));
    if (libc_died) return;
    nonascii = pc_nonascii;
    invalid = pc_invalid;
    r->nontrivial = invalid || (c->loc == 1 && nonascii);
    res_label(r, invalid ? "src:invalid" : nonascii ? "src:multibyte" : "src:ascii");

    if (c->op <= FN_WCTOMB) {
        io->fn = c->op; io->destnull = c->destnull; io->bos_known = c->bos_known;
        io->dmax = (size_t)c->dmax; io->len = (size_t)c->len;
        res_label(r, c->destnull ? "dest:null" : "dest:buffer");
        scenario(io, r, c->prior_fail, noslack);
        return;
    }
    if (c->op == OP_QUERY) {
        size_t n;
        io->fn = c->sub; io->destnull = 1; io->dmax = (size_t)c->dmax; io->len = (size_t)c->len;
        if (scenario(io, r, 0, noslack)) return;
        if (io->ret != 0) { res_label(r, "query:no-answer"); return; }
        n = io->retval;
        if (n > AMPLE) { res_label(r, "query:answer-too-large"); return; }
        r->nlabels = 3;
        IO2 = *io;
        io = &IO2;
        io->destnull = 0; io->bos_known = c->bos_known; io->dmax = n + 1; io->len = n;
        if (scenario(io, r, 0, noslack)) return;
        if (io->ret != 0 || io->retval != n) {
            VIOL(r, op_name[io->fn], "query-answer-not-what-conversion-needs", "");
            RES_DETAIL(r, "query answered %zu; converting call with dmax %zu len %zu returned %d, *retvalp=%zd", n, n + 1, n, (int)io->ret, (ssize_t)io->retval);
        }
        return;
    }
    /* OP_ROUNDTRIP: only for wide strings libc can convert */
    {
        size_t T, n, need;
        if (invalid) { res_label(r, "roundtrip:source-not-convertible"); r->nontrivial = 0; return; }
        T = rt_T;
        if (T > AMPLE) { res_label(r, "skipped"); return; }
        io->fn = c->sub ? FN_WCSRTOMBS : FN_WCSTOMBS;
        io->dmax = T + 1 + (size_t)c->dmax;
        io->len = c->len == 0 ? T : c->len == 1 ? T + 1 : c->len == 2 ? io->dmax + 2 : BIGLEN;
        if (scenario(io, r, 0, noslack)) return;
        if (io->ret != 0) { res_label(r, "roundtrip:first-step-rejected"); return; }
        n = io->retval;
        memcpy(rt_mb, io->dest, n);
        rt_mb[n] = 0;
        r->nlabels = 3;
        IO2 = *io;
        io = &IO2;
        io->fn = c->sub ? FN_MBSRTOWCS : FN_MBSTOWCS;
        io->mb = rt_mb; io->mbn = n;
        need = (size_t)c->nsym;
        io->dmax = need + 1 + (size_t)c->dmax;
        io->len = c->len == 0 ? need : c->len == 1 ? need + 1 : c->len == 2 ? io->dmax + 2 : BIGLEN;
        if (scenario(io, r, 0, noslack)) return;
        if (io->ret != 0) { res_label(r, "roundtrip:second-step-rejected"); return; }
        memcpy(rt_ws, io->dest, (io->retval < DMAX_CAP ? io->retval + 1 : DMAX_CAP) * sizeof(uint32_t));
        GUARDED_REF(libc_roundtrip(c));
        if (libc_died) return;
        if (!rt_ok) { res_label(r, "roundtrip:libc-itself-not-identity"); return; }
        if (io->retval != (size_t)c->nsym || memcmp(rt_ws, c->ws, ((size_t)c->nsym + 1) * sizeof(uint32_t)) != 0) {
            VIOL(r, "roundtrip", c->sub ? "restartable-pair:changed" : "plain-pair:changed", "");
            RES_DETAIL(r, "%d wide character(s) -> %zu byte(s) -> %zu wide character(s), first 0x%X -> 0x%X", c->nsym, n, io->retval, c->ws[0], rt_ws[0]);
        }
    }
}

static void exec_c15(const void *k, res_t *r, const runcfg_t *cfg) {
    libc_died = 0;
    exec_inner(k, r, cfg);
    if (libc_died) {
        r->violation = 0; r->key[0] = 0; r->detail[0] = 0; r->nontrivial = 0; r->nlabels = 0;
        res_label(r, "libc-itself-aborted(no verdict)");
        r->fragile = 1;
    }
}

static void cv_init(const runcfg_t *cfg) {
    (void)cfg;
    set_str_constraint_handler_s(cv_handler);
    set_mem_constraint_handler_s(cv_handler);
}

const module_t mod_C15 = {"C15", sizeof(ccase_t), 1, {5000000, 60000000}, cv_init, gen_c15, exec_c15, cv_describe,
                          "6 conversion functions + roundtrip + query-then-convert rows x locales C / C.utf8; sources of 0..8 characters over 1/2/3/4-byte UTF-8 characters and invalid sequences "
                          "(lone continuation, truncated lead, overlong, surrogate, > U+10FFFF; wide: surrogates, 0x110000, out-of-range values); dmax and len each below/at/above the converted length and "
                          "each other, dest NULL (dmax 0 / ample) or an exact-size guarded buffer, destbos known/unknown, each call also repeated after a failed conversion on the same state "
                          "(phase 0: all sources of <= 3 characters over {a, U+E9, U+20AC, U+10400, two invalid} x 8 dmax x 10 len relations exhaustively); reference = the corresponding libc function limited to "
                          "min(len,dmax); non-trivial = at least one multibyte character in C.utf8, or a source libc rejects as invalid; distinct by the decoded case"};
