/* props_extra.c -- the OS/IO, formatted-output and Unicode rows of properties
 * C01 C02 C03 C04 C05 C06 C08 (the generic rows are in props_generic.c / props_model.c).
 * One case type, one executor; the module chosen (C01X ... C08X) selects which
 * property's oracle judges the observation, so that no finding masks another. */
#define _GNU_SOURCE
#include "fmt.h"
#include "wraps.h"
#include <time.h>
#include <errno.h>
#include <locale.h>
#include <fcntl.h>
#include <unistd.h>
#include "safe_lib.h"

enum { XF_ASCTIME, XF_CTIME, XF_STRERROR, XF_GETENV, XF_GETS, XF_GMTIME, XF_LOCALTIME, XF_PRINTF, XF_WCSFC, XF_WCSNORM, XF_TOWFC, XF_NORMSTEP, XF_FOPEN, XF_FREOPEN, XF_N };
static const char *xfname[] = {"asctime_s", "ctime_s", "strerror_s", "getenv_s", "gets_s", "gmtime_s", "localtime_s", "printf", "wcsfc_s", "wcsnorm_s", "towfc_s", "wcsnorm_step", "fopen_s", "freopen_s"};

typedef struct xcase {
    int fn;
    int dmax;         /* declared size (elements) */
    int dbos;         /* destbos known */
    int dest_null;
    int roomy;        /* object larger than dmax by this many elements (slack must stay untouched) */
    int a, b, c;      /* function specific parameters */
    int src_null;
    fcase_t f;        /* XF_PRINTF */
    uint8_t w[12];    /* symbol indices of a wide source string (UNI rows) */
    int wn;
    int mrun;         /* UNI rows: a run of this many combining marks behind the first character (the reorder/compose steps keep 10 on the stack and grow beyond) */
} xcase_t;

/* characters whose folding / decomposition expands */
static const uint32_t USYM[] = {'a', 'A', 0xDF /* ss */, 0x149 /* 'n */, 0x390 /* 3 */, 0xFB03 /* ffi */, 0xE9 /* e + acute */, 0x1E9B, 0xAC01 /* hangul LVT */, 0x1F80,
                                0x301, 0x323, 0x130, 0x3A3, 0x10400, 0x1D160 /* musical, decomposes */, 0x2000B, ' ',
                                0x110000 /* beyond Unicode: a constraint violation wherever it stands */, 0x7FFFFFFF,
                                'I', 0xCC, 0x12E, 'J' /* as FIRST character these make wcsfc_s consult the locale name (tr, az, lt special casing) */};
#define NUSYM ((int)(sizeof USYM / sizeof USYM[0]))

/* local time is judged in several zones: in UTC alone a conversion that forgets the zone is indistinguishable */
static const char *const XTZ[4] = {"UTC", "EST5", "CET-1", "NPT-5:45"};
static void x_set_tz(int sel) { setenv("TZ", XTZ[sel & 3], 1); tzset(); }

/* wcsfc_s has branches for locales named tr*, az* and lt* (Turkish/Azeri dotless i, Lithuanian dot-above rules). No such
 * locale is installed; the driver clones C.utf8 under those names into $LOCPATH (lib/driver.py), which is all the library
 * looks at. There is no reference result for them: only the memory, termination, clearing, handler and slack rules apply. */
static const char *const XLOC[4] = {NULL, "tr_TR.UTF-8", "lt_LT.UTF-8", "az_AZ.UTF-8"};
static char x_saved_locale[128];
static int x_enter_locale(int sel) {
    const char *cur;
    x_saved_locale[0] = 0;
    if (!XLOC[sel & 3]) return 0;
    cur = setlocale(LC_ALL, NULL);
    if (!cur || strlen(cur) >= sizeof x_saved_locale) return 0;
    strcpy(x_saved_locale, cur);
    if (!setlocale(LC_ALL, XLOC[sel & 3])) { x_saved_locale[0] = 0; return 0; }
    return 1;
}
static void x_leave_locale(void) { if (x_saved_locale[0]) { setlocale(LC_ALL, x_saved_locale); x_saved_locale[0] = 0; } }

static const int DM_TIME[] = {0, 1, 25, 26, 27, 40, 100, 119, 120, 121, 200, 4096, 4097};

static int gen_x(cs_t *cs, void *k, const runcfg_t *cfg) {
    xcase_t *c = k;
    int i;
    c->fn = (int)cs_range(cs, 0, XF_N - 1);
    if (cfg->phase == 0 && c->fn == XF_PRINTF) return 0; /* formatted output: random phase only */
    if (cfg->row_filter) { for (i = 0; i < XF_N; i++) if (!strcmp(xfname[i], cfg->row_filter)) c->fn = i; }
    c->dbos = (int)cs_range(cs, 0, 1);
    c->dest_null = cfg->phase ? cs_range(cs, 0, 29) == 0 : 0;
    c->src_null = cfg->phase ? cs_range(cs, 0, 29) == 0 : 0;
    c->roomy = cfg->phase ? (int)cs_range(cs, 0, 3) * (int)cs_range(cs, 0, 1) : 0;
    switch (c->fn) {
    case XF_ASCTIME: case XF_CTIME:
        c->dmax = DM_TIME[cs_range(cs, 0, 12)];
        c->a = (int)cs_range(cs, 0, 15);   /* value selector */
        c->b = (int)cs_range(cs, 0, 3);
        break;
    case XF_STRERROR:
        c->dmax = (int)cs_range(cs, 0, 60);
        c->a = (int)cs_range(cs, 0, 23);
        break;
    case XF_GETENV:
        c->a = (int)cs_range(cs, 0, 20);                 /* value length */
        c->dmax = c->a + (int)cs_range(cs, -1, 3);
        if (cs_range(cs, 0, 5) == 0) c->dmax = (int)cs_range(cs, 0, 64);
        if (c->dmax < 0) c->dmax = 0;
        c->b = (int)cs_range(cs, 0, 3);                  /* 0/1 set, 2 unset, 3 empty value */
        c->c = (int)cs_range(cs, 0, 1);                  /* len out-param NULL */
        if (cfg->phase && cs_range(cs, 0, 7) == 0) {     /* values around and above RSIZE_MAX_STR: the length query has no such limit */
            c->a = (int)cs_range(cs, 4090, 4200);
            c->dmax = cs_range(cs, 0, 2) ? 0 : (int)cs_range(cs, 4090, 4096);
        }
        break;
    case XF_GETS:
        c->dmax = (int)cs_range(cs, 0, 40);
        c->a = c->dmax + (int)cs_range(cs, -3, 4);       /* line length */
        if (c->a < 0) c->a = 0;
        c->b = (int)cs_range(cs, 0, 4);                  /* 0 newline terminated, 1 EOF terminated, 2 empty input, 3 the line starts with a NUL byte and a '\n' sits in front of dest, 4 stdin fails with a read error */
        break;
    case XF_GMTIME: case XF_LOCALTIME:
        c->a = (int)cs_range(cs, 0, 15);
        c->b = (int)cs_range(cs, 0, 3);   /* time zone, see XTZ */
        break;
    case XF_FOPEN: case XF_FREOPEN:
        c->a = (int)cs_range(cs, 0, 4);   /* 0 all valid, 1 streamptr NULL, 2 filename NULL, 3 mode NULL, 4 stream NULL (freopen_s) */
        c->b = (int)cs_range(cs, 0, 2);   /* 0 /dev/null "r", 1 missing file, 2 /dev/null "w" */
        c->dmax = 1;
        break;
    case XF_PRINTF: {
        int wide = (int)cs_range(cs, 0, 1);
        c->f.ent = (wide ? 8 : 0) + (int)cs_range(cs, 0, 3);      /* the buffer sinks */
        if (cfg->phase && cs_range(cs, 0, 3) == 0) c->f.ent = (wide ? 12 : 4) + (int)cs_range(cs, 0, 3); /* stream / stdout sinks */
        c->f.nd = (int)cs_range(cs, 1, 3);
        c->f.locale = (uint8_t)cs_range(cs, 0, 1);
        for (i = 0; i < c->f.nd; i++) fmt_gen_dir(cs, &c->f.d[i], FK_PRINTF, 0, cfg->phase ? 1 : 0, 1);
        c->f.tail_lit = (uint8_t)cs_range(cs, 0, 5);
        { static const int rels[] = {-100, -2, -1, 0, 1, 3}; c->f.dmax_rel = (int16_t)rels[cs_range(cs, 0, 5)]; }
        c->f.dbos = (uint8_t)c->dbos;
        c->f.dirty = 1;
        c->f.argmode = 1;
        break;
    }
    default: /* Unicode rows */
        c->wn = (int)cs_range(cs, 0, cfg->phase ? 8 : 2);
        for (i = 0; i < c->wn; i++) c->w[i] = (uint8_t)cs_range(cs, 0, NUSYM - 1);
        c->dmax = (int)cs_range(cs, 0, cfg->phase ? 24 : 9);
        c->a = (int)cs_range(cs, 0, 3);   /* mode / step */
        c->b = (int)cs_range(cs, 0, 1);   /* lenp NULL */
        if (cfg->phase && c->fn != XF_TOWFC && cs_range(cs, 0, 4) == 0) {
            c->mrun = (int)cs_range(cs, 8, 24);
            c->dmax = (int)cs_range(cs, 0, 60);
        }
        break;
    }
    return 1;
}

static void x_describe(const void *k, char *buf, size_t n) {
    const xcase_t *c = k;
    int p;
    if (c->fn == XF_PRINTF) { fmt_describe(&c->f, buf, n); return; }
    p = snprintf(buf, n, "%s(dmax=%d bos=%s%s%s roomy=%d a=%d b=%d c=%d", xfname[c->fn], c->dmax, c->dbos ? "known" : "unknown", c->dest_null ? " dest=NULL" : "",
                 c->src_null ? " src=NULL" : "", c->roomy, c->a, c->b, c->c);
    if (c->fn >= XF_WCSFC && c->fn <= XF_NORMSTEP && p < (int)n) {
        int i;
        if (c->mrun) p += snprintf(buf + p, n - (size_t)p, " marks-after-first=%d", c->mrun);
        p += snprintf(buf + p, n - (size_t)p, " src=[");
        for (i = 0; i < c->wn && p < (int)n - 12; i++) p += snprintf(buf + p, n - (size_t)p, "U+%04X ", (unsigned)USYM[c->w[i] % NUSYM]);
        p += snprintf(buf + p, n - (size_t)p, "]");
    }
    if (p < (int)n) snprintf(buf + p, n - (size_t)p, ")");
}

/* ---- observation ---- */
typedef struct xobs {
    int ran;
    unsigned char *dest; size_t dbytes, dmax_el; int w;
    int loc;             /* wcsfc_s: index into XLOC of the locale the call ran in (0: the process locale) */
    int is_string;       /* dest holds a string result */
    int usable;          /* dest/dmax themselves are usable */
    int failed;          /* the call reported failure */
    long code;           /* error code returned (positive), 0 on success */
    int slack_promised;  /* doc promises nulled slack after success */
    int h_count, h_code;
    int faulted, fault_write, sig; long fault_off; int fault_in_dest;
    long canary_off;     /* offset of first corrupted canary relative to dest, or LONG_MIN */
    unsigned char before[4200 * 4];
    /* reference (C06) */
    int has_ref; char ref[256]; size_t ref_len;
    int ref_ok;          /* C06 verdict computed in run */
    char why[160];
} xobs_t;
static xobs_t O;
static fres_t XFX;
static void xh(const char *m, void *p, errno_t e) { (void)m; (void)p; O.h_count++; O.h_code = e; }

static time_t tval(int a) {
    static const long long v[] = {0, 1, 86399, 1000000000LL, 2147483647LL, 2147483648LL, 253402300799LL /* 9999-12-31 */, 253402300800LL, 313360441200LL, 313360441201LL,
                                  -1, -86400, 4102444800LL, 951782400LL /* 2000-02-29 */, 1709164800LL, 67767976233532799LL};
    return (time_t)v[a & 15];
}

static void run_x(const xcase_t *c, int guard) {
    size_t i;
    int rc = 0;
    memset(&O, 0, offsetof(xobs_t, before));
    g_globstate_calls = 0; g_globstate_sym = NULL;
    O.canary_off = LONG_MIN; O.h_code = -1; O.w = 1; O.has_ref = 0; O.ref_ok = 1; O.why[0] = 0;
    ar_reset();
    set_str_constraint_handler_s(xh); set_mem_constraint_handler_s(xh);
    if (c->fn == XF_PRINTF) {
        const fent_t *e = &g_fent[c->f.ent];
        fmt_run(&c->f, &XFX, !e->wide, guard);
        O.ran = 1;
        O.dest = XFX.dest; O.dbytes = XFX.dest_bytes; O.dmax_el = XFX.dmax; O.w = e->wide ? 4 : 1;
        O.is_string = e->sink == SK_BUF; O.usable = e->sink == SK_BUF && XFX.dmax > 0 && XFX.dmax <= (e->wide ? RSIZE_MAX_WSTR : RSIZE_MAX_STR); /* a long double can print 4900+ characters */
        O.failed = XFX.ret < 0; O.code = XFX.ret < 0 ? -(long)XFX.ret : 0;
        O.slack_promised = e->sink == SK_BUF;
        O.h_count = XFX.h_count; O.h_code = XFX.h_code;
        O.faulted = XFX.faulted; O.fault_write = XFX.fault_write; O.sig = XFX.sig;
        O.fault_off = XFX.faulted && XFX.dest ? (long)(g_ar_fault.addr - (uintptr_t)XFX.dest) : 0;
        O.canary_off = XFX.canary_bad ? XFX.canary_bad : LONG_MIN;
        if (O.dest) for (i = 0; i < O.dbytes && i < sizeof O.before; i++) O.before[i] = e->wide ? 0 : (unsigned char)(0x81 + (i % 61));
        if (O.dest && e->wide) for (i = 0; i < O.dmax_el; i++) ((uint32_t *)(void *)O.before)[i] = 0x81 + (uint32_t)(i % 61);
        return;
    }
    if (c->fn == XF_FOPEN || c->fn == XF_FREOPEN) {
        FILE **fpp = (FILE **)(void *)ar_alloc(guard, PL_END, sizeof(FILE *), 0);
        FILE *old = NULL;
        const char *name = c->b == 1 ? "/nonexistent-dir/verif-x" : "/dev/null";
        const char *mode = c->b == 2 ? "w" : "r";
        *fpp = NULL;
        O.ran = 1; O.dest = NULL; O.is_string = 0; O.usable = 0;
        if (c->fn == XF_FREOPEN && c->a != 4) old = fopen("/dev/null", "r");
        if (c->fn == XF_FOPEN) AR_GUARDED(rc = fopen_s(c->a == 1 ? NULL : fpp, c->a == 2 ? NULL : name, c->a == 3 ? NULL : mode));
        else AR_GUARDED(rc = freopen_s(c->a == 1 ? NULL : fpp, c->a == 2 ? NULL : name, c->a == 3 ? NULL : mode, old));
        O.failed = rc != 0; O.code = rc < 0 ? -rc : rc;
        O.faulted = g_ar_fault.faulted; O.fault_write = g_ar_fault.is_write; O.sig = g_ar_fault.sig;
        if (!O.faulted) {
            /* documented result: the stream pointer is set on success, and is a null pointer after any failure that reaches it */
            if (rc == 0 && *fpp == NULL) { O.ref_ok = 0; snprintf(O.why, sizeof O.why, "success but *streamptr is NULL"); }
            if (rc == 0 && *fpp) { fclose(*fpp); old = NULL; }
            else if (old && c->fn == XF_FREOPEN && rc != 0 && c->a == 0) old = NULL; /* freopen closed it */
            if (old) fclose(old);
        }
        return;
    }
    {
        int w = c->fn >= XF_WCSFC ? 4 : 1;
        size_t el = (size_t)c->dmax + (size_t)c->roomy, bytes;
        unsigned char *dest;
        size_t bos;
        if (c->fn == XF_GMTIME || c->fn == XF_LOCALTIME) { el = sizeof(struct tm); w = 1; }
        if (el > 4200) el = 4200;
        bytes = el * (size_t)w;
        dest = ar_alloc(guard, PL_END, bytes, 0);
        for (i = 0; i < el; i++) { if (w == 1) dest[i] = (unsigned char)(0x81 + (i % 61)); else ((uint32_t *)(void *)dest)[i] = 0x81 + (uint32_t)(i % 61); }
        memcpy(O.before, dest, bytes < sizeof O.before ? bytes : sizeof O.before);
        bos = c->dbos ? bytes : BOS_UNKNOWN;
        O.dest = dest; O.dbytes = bytes; O.dmax_el = (size_t)c->dmax; O.w = w;
        O.ran = 1;
        switch (c->fn) {
        case XF_ASCTIME: {
            struct tm *tm = (struct tm *)(void *)ar_alloc(guard, PL_END, sizeof(struct tm), 0);
            time_t t = tval(c->a);
            memset(tm, 0, sizeof *tm);
            gmtime_r(&t, tm);
            if (c->b == 1) tm->tm_mon = 12; else if (c->b == 2) tm->tm_year = 8100; else if (c->b == 3) tm->tm_mday = 0;
            O.is_string = 1; O.usable = !c->dest_null && c->dmax >= 26 && c->dmax <= 4096;
            AR_GUARDED(rc = _asctime_s_chk(c->dest_null ? NULL : (char *)dest, (rsize_t)c->dmax, c->src_null ? NULL : tm, bos));
            if (!c->src_null && c->b == 0) { char r[64]; struct tm t2 = *tm; if (asctime_r(&t2, r)) { O.has_ref = 1; snprintf(O.ref, sizeof O.ref, "%s", r); O.ref_len = strlen(r); } }
            break;
        }
        case XF_CTIME: {
            time_t *tp = (time_t *)(void *)ar_alloc(guard, PL_END, sizeof(time_t), 0);
            *tp = tval(c->a);
            O.is_string = 1; O.usable = !c->dest_null && c->dmax >= 26 && c->dmax <= 4096;
            x_set_tz(c->b);
            AR_GUARDED(rc = _ctime_s_chk(c->dest_null ? NULL : (char *)dest, (rsize_t)c->dmax, c->src_null ? NULL : tp, bos));
            if (!c->src_null) { char r[64]; if (*tp >= 0 && *tp <= 313360441200LL && ctime_r(tp, r)) { O.has_ref = 1; snprintf(O.ref, sizeof O.ref, "%s", r); O.ref_len = strlen(r); } }
            break;
        }
        case XF_STRERROR: {
            static const int en[] = {0, 1, 2, 12, 22, 34, 75, 84, 133, 134, 399, 400, 401, 403, 404, 406, 407, 408, 409, 410, 411, 412, -1, 10000};
            O.is_string = 1; O.usable = !c->dest_null && c->dmax > 0 && c->dmax <= 4096;
            AR_GUARDED(rc = _strerror_s_chk(c->dest_null ? NULL : (char *)dest, (rsize_t)c->dmax, en[c->a % 24], bos));
            if (rc == 0 && !g_ar_fault.faulted && !c->dest_null) { /* strerrorlen_s announces the length of the untruncated message */
                size_t L = strerrorlen_s(en[c->a % 24]);
                if (L < (size_t)c->dmax && strnlen((char *)dest, (size_t)c->dmax) != L) { O.ref_ok = 0; snprintf(O.why, sizeof O.why, "strerrorlen_s says %zu, strerror_s stored %zu characters", L, strnlen((char *)dest, (size_t)c->dmax)); }
                if (L < (size_t)c->dmax) { const char *m = strerror(en[c->a % 24]); if (en[c->a % 24] < ESNULLP || en[c->a % 24] > ESLAST) { O.has_ref = 1; snprintf(O.ref, sizeof O.ref, "%s", m); O.ref_len = strlen(O.ref); } }
            }
            break;
        }
        case XF_GETENV: {
            static char val[4300];
            size_t *lenp = (size_t *)(void *)ar_alloc(guard, PL_END, sizeof(size_t), 0);
            size_t vl;
            *lenp = 0x5a5a5a5a;
            for (i = 0; i < (size_t)c->a && i < 4290; i++) val[i] = (char)('a' + i % 26);
            val[i] = 0;
            vl = c->b == 3 ? 0 : i;
            if (c->b == 2) unsetenv("VERIF_X_ENV"); else setenv("VERIF_X_ENV", c->b == 3 ? "" : val, 1);
            O.is_string = 1; O.usable = !c->dest_null && c->dmax > 0 && c->dmax <= 4096; O.slack_promised = 1;
            AR_GUARDED(rc = _getenv_s_chk(c->c ? NULL : lenp, c->dest_null ? NULL : (char *)dest, (rsize_t)c->dmax, c->src_null ? NULL : "VERIF_X_ENV", bos));
            if (c->b != 2 && !c->src_null && vl < sizeof O.ref) { O.has_ref = 1; snprintf(O.ref, sizeof O.ref, "%s", c->b == 3 ? "" : val); O.ref_len = strlen(O.ref); }
            if (rc == -1 && c->b == 2) rc = 0; /* "not set" is a plain status, not a violation */
            if (!c->c && rc == 0 && c->b != 2 && !c->src_null && *lenp != vl && !g_ar_fault.faulted) { O.ref_ok = 0; snprintf(O.why, sizeof O.why, "*len=%zu, value length %zu", *lenp, vl); }
            if (rc == 0 && c->b != 2 && !c->src_null && !c->dest_null && c->dmax > 0 && vl + 1 > (size_t)c->dmax && !g_ar_fault.faulted) { O.ref_ok = 0; snprintf(O.why, sizeof O.why, "value of %zu characters reported as stored in dmax=%d", vl, c->dmax); }
            break;
        }
        case XF_GETS: {
            static char line[128];
            FILE *in, *saved = stdin;
            char *ret = NULL;
            size_t L = (size_t)c->a < 100 ? (size_t)c->a : 100;
            unsigned char *pre = NULL;
            for (i = 0; i < L; i++) line[i] = (char)('A' + i % 26);
            if (c->b == 0 || c->b == 3) { line[L] = '\n'; line[L + 1] = 'Z'; line[L + 2] = 0; } else line[L] = 0;
            if (c->b == 2) line[0] = 0;
            if (c->b == 3) { /* an empty string result: nothing in front of dest may be inspected or changed */
                pre = ar_alloc(guard, PL_END, bytes + 1, 0);
                pre[0] = '\n';
                memcpy(pre + 1, dest, bytes);
                dest = pre + 1; O.dest = dest;
                in = fmemopen(line, L + 2, "r");
                line[0] = 0;
            } else if (c->b == 4) { /* a directory opened for reading: every read fails with EISDIR, which is not end-of-file */
                int fd = open("/", O_RDONLY | O_DIRECTORY);
                in = fd >= 0 ? fdopen(fd, "r") : NULL;
                if (!in) { if (fd >= 0) close(fd); in = fmemopen(line, 1, "r"); }
            } else
            in = fmemopen(line, strlen(line) ? strlen(line) : 1, "r");
            if (c->b == 2) { int ch; while ((ch = fgetc(in)) != EOF) {} }
            stdin = in;
            O.is_string = 1; O.usable = !c->dest_null && c->dmax > 0 && c->dmax <= 4096; O.slack_promised = 1;
            errno = 0;
            AR_GUARDED(ret = _gets_s_chk(c->dest_null ? NULL : (char *)dest, (rsize_t)c->dmax, bos));
            stdin = saved;
            if (!g_ar_fault.faulted) fclose(in);
            rc = ret ? 0 : (errno ? errno : 0);
            if (pre && !g_ar_fault.faulted && pre[0] != '\n') O.canary_off = -1;
            if (ret && c->b != 2 && c->b != 3 && c->b != 4) { O.has_ref = 1; memcpy(O.ref, line, L); O.ref[L] = 0; O.ref_len = L; }
            if (!ret && O.h_count == 0) rc = 1; /* plain EOF: a failure indication (NULL) without any constraint violation */
            break;
        }
        case XF_GMTIME: case XF_LOCALTIME: {
            time_t *tp = (time_t *)(void *)ar_alloc(guard, PL_END, sizeof(time_t), 0);
            struct tm *res = NULL, refv;
            *tp = tval(c->a);
            x_set_tz(c->b);
            O.dmax_el = sizeof(struct tm);
            AR_GUARDED(res = (c->fn == XF_GMTIME) ? gmtime_s(c->src_null ? NULL : tp, c->dest_null ? NULL : (struct tm *)(void *)dest)
                                                  : localtime_s(c->src_null ? NULL : tp, c->dest_null ? NULL : (struct tm *)(void *)dest));
            rc = res ? 0 : (O.h_count ? O.h_code : 0);
            if (res && !g_ar_fault.faulted) {
                struct tm *rr = (c->fn == XF_GMTIME) ? gmtime_r(tp, &refv) : localtime_r(tp, &refv);
                if (rr && (rr->tm_year != res->tm_year || rr->tm_mon != res->tm_mon || rr->tm_mday != res->tm_mday || rr->tm_hour != res->tm_hour || rr->tm_min != res->tm_min ||
                           rr->tm_sec != res->tm_sec || rr->tm_yday != res->tm_yday || rr->tm_wday != res->tm_wday)) { O.ref_ok = 0; snprintf(O.why, sizeof O.why, "broken-down time differs from %s_r", c->fn == XF_GMTIME ? "gmtime" : "localtime"); }
            }
            break;
        }
        default: { /* Unicode rows */
            size_t n = (size_t)c->wn + (size_t)c->mrun, q = 0;
            wchar_t *src = (wchar_t *)(void *)ar_alloc(guard, PL_END, (n + 1) * sizeof(wchar_t), 0);
            rsize_t *lenp = (rsize_t *)(void *)ar_alloc(guard, PL_END, sizeof(rsize_t), 0);
            for (i = 0; i < (size_t)c->wn; i++) {
                src[q++] = (wchar_t)USYM[c->w[i] % NUSYM];
                if (i == 0) { size_t m; for (m = 0; m < (size_t)c->mrun; m++) src[q++] = (m & 1) ? 0x301 : ((m % 3) ? 0x323 : 0x327); }
            }
            if (c->wn == 0) { size_t m; for (m = 0; m < (size_t)c->mrun; m++) src[q++] = (m & 1) ? 0x301 : 0x323; }
            n = q;
            src[n] = 0;
            *lenp = n;
            O.is_string = 1; O.usable = !c->dest_null && c->dmax > 0 && c->dmax <= (int)RSIZE_MAX_WSTR; O.slack_promised = (c->fn == XF_WCSFC || c->fn == XF_WCSNORM);
            if (c->fn == XF_WCSFC) {
                O.loc = x_enter_locale(c->a) ? (c->a & 3) : 0;
                AR_GUARDED(rc = _wcsfc_s_chk(c->dest_null ? NULL : (wchar_t *)(void *)dest, (rsize_t)c->dmax, c->src_null ? NULL : src, c->b ? NULL : lenp, bos));
                x_leave_locale();
            }
            else if (c->fn == XF_WCSNORM) AR_GUARDED(rc = _wcsnorm_s_chk(c->dest_null ? NULL : (wchar_t *)(void *)dest, (rsize_t)c->dmax, c->src_null ? NULL : src, (wcsnorm_mode_t)(c->a & 1 ? WCSNORM_NFC : WCSNORM_NFD), c->b ? NULL : lenp, bos));
            else if (c->fn == XF_TOWFC) {
                O.is_string = 0; O.slack_promised = 0;
                AR_GUARDED(rc = _towfc_s_chk(c->dest_null ? NULL : (wchar_t *)(void *)dest, (rsize_t)c->dmax, n ? (uint32_t)src[0] : 0x41, bos));
                rc = (rc < 0 && rc != -ESNOTFND) ? -rc : 0; /* "no fold-case mapping" is a plain status */
            } else {
                O.slack_promised = 0;
                if ((c->a & 3) == 0) AR_GUARDED(rc = _wcsnorm_decompose_s_chk(c->dest_null ? NULL : (wchar_t *)(void *)dest, (rsize_t)c->dmax, c->src_null ? NULL : src, lenp, (c->a & 4) != 0, bos));
                else if ((c->a & 3) == 1) AR_GUARDED(rc = _wcsnorm_reorder_s_chk(c->dest_null ? NULL : (wchar_t *)(void *)dest, (rsize_t)c->dmax, c->src_null ? NULL : src, n, bos));
                else AR_GUARDED(rc = _wcsnorm_compose_s_chk(c->dest_null ? NULL : (wchar_t *)(void *)dest, (rsize_t)c->dmax, c->src_null ? NULL : src, lenp, (c->a & 2) != 0, bos));
                if (c->src_null) O.usable = 0; /* the step functions document nothing for a NULL source */
            }
            break;
        }
        }
        O.failed = rc != 0; O.code = rc < 0 ? -rc : rc;
        O.faulted = g_ar_fault.faulted; O.fault_write = g_ar_fault.is_write; O.sig = g_ar_fault.sig;
        O.fault_off = (long)(g_ar_fault.addr - (uintptr_t)dest);
        { long off = 0; int b = ar_locate(g_ar_fault.addr, &off); O.fault_in_dest = (b >= 0 && g_ar.bufs[b].p == dest); }
        { unsigned char *bad = ar_check_canaries(); if (bad) O.canary_off = (long)(bad - dest); }
    }
}

static long first_nul_x(void) {
    size_t i;
    for (i = 0; i < O.dmax_el && i * (size_t)O.w < O.dbytes; i++) {
        if (O.w == 1 ? O.dest[i] == 0 : ((uint32_t *)(void *)O.dest)[i] == 0) return (long)i;
    }
    return -1;
}
static size_t el(const unsigned char *p, size_t i) { return O.w == 1 ? p[i] : ((const uint32_t *)(const void *)p)[i]; }

static const char *x_class(const xcase_t *c) {
    if (c->fn == XF_PRINTF) {
        int i;
        if (XFX.faulted && XFX.fault_dir >= 0) { /* the directive whose argument was over-read */
            const fdir_t *d = &c->f.d[XFX.fault_dir];
            int pr = d->prec == -2 ? d->pstar : d->prec;
            if (d->conv == 'S') return d->prec == -1 ? "arg-ls" : (pr == 0 ? "arg-ls-precision-0" : (pr < 0 ? "arg-ls-negative-precision" : "arg-ls-precision"));
            return d->prec == -1 ? "arg-s" : (pr == 0 ? "arg-s-precision-0" : (pr < 0 ? "arg-s-negative-precision" : "arg-s-precision"));
        }
        for (i = 0; i < c->f.nd; i++) if (c->f.d[i].conv == 'C') return "lc";
        for (i = 0; i < c->f.nd; i++) if (c->f.d[i].conv == 'S') return c->f.d[i].prec != -1 ? "ls-precision" : "ls";
        for (i = 0; i < c->f.nd; i++) if (c->f.d[i].conv == 's') return c->f.d[i].prec != -1 ? "s-precision" : "s";
        for (i = 0; i < c->f.nd; i++) if (strchr("fFeEgGa", c->f.d[i].conv)) return "float";
        return "int-char";
    }
    if (c->fn == XF_FOPEN || c->fn == XF_FREOPEN) return c->a ? "null-arg" : (c->b == 1 ? "missing-file" : "valid");
    if (c->dest_null) return "null-dest";
    if (c->src_null && (c->fn == XF_ASCTIME || c->fn == XF_CTIME || c->fn == XF_GETENV || c->fn == XF_GMTIME || c->fn == XF_LOCALTIME || c->fn >= XF_WCSFC)) return "null-src";
    if (c->fn == XF_WCSFC && O.loc) { static char b[40]; snprintf(b, sizeof b, "%s:locale-%.2s", c->dmax < 5 ? "dmax<5" : "dmax>=5", XLOC[O.loc & 3]); return b; }
    if (c->fn >= XF_WCSFC) return c->dmax < 5 ? "dmax<5" : "dmax>=5";
    if (c->fn == XF_GETS) return c->b == 4 ? "read-error" : c->b == 3 ? "line-starts-with-nul" : c->b == 2 ? "empty-input" : (c->a + 1 > c->dmax ? "line-too-long" : (c->a + 1 == c->dmax ? "line-exact-fit" : "line-fits"));
    if (c->fn == XF_ASCTIME || c->fn == XF_CTIME) return c->dmax < 26 ? "dmax<26" : (c->dmax < 120 ? "dmax<120" : "dmax>=120");
    if (c->fn == XF_GETENV) return c->b == 2 ? "unset" : (c->a + 1 > c->dmax ? "value-too-long" : "value-fits");
    return "args";
}

static void exec_x(const void *k, res_t *r, int prop, const runcfg_t *cfg) {
    const xcase_t *c = k;
    static const char *const stepname[4] = {"wcsnorm_decompose_s", "wcsnorm_reorder_s", "wcsnorm_compose_s", "wcsnorm_compose_s"};
    const char *fn = c->fn == XF_PRINTF ? g_fent[c->f.ent].name : (c->fn == XF_NORMSTEP ? stepname[c->a & 3] : xfname[c->fn]);
    int noslack = cfg->libcfg && strstr(cfg->libcfg, "noslack") != NULL;
    size_t i;
    run_x(c, prop == 1 ? G_RO : G_NA);
    r->hash = cs_hash_bytes(CS_HASH_INIT, c, sizeof *c);
    res_label(r, xfname[c->fn]);
    if (O.faulted && O.sig != SIGSEGV && O.sig != SIGBUS) {
        r->fragile = 1;
        if (prop == 1) { RES_VIOL(r, "C01:%s:signal-%d:%s", fn, O.sig, x_class(c)); RES_DETAIL(r, "signal %d inside the call (stack protector / abort)", O.sig); }
        return;
    }
    if (c->fn == XF_PRINTF && O.faulted) r->fragile = 1;
    switch (prop) {
    case 1:
        r->nontrivial = !c->dest_null && O.dmax_el > 0;
        if (O.faulted && O.fault_write) { RES_VIOL(r, "C01:%s:store-outside:%s", fn, x_class(c)); RES_DETAIL(r, "store fault at dest%+ld (declared %zu elements of %d bytes)", O.fault_off, O.dmax_el, O.w); return; }
        if (O.canary_off != LONG_MIN) { RES_VIOL(r, "C01:%s:canary:%s", fn, x_class(c)); RES_DETAIL(r, "canary overwritten at dest%+ld (declared %zu elements of %d bytes)", O.canary_off, O.dmax_el, O.w); return; }
        if (!O.faulted && c->fn != XF_PRINTF && c->fn != XF_GMTIME && c->fn != XF_LOCALTIME && c->roomy && O.dest)
            for (i = (size_t)c->dmax * (size_t)O.w; i < O.dbytes; i++) if (O.dest[i] != O.before[i]) { RES_VIOL(r, "C01:%s:store-past-dmax-inside-object:%s", fn, x_class(c)); RES_DETAIL(r, "byte %zu changed, dmax covers %zu bytes", i, (size_t)c->dmax * (size_t)O.w); return; }
        return;
    case 2:
        r->nontrivial = !c->dest_null;
        if (O.faulted && !O.fault_write) { RES_VIOL(r, "C02:%s:load-outside:%s", fn, x_class(c)); RES_DETAIL(r, "load fault at %s%+ld", O.fault_in_dest || c->fn == XF_PRINTF ? "dest" : "operand@dest", O.fault_off); }
        return;
    default: break;
    }
    if (O.faulted) { res_label(r, "foreign-fault"); return; }
    switch (prop) {
    case 3:
        if (!O.is_string || !O.usable) return;
        r->nontrivial = 1;
        if (first_nul_x() < 0) { RES_VIOL(r, "C03:%s:unterminated-after-%s:%s", fn, O.failed ? "failure" : "success", x_class(c)); RES_DETAIL(r, "no NUL within the first %zu elements, return code %ld", O.dmax_el, O.code); }
        return;
    case 4:
        if (!O.usable || !O.failed || !O.dest) return;
        if (c->fn == XF_GMTIME || c->fn == XF_LOCALTIME || c->fn == XF_TOWFC) return;
        r->nontrivial = 1;
        if (el(O.dest, 0) != 0) { RES_VIOL(r, "C04:%s:dest0-nonzero-after-failure:%s", fn, x_class(c)); RES_DETAIL(r, "dest[0]=0x%zx after failure code %ld", el(O.dest, 0), O.code); return; }
        if (noslack) return;
        for (i = 0; i < O.dmax_el && i * (size_t)O.w < O.dbytes; i++) {
            size_t v = el(O.dest, i);
            if (v != 0 && v != el(O.before, i)) { RES_VIOL(r, "C04:%s:partial-result-after-failure:%s", fn, x_class(c)); RES_DETAIL(r, "dest[%zu]=0x%zx visible after failure code %ld", i, v, O.code); return; }
        }
        return;
    case 5:
        if (g_globstate_calls) { /* C12: the call used process-wide state of libc */
            r->nontrivial = 1;
            RES_VIOL(r, "C12:%s:process-wide-state:%s", fn, g_globstate_sym ? g_globstate_sym : "?");
            RES_DETAIL(r, "%d call(s) of %s (and possibly others) were made inside the library call: state shared by every thread of the process", g_globstate_calls, g_globstate_sym ? g_globstate_sym : "?");
            return;
        }
        r->nontrivial = O.failed || O.h_count > 0;
        if (O.h_count > 1 && c->fn == XF_PRINTF) { RES_VIOL(r, "C05:%s:handler-invoked-%d-times:last-code-%d", fn, O.h_count, O.h_code); RES_DETAIL(r, "handler ran %d times, last code %d, returned %ld", O.h_count, O.h_code, O.code); return; }
        if (O.h_count > 1) { RES_VIOL(r, "C05:%s:handler-invoked-%d-times:%s", fn, O.h_count, x_class(c)); RES_DETAIL(r, "handler ran %d times, last code %d, returned %ld", O.h_count, O.h_code, O.code); return; }
        if (O.failed && O.h_count == 0 && !(c->fn == XF_GETS && O.code == 1 /* plain end-of-file */) &&
            !((c->fn == XF_ASCTIME || c->fn == XF_CTIME) && O.code == 1 /* documented -1: the libc conversion failed, no constraint was violated */)) { RES_VIOL(r, "C05:%s:failure-without-handler:%s", fn, x_class(c)); RES_DETAIL(r, "returned code %ld but no handler ran", O.code); return; }
        if (O.h_count == 1 && !O.failed) { RES_VIOL(r, "C05:%s:handler-but-success:%s", fn, x_class(c)); RES_DETAIL(r, "handler ran with code %d but the call reported success", O.h_code); return; }
        if (O.h_count == 1 && O.failed && O.code != O.h_code && c->fn != XF_GMTIME && c->fn != XF_LOCALTIME) {
            RES_VIOL(r, "C05:%s:handler-code-differs:handler-%d-returned-%ld", fn, O.h_code, O.code); RES_DETAIL(r, "handler got %d, the call returned %ld (%s)", O.h_code, O.code, x_class(c)); return;
        }
        return;
    case 6:
        if (O.failed) {
            /* non-truncating: if the complete result fits the call should not have failed: not judged here (C05); if it does not fit failure is right */
            return;
        }
        if (c->fn == XF_PRINTF) return; /* C11 */
        if (!O.ref_ok) { r->nontrivial = 1; RES_VIOL(r, "C06:%s:wrong-result:%s", fn, x_class(c)); RES_DETAIL(r, "%s", O.why); return; }
        if (!O.has_ref || c->dest_null) return;
        r->nontrivial = 1;
        if (c->fn == XF_GETENV && O.dmax_el == 0) return; /* documented length query: nothing is stored */
        if (O.ref_len + 1 > O.dmax_el) { RES_VIOL(r, "C06:%s:truncated-success:%s", fn, x_class(c)); RES_DETAIL(r, "reference result needs %zu+1 characters, dmax=%zu, call succeeded", O.ref_len, O.dmax_el); return; }
        if (memcmp(O.dest, O.ref, O.ref_len + 1) != 0) { RES_VIOL(r, "C06:%s:wrong-result:%s", fn, x_class(c)); RES_DETAIL(r, "dest=\"%.40s\", reference \"%.40s\"", (char *)O.dest, O.ref); }
        return;
    case 8: {
        long L;
        if (!O.slack_promised || !O.usable || O.failed) return;
        L = first_nul_x();
        if (L < 0) return;
        /* formatted output may contain NUL bytes of its own (%c with 0): the terminator is the one at the returned length */
        if (c->fn == XF_PRINTF && XFX.ret >= 0) { size_t t = (size_t)XFX.ret < O.dmax_el ? (size_t)XFX.ret : O.dmax_el - 1; if (el(O.dest, t) == 0) L = (long)t; }
        if ((size_t)L + 1 < O.dmax_el) r->nontrivial = 1;
        if (noslack) return;
        for (i = (size_t)L; i < O.dmax_el; i++) if (el(O.dest, i) != 0) { RES_VIOL(r, "C08:%s:stale-slack:%s", fn, x_class(c)); RES_DETAIL(r, "dest[%zu]=0x%zx behind the terminator at %ld (dmax %zu)", i, el(O.dest, i), L, O.dmax_el); return; }
        return;
    }
    default: return;
    }
}

#define XMOD(N, P)                                                                                                                   \
    static void exec_x##N(const void *k, res_t *r, const runcfg_t *cfg) { exec_x(k, r, P, cfg); }                                    \
    const module_t mod_C0##N##X = {"C0" #N "X", sizeof(xcase_t), 1, {1500000, 15000000}, NULL, gen_x, exec_x##N, x_describe,          \
        "OS/IO rows (asctime_s ctime_s strerror_s getenv_s gets_s gmtime_s localtime_s), formatted output to buffers and streams with %s/%ls arguments flush against guard pages, and the Unicode rows (wcsfc_s wcsnorm_s towfc_s and the normalisation steps with expanding characters in the last cells of dest); non-trivial per property as in the generic module; distinct by decoded call"};
XMOD(1, 1) XMOD(2, 2) XMOD(3, 3) XMOD(4, 4) XMOD(5, 5) XMOD(6, 6) XMOD(8, 8)
