/* model.c -- reference models for the generic rows (valid operands only).
 * Each model is the libc counterpart run on bounded private copies, or a naive
 * implementation written from the function's doc comment. Where the doc is
 * silent or ambiguous the model declines (known = 0): nothing is asserted. */
#define _GNU_SOURCE
#include "model.h"
#include <string.h>
#include <strings.h>
#include <ctype.h>
#include <wchar.h>
#include <wctype.h>

int g_model_noslack;
static size_t E(const unsigned char *p, int w, size_t i) { return gc_elem(p, w, i); }
static void P(unsigned char *p, int w, size_t i, size_t v) {
    if (w == 1) p[i] = (unsigned char)v;
    else if (w == 2) ((uint16_t *)(void *)p)[i] = (uint16_t)v;
    else ((uint32_t *)(void *)p)[i] = (uint32_t)v;
}
static size_t nlen(const unsigned char *p, int w, size_t max) {
    size_t i;
    for (i = 0; i < max; i++) if (E(p, w, i) == 0) return i;
    return max;
}
static int sgn(long v) { return v < 0 ? -1 : v > 0; }

/* expected result helpers */
static void exp_fail(mref_t *m) { m->known = 1; m->expect = MX_FAIL; }
static void exp_ok(mref_t *m, long ret) { m->known = 1; m->expect = MX_OK; m->ret = ret; }

void ref_model(const row_t *row, const gcase_t *c, const unsigned char *d0, const unsigned char *s0, mref_t *m) {
    const char *nm = row->name;
    int w = row->w;
    size_t n = c->dmax * (size_t)row->du / (size_t)w;   /* declared dest elements */
    size_t dl = (row->fl & (F_DIN)) ? nlen(d0, w, n) : 0; /* dest string length within dmax */
    size_t sl = 0, i, j;
    unsigned char *x = m->dest;
    memset(m, 0, offsetof(mref_t, dest));
    m->out_off = -2;
    if (row->fl & F_SRC) {
        size_t smaxel = c->strue / (size_t)w;
        if (row->fl & F_SRCSTR) {
            sl = nlen(s0, w, smaxel);
            if (row->fl & F_SLEN) { if (sl > c->slen) sl = c->slen; }
        }
    }
    memcpy(x, d0, c->dtrue);
    m->cmp_elems = n;

    /* ------------------------------ COPY ------------------------------ */
    if (!strcmp(nm, "strcpy_s") || !strcmp(nm, "wcscpy_s") || !strcmp(nm, "stpcpy_s")) {
        if (sl + 1 > n) { exp_fail(m); return; }
        for (i = 0; i < sl; i++) P(x, w, i, E(s0, w, i));
        P(x, w, sl, 0);
        m->cmp_elems = sl + 1; m->check_dest = 1;
        exp_ok(m, EOK);
        if (row->ret_kind == RK_PTR_ERRP) { m->check_retptr = 1; m->retptr_off = (long)sl; }
        return;
    }
    if (!strcmp(nm, "strncpy_s") || !strcmp(nm, "wcsncpy_s") || !strcmp(nm, "stpncpy_s")) {
        /* copies min(slen, strlen(src)) characters and a terminator */
        if (sl + 1 > n) { exp_fail(m); return; }
        for (i = 0; i < sl; i++) P(x, w, i, E(s0, w, i));
        P(x, w, sl, 0);
        m->cmp_elems = sl + 1; m->check_dest = 1;
        exp_ok(m, EOK);
        if (row->ret_kind == RK_PTR_ERRP) { m->check_retptr = 1; m->retptr_off = (long)sl; }
        return;
    }
    if (!strcmp(nm, "strcat_s") || !strcmp(nm, "wcscat_s") || !strcmp(nm, "strncat_s") || !strcmp(nm, "wcsncat_s")) {
        if ((row->fl & F_SLEN) && c->slen == 0) return; /* documented msvcrt special case: not modelled */
        if (dl >= n) return;                             /* unterminated dest: C03/C04 territory */
        if (dl + sl + 1 > n) { exp_fail(m); return; }
        for (i = 0; i < sl; i++) P(x, w, dl + i, E(s0, w, i));
        P(x, w, dl + sl, 0);
        m->cmp_elems = dl + sl + 1; m->check_dest = 1;
        exp_ok(m, EOK);
        return;
    }
    if (!strcmp(nm, "strcpyfld_s")) {
        /* copies slen characters (NULs are data), nulls the rest of the field */
        if (c->slen == 0) return;
        if (c->slen > n) { exp_fail(m); return; }
        for (i = 0; i < c->slen; i++) P(x, w, i, E(s0, w, i));
        for (; i < n; i++) P(x, w, i, 0);
        m->check_dest = 1; exp_ok(m, EOK);
        return;
    }
    if (!strcmp(nm, "strcpyfldin_s")) {
        /* at most slen characters of the string, then nulls up to dmax */
        if (c->slen == 0) return;
        if (c->slen > n) { exp_fail(m); return; }
        for (i = 0; i < sl; i++) P(x, w, i, E(s0, w, i));
        for (; i < n; i++) P(x, w, i, 0);
        m->check_dest = 1; exp_ok(m, EOK);
        return;
    }
    if (!strcmp(nm, "strcpyfldout_s")) {
        /* slen characters and a terminator: needs slen+1 <= dmax, else not a complete result */
        if (c->slen == 0) return;
        if (c->slen > n) { exp_fail(m); return; }
        if (c->slen + 1 > n) { exp_fail(m); return; }
        for (i = 0; i < c->slen; i++) P(x, w, i, E(s0, w, i));
        P(x, w, c->slen, 0);
        m->cmp_elems = c->slen + 1; m->check_dest = 1; exp_ok(m, EOK);
        return;
    }
    /* ------------------------------ MEMCPY ------------------------------ */
    if (row->fam == FAM_MEMCPY && strcmp(nm, "memccpy_s")) {
        size_t bytes = c->slen * (size_t)row->su;
        if (c->slen == 0) return;
        if (bytes > c->dmax * (size_t)row->du) { exp_fail(m); return; }
        memcpy(x, s0, bytes);
        m->cmp_elems = c->dtrue / (size_t)w; /* whole object: nothing else may change */
        m->check_dest = 1; exp_ok(m, EOK);
        return;
    }
    if (!strcmp(nm, "memccpy_s")) {
        /* like memccpy(): bytes up to and including the first c are copied (at most n) */
        size_t k;
        if (c->n == 0 || c->n > n) return;
        /* memccpy converts c to unsigned char; so does the reference, whatever int is passed (-1 stops at 0xFF) */
        for (k = 0; k < c->n; k++) if (s0[k] == (unsigned char)c->val) break;
        if (k == c->n) return;                 /* stop character absent: truncation rules not modelled */
        memcpy(x, s0, k + 1);
        m->cmp_elems = k + 1;
        if (!g_model_noslack) { /* doc: with null-slack the rest (max. n bytes) is cleared */
            for (i = k + 1; i < c->n; i++) x[i] = 0;
            m->cmp_elems = c->n;
        }
        m->check_dest = 1; exp_ok(m, EOK);
        return;
    }
    /* ------------------------------ FILL ------------------------------ */
    if (!strcmp(nm, "memset_s") || !strcmp(nm, "memset16_s") || !strcmp(nm, "memset32_s")) {
        size_t total = c->dtrue / (size_t)w;
        if (c->n == 0) return;
        if (c->val > 255 && w == 1) return;
        if (c->n * (size_t)w > c->dmax * (size_t)row->du) { exp_fail(m); return; }
        for (i = 0; i < c->n; i++) P(x, w, i, (size_t)c->val);
        m->cmp_elems = total; m->check_dest = 1; exp_ok(m, EOK);
        return;
    }
    if (!strcmp(nm, "memzero_s") || !strcmp(nm, "memzero16_s") || !strcmp(nm, "memzero32_s")) {
        for (i = 0; i < n; i++) P(x, w, i, 0);
        m->cmp_elems = c->dtrue / (size_t)w; m->check_dest = 1; exp_ok(m, EOK);
        return;
    }
    if (!strcmp(nm, "strzero_s")) {
        if (dl >= n) return;
        for (i = 0; i < n; i++) P(x, w, i, 0);
        m->check_dest = 1; exp_ok(m, EOK);
        return;
    }
    if (!strcmp(nm, "strset_s") || !strcmp(nm, "wcsset_s") || !strcmp(nm, "strnset_s") || !strcmp(nm, "wcsnset_s")) {
        size_t lim = dl;
        if (dl >= n) return;
        if (w == 1 && (c->val > 255 || c->val < 0)) return;
        if (w == 4 && (c->val > 0x10ffff || c->val < 0)) return;
        if (c->val == 0) return;
        if (row->fl & F_N) { if (c->n > n) { exp_fail(m); return; } if (c->n < lim) lim = c->n; }
        for (i = 0; i < lim; i++) P(x, w, i, (size_t)c->val);
        m->cmp_elems = dl + 1; m->check_dest = 1; exp_ok(m, EOK);
        return;
    }
    if (!strcmp(nm, "strnterminate_s")) {
        size_t l = nlen(d0, w, n);
        m->known = 1; m->expect = MX_VALUE;
        if (l >= n) { P(x, w, n - 1, 0); l = n - 1; }
        m->ret = (long)l;
        m->cmp_elems = c->dtrue / (size_t)w; m->check_dest = 1;
        return;
    }
    /* ------------------------------ INPLACE ------------------------------ */
    if (!strcmp(nm, "strtolowercase_s") || !strcmp(nm, "strtouppercase_s")) {
        int up = nm[5] == 'u';
        if (dl >= n) return;
        for (i = 0; i < dl; i++) {
            size_t ch = E(d0, w, i);
            if (up && ch >= 'a' && ch <= 'z') ch -= 32;
            if (!up && ch >= 'A' && ch <= 'Z') ch += 32;
            P(x, w, i, ch);
        }
        m->cmp_elems = c->dtrue / (size_t)w; m->check_dest = 1; exp_ok(m, EOK);
        return;
    }
    if (!strcmp(nm, "wcslwr_s") || !strcmp(nm, "wcsupr_s")) {
        int up = nm[3] == 'u';
        if (dl >= n) return;
        for (i = 0; i < dl; i++) {
            size_t ch = E(d0, w, i);
            if (ch >= 0x80) return;            /* only ASCII is judged (library carries its own Unicode tables) */
            if (up && ch >= 'a' && ch <= 'z') ch -= 32;
            if (!up && ch >= 'A' && ch <= 'Z') ch += 32;
            P(x, w, i, ch);
        }
        m->cmp_elems = c->dtrue / (size_t)w; m->check_dest = 1; exp_ok(m, EOK);
        return;
    }
    if (!strcmp(nm, "strljustify_s") || !strcmp(nm, "strremovews_s")) {
        size_t a = 0, b = dl;
        if (dl >= n || n < 2) return;
        while (a < dl && (d0[a] == ' ' || d0[a] == '\t')) a++;
        if (nm[3] == 'r') while (b > a && (d0[b - 1] == ' ' || d0[b - 1] == '\t')) b--;
        for (i = 0; i < b - a; i++) x[i] = d0[a + i];
        x[b - a] = 0;
        m->cmp_elems = b - a + 1; m->check_dest = 1; exp_ok(m, EOK);
        return;
    }
    /* ------------------------------ QUERY ------------------------------ */
    if (row->fam != FAM_QUERY) return;
    m->check_dest = 1; m->cmp_elems = c->dtrue / (size_t)w; /* operands never modified */
    if (!strcmp(nm, "strnlen_s") || !strcmp(nm, "wcsnlen_s")) {
        m->known = 1; m->expect = MX_VALUE; m->ret = (long)nlen(d0, w, n);
        if (c->dmax > row->dmax_max) m->known = 0;
        return;
    }
    if (row->fl & F_DIN) { if (dl >= n) return; }       /* dest must be a string within dmax */
    if ((row->fl & F_SRCSTR) && c->scontent != SC_STR) return;
    if ((row->fl & F_SRCSTR) && (row->fl & F_SLEN) && sl >= c->slen &&
        strcmp(nm, "strspn_s") && strcmp(nm, "strcspn_s") && strcmp(nm, "strpbrk_s")) return; /* src string must end inside slen (the span functions use the first slen characters of a longer set) */
    if (!strcmp(nm, "strcmp_s") || !strcmp(nm, "strcoll_s") || !strcmp(nm, "wcscmp_s") || !strcmp(nm, "wcscoll_s") || !strcmp(nm, "strcasecmp_s")) {
        long r = 0;
        int ci = !strcmp(nm, "strcasecmp_s");
        for (i = 0;; i++) {
            size_t a = i < dl ? E(d0, w, i) : 0, b = i < sl ? E(s0, w, i) : 0;
            if (ci) { a = (size_t)toupper((int)a); b = (size_t)toupper((int)b); }
            if (a != b) { r = a < b ? -1 : 1; break; }
            if (!a) break;
        }
        exp_ok(m, EOK); m->out_kind = MO_SIGN; m->out_val = r;
        return;
    }
    if (!strcmp(nm, "wcsncmp_s")) {
        long r = 0;
        for (i = 0; i < c->n; i++) {
            size_t a = i < dl ? E(d0, w, i) : 0, b = i < sl ? E(s0, w, i) : 0;
            if (a != b) { r = a < b ? -1 : 1; break; }
            if (!a) break;
        }
        exp_ok(m, EOK); m->out_kind = MO_SIGN; m->out_val = r;
        return;
    }
    if (!strcmp(nm, "strcmpfld_s")) {
        long r = 0;
        for (i = 0; i < n; i++) if (d0[i] != s0[i]) { r = d0[i] < s0[i] ? -1 : 1; break; }
        exp_ok(m, EOK); m->out_kind = MO_SIGN; m->out_val = r;
        return;
    }
    if (!strcmp(nm, "memcmp_s") || !strcmp(nm, "memcmp16_s") || !strcmp(nm, "memcmp32_s") || !strcmp(nm, "wmemcmp_s")) {
        long r = 0;
        if (c->slen == 0 || c->slen > n) return;
        for (i = 0; i < c->slen; i++) {
            size_t a = E(d0, w, i), b = E(s0, w, i);
            if (!strcmp(nm, "wmemcmp_s")) { if ((int32_t)a != (int32_t)b) { r = (int32_t)a < (int32_t)b ? -1 : 1; break; } }
            else if (a != b) { r = a < b ? -1 : 1; break; }
        }
        exp_ok(m, EOK); m->out_kind = MO_SIGN; m->out_val = r;
        return;
    }
    if (!strcmp(nm, "memchr_s") || !strcmp(nm, "memrchr_s")) {
        long off = -1;
        if (c->val > 255 || c->val < 0) return;
        for (i = 0; i < n; i++) if (d0[i] == (unsigned char)c->val) { off = (long)i; if (nm[3] == 'c') break; }
        if (off < 0) exp_ok(m, ESNOTFND); else { exp_ok(m, EOK); m->out_kind = MO_OFF; m->out_val = off; }
        return;
    }
    if (!strcmp(nm, "strchr_s") || !strcmp(nm, "strrchr_s")) {
        long off = -1;
        if (c->val > 255 || c->val < 0) return;
        if (!strcmp(nm, "strrchr_s") && dl == 0) return;    /* documented ESZEROL for the empty string */
        for (i = 0; i <= dl; i++) if (d0[i] == (unsigned char)c->val) { off = (long)i; if (nm[3] == 'c') break; }
        if (off < 0) exp_ok(m, ESNOTFND); else { exp_ok(m, EOK); m->out_kind = MO_OFF; m->out_val = off; }
        return;
    }
    if (!strcmp(nm, "strfirstchar_s") || !strcmp(nm, "strlastchar_s")) {
        long off = -1;
        unsigned char ch = (unsigned char)c->val;
        if (ch == 0) return;
        for (i = 0; i < dl; i++) if (d0[i] == ch) { off = (long)i; if (nm[3] == 'f') break; }
        if (off < 0) exp_ok(m, ESNOTFND); else { exp_ok(m, EOK); m->out_kind = MO_OFF; m->out_val = off; }
        return;
    }
    if (!strcmp(nm, "strstr_s") || !strcmp(nm, "strcasestr_s") || !strcmp(nm, "wcsstr_s")) {
        long off = -1;
        int ci = !strcmp(nm, "strcasestr_s");
        if (c->slen == 0) return;
        if (sl == 0) off = 0;
        else for (i = 0; i + sl <= dl && off < 0; i++) {
            for (j = 0; j < sl; j++) {
                size_t a = E(d0, w, i + j), b = E(s0, w, j);
                if (ci) { a = (size_t)toupper((int)a); b = (size_t)toupper((int)b); }
                if (a != b) break;
            }
            if (j == sl) off = (long)i;
        }
        if (off < 0) exp_ok(m, ESNOTFND); else { exp_ok(m, EOK); m->out_kind = MO_OFF; m->out_val = off; }
        return;
    }
    if (!strcmp(nm, "strpbrk_s") || !strcmp(nm, "strspn_s") || !strcmp(nm, "strcspn_s")) {
        size_t cnt = 0;
        long off = -1;
        if (c->slen == 0) return;
        for (i = 0; i < dl; i++) {
            int in = 0;
            for (j = 0; j < sl; j++) if (d0[i] == s0[j]) in = 1;
            if (nm[3] == 'p') { if (in) { off = (long)i; break; } }
            else if (nm[3] == 's') { if (!in) break; cnt++; }
            else { if (in) break; cnt++; }
        }
        if (nm[3] == 'p') { if (off < 0) exp_ok(m, ESNOTFND); else { exp_ok(m, EOK); m->out_kind = MO_OFF; m->out_val = off; } }
        else { exp_ok(m, EOK); m->out_kind = MO_VALUE; m->out_val = (long)cnt; }
        return;
    }
    if (!strcmp(nm, "strprefix_s")) {
        if (sl == 0) return;                                /* empty prefix: doc silent */
        if (sl <= dl && memcmp(d0, s0, sl) == 0) exp_ok(m, EOK); else exp_ok(m, ESNOTFND);
        return;
    }
    if (!strcmp(nm, "strfirstdiff_s") || !strcmp(nm, "strlastdiff_s") || !strcmp(nm, "strfirstsame_s") || !strcmp(nm, "strlastsame_s")) {
        long idx = -1;
        int same = nm[8] == 's' || nm[7] == 's';
        int first = nm[3] == 'f';
        same = strstr(nm, "same") != NULL;
        for (i = 0; i < n && d0[i] && s0[i]; i++)
            if ((d0[i] == s0[i]) == same) { idx = (long)i; if (first) break; }
        if (idx < 0) exp_ok(m, same ? ESNOTFND : ESNODIFF); else { exp_ok(m, EOK); m->out_kind = MO_VALUE; m->out_val = idx; }
        return;
    }
    if (!strncmp(nm, "stris", 5)) {
        int ok = 1;
        if (dl == 0) return;                                /* empty string: doc silent */
        if (!strcmp(nm, "strispassword_s")) {
            /* documented composition rules: 6..32 characters, at least 2 lower case, 2 upper case, 1 digit, 1 special character.
             * Declined where the documentation is silent or contradicts itself: dmax on the borders of its window (6, 32), and
             * strings with blanks, control or non-ASCII characters. */
            unsigned lo = 0, up = 0, nu = 0, sp = 0;
            if (c->dmax <= 6 || c->dmax >= 32) return;
            for (i = 0; i < dl; i++) {
                unsigned char ch = d0[i];
                if (ch < 33 || ch > 126) return;
                if (ch >= '0' && ch <= '9') nu++; else if (ch >= 'a' && ch <= 'z') lo++; else if (ch >= 'A' && ch <= 'Z') up++; else sp++;
            }
            m->known = 1; m->expect = MX_VALUE; m->ret = dl >= 6 && lo >= 2 && up >= 2 && nu >= 1 && sp >= 1;
            return;
        }
        if (!strcmp(nm, "strismixedcase_s")) {
            /* "checks that the entire string is mixed case": judged only where every reading agrees -- letters of both cases
             * and nothing else is true, any ASCII non-letter is false; one-case strings and non-ASCII bytes are left open */
            int lo = 0, up = 0, other = 0;
            for (i = 0; i < dl; i++) {
                unsigned char ch = d0[i];
                if (ch >= 128) return;
                if (ch >= 'a' && ch <= 'z') lo = 1; else if (ch >= 'A' && ch <= 'Z') up = 1; else other = 1;
            }
            if (other) { m->known = 1; m->expect = MX_VALUE; m->ret = 0; }
            else if (lo && up) { m->known = 1; m->expect = MX_VALUE; m->ret = 1; }
            return;
        }
        for (i = 0; i < dl; i++) {
            unsigned char ch = d0[i];
            if (!strcmp(nm, "strisalphanumeric_s")) ok &= (ch < 128 && isalnum(ch));
            else if (!strcmp(nm, "strisascii_s")) ok &= ch < 128;
            else if (!strcmp(nm, "strisdigit_s")) ok &= (ch >= '0' && ch <= '9');
            else if (!strcmp(nm, "strishex_s")) ok &= (ch < 128 && isxdigit(ch));
            else if (!strcmp(nm, "strislowercase_s")) ok &= (ch >= 'a' && ch <= 'z');
            else if (!strcmp(nm, "strisuppercase_s")) ok &= (ch >= 'A' && ch <= 'Z');
            else return;
        }
        m->known = 1; m->expect = MX_VALUE; m->ret = ok;
        return;
    }
    if (!strcmp(nm, "timingsafe_bcmp") || !strcmp(nm, "timingsafe_memcmp")) {
        int r = 0;
        for (i = 0; i < n; i++) if (d0[i] != s0[i]) { r = d0[i] < s0[i] ? -1 : 1; break; }
        m->known = 1;
        if (nm[11] == 'b') { m->expect = MX_ZERO_IFF; m->ret = r == 0; }
        else { m->expect = MX_VALUE; m->ret = r; }
        (void)sgn;
        return;
    }
}
