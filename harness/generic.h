/* generic.h -- the generic case over the plain-signature rows (rows.h) */
#ifndef GENERIC_H
#define GENERIC_H
#include "../engine/pbt.h"
#include "rows.h"

enum { DC_GARBAGE, DC_STR, DC_UNTERM, DC_BYTES };
enum { SC_STR, SC_UNTERM, SC_BYTES };
enum { DK_EXACT, DK_ROOMY, DK_TOLDLIE, DK_OVERMAX };

typedef struct gcase {
    int row;
    /* dest */
    int dest_null;
    int dkind;           /* DK_* */
    size_t dmax;         /* declared, dmax units */
    size_t dtrue;        /* true object size, bytes */
    int dbos;            /* 0 unknown 1 exact */
    int dplace, dskew;
    int dcontent;        /* DC_* */
    size_t dlen;         /* string length (elements) for DC_STR */
    /* src */
    int src_null;
    size_t slen;         /* declared */
    size_t strue;        /* true object bytes */
    int sbos;
    int splace;
    int scontent;        /* SC_* */
    size_t slen_true;    /* string length (elements) for SC_STR */
    long val;
    size_t n;
    int out_null;
    int alpha;           /* alphabet class */
    uint32_t cseed;      /* content seed */
    int guard;           /* G_NA / G_RO */
    int fill2;           /* second slack-fill variant (metamorphic) */
    /* explicit (enumerated) operand contents: symbol indices into a small alphabet; 0xff = not used */
    uint8_t ex_on;
    uint8_t ex_d[7];
    uint8_t ex_s[7];
    uint8_t src_first; /* allocate src at the lower address (exercises the dest > src branches) */
    /* overlap placement (C07): src lies at dest + ov_off elements inside one arena object */
    int ov_on;           /* 1: C07's overlap placement; 2: query rows (C10), the second operand IS a tail of the first: src = dest + ov_off */
    long ov_off;
} gcase_t;
#define GC_QALIAS(c) ((c)->ov_on == 2)

/* result of running a gcase */
typedef struct gexec {
    args_t a;
    unsigned char *dest, *src, *out, *errp;
    size_t dbytes_decl;      /* dmax*du clipped to dtrue */
    int faulted, fault_write;
    long fault_off; int fault_buf; /* 0 dest 1 src 2 out 3 errp -1 other */
    uintptr_t fault_addr;
    int sig;
    unsigned char *canary_bad;
    int h_str, h_mem;        /* handler invocation counts */
    int h_code;              /* last code passed to a handler */
    int h_codes[4];
    int errp_val;
    unsigned char dest_before[AR_DATA];
    unsigned char src_before[AR_DATA];
    unsigned char out_before[16];
} gexec_t;

int gc_gen(cs_t *cs, gcase_t *c, const runcfg_t *cfg, int prop);
void gc_run(const gcase_t *c, gexec_t *x);
void gc_describe(const void *kase, char *buf, size_t n);
uint64_t gc_hash(const gcase_t *c);
size_t gc_elem(const unsigned char *p, int w, size_t i);

extern int g_handler_count_str, g_handler_count_mem;
void gh_install(void);

#endif
