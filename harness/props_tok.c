/* props_tok.c -- C14: tokenizing yields each token exactly once and stays inside the string
 *
 * rows: strtok_s, wcstok_s (same machinery, 1-byte / 4-byte units).
 * A case is a string over 5 symbols (2 non-delimiters, 2 delimiters, 1 "sometimes delimiter"), a dmax view
 * (dmax == len: no terminator inside dmax; len+1; len+4 with token-like text behind the terminator),
 * 1..3 delimiter strings of length 0..17 and the delimiter string used by each call.
 * The reference tokenizer (C11 K.3.7.3.1 / the doc comment) runs in lock-step with the library.
 */
#include "../engine/pbt.h"
#include <wchar.h>
#include <errno.h>
#include "safe_lib.h"
#include "safe_str_lib.h"
#include "safe_mem_lib.h"

#define T_MAXLEN 40
#define T_NPICK 16
#define T_NFILL 17
enum { SY_N1, SY_D1, SY_N2, SY_D2, SY_S, SY_FILL0 };  /* SY_FILL0+i: filler i, never part of the string */

typedef struct tcase {
    int wide;
    int len;
    int dmode;            /* 0: dmax = len, no terminator within dmax; 1: dmax = len+1; 2: dmax = len+4 */
    int bos;              /* first call: 0 unknown, 1 exact */
    int nsets;
    uint8_t sym[T_MAXLEN];
    uint8_t slack[3];     /* symbols behind the terminator (dmode 2) */
    uint8_t dlen[3];
    uint8_t dset[3][T_NFILL];
    uint8_t pick[T_NPICK]; /* delimiter string used by call i (i mod 16) */
} tcase_t;

static void set_put(tcase_t *c, int s, const uint8_t *e, int n) { c->dlen[s] = (uint8_t)n; memcpy(c->dset[s], e, (size_t)n); }

static int gen_c14(cs_t *cs, void *k, const runcfg_t *cfg) {
    tcase_t *c = k;
    int i, s;
    if (cfg->row_filter) {
        if (!strcmp(cfg->row_filter, "strtok_s")) c->wide = 0;
        else if (!strcmp(cfg->row_filter, "wcstok_s")) c->wide = 1 + (int)cs_range(cs, 0, 1);
        else return 0;
    } else c->wide = (int)cs_range(cs, 0, 2); /* 2: wcstok_s over the look-alike alphabet */
    if (cfg->phase == 0) {
        int dc = (int)cs_range(cs, 0, 6);
        uint8_t e[T_NFILL];
        c->dmode = (int)cs_range(cs, 0, 2);
        c->len = (int)cs_range(cs, 0, cfg->tier ? 9 : 7);
        for (i = 0; i < c->len; i++) c->sym[i] = (uint8_t)cs_range(cs, 0, 4);
        switch (dc) {
        case 0: c->nsets = 1; e[0] = SY_D1; e[1] = SY_D2; set_put(c, 0, e, 2); break;
        case 1: c->nsets = 2; e[0] = SY_D1; e[1] = SY_D2; e[2] = SY_S; set_put(c, 0, e, 3); set_put(c, 1, e, 2);
                for (i = 0; i < T_NPICK; i++) c->pick[i] = (uint8_t)(i & 1);
                break;
        case 2: c->nsets = 1; for (i = 0; i < 14; i++) e[i] = (uint8_t)(SY_FILL0 + i); e[14] = SY_D1; e[15] = SY_D2; set_put(c, 0, e, 16); break;
        case 3: c->nsets = 2; e[0] = SY_D1; set_put(c, 0, e, 1); set_put(c, 1, e, 0);
                for (i = 1; i < T_NPICK; i++) c->pick[i] = 1;
                break;
        case 4: c->nsets = 1; e[0] = SY_D1; e[1] = SY_D2; for (i = 2; i < 17; i++) e[i] = (uint8_t)(SY_FILL0 + i); set_put(c, 0, e, 17); break;
        case 5: c->nsets = 2; e[0] = SY_S; e[1] = SY_D1; set_put(c, 0, e, 2); e[0] = SY_D2; set_put(c, 1, e, 1);
                for (i = 0; i < T_NPICK; i++) c->pick[i] = (uint8_t)(i & 1);
                break;
        default: c->nsets = 1; set_put(c, 0, e, 0); break;
        }
        c->bos = (int)cs_noise(cs, 0, 1);
        for (i = 0; i < 3; i++) c->slack[i] = (uint8_t)cs_noise(cs, 0, 4);
        return 1;
    }
    c->dmode = (int)cs_range(cs, 0, 2);
    {
        long cl = cs_range(cs, 0, 3);
        c->len = (int)(cl <= 1 ? cs_range(cs, 0, 10) : cl == 2 ? cs_range(cs, 11, 20) : cs_range(cs, 21, T_MAXLEN));
    }
    for (i = 0; i < c->len; i++) {
        static const uint8_t w[12] = {SY_N1, SY_D1, SY_N2, SY_D2, SY_S, SY_N1, SY_D1, SY_N2, SY_N1, SY_D1, SY_S, SY_N1};
        c->sym[i] = w[cs_range(cs, 0, 11)];
    }
    c->nsets = (int)cs_range(cs, 1, 3);
    for (s = 0; s < c->nsets; s++) {
        static const long dl[12] = {2, 1, 3, 0, 16, 17, 15, 4, 8, 2, 1, 16};
        int n = (int)cs_pick(cs, dl, 12);
        c->dlen[s] = (uint8_t)n;
        for (i = 0; i < n; i++) {
            long v = cs_range(cs, 0, 5);
            c->dset[s][i] = v == 0 ? SY_D1 : v == 1 ? SY_D2 : v == 2 ? SY_S : (uint8_t)(SY_FILL0 + i);
        }
    }
    for (i = 0; i < T_NPICK; i++) c->pick[i] = (uint8_t)cs_range(cs, 0, c->nsets - 1);
    c->bos = (int)cs_range(cs, 0, 1);
    for (i = 0; i < 3; i++) c->slack[i] = (uint8_t)cs_range(cs, 0, 4);
    return 1;
}

/* symbol -> character */
static uint32_t sym_char(int wide, int s) {
    static const uint32_t nar[5] = {'a', ',', 0xE9 /* a high-bit byte inside tokens */, 0xA0 /* a high-bit delimiter: char is signed here */, '-'};
    static const uint32_t wid[5] = {0x0100, ',', 'b', 0x3B00, 0x2D2D};
    /* second wide alphabet: the non-delimiters are TRUNCATION LOOK-ALIKES of the delimiters (same low 16 bits, same low 8 bits):
     * a comparison made through a narrower type takes them for delimiters */
    static const uint32_t wid2[5] = {0x1002C /* low 16 bits: ',' */, ',', 0x012C /* low 8 bits: ',' */, 0xDC00 /* a delimiter from the surrogate range: a value like any other for a 32-bit wchar_t */, 0x1DC00 /* low 16 bits: that delimiter */};
    if (s < SY_FILL0) return wide == 2 ? wid2[s] : wide ? wid[s] : nar[s];
    return (wide ? 0x4100u : (uint32_t)'A') + (uint32_t)(s - SY_FILL0);
}
static char sym_vis(int s) { static const char v[5] = {'a', ',', 'b', ';', '-'}; return s < SY_FILL0 ? v[s] : (char)('A' + (s - SY_FILL0)); }

static void describe_c14(const void *k, char *buf, size_t n) {
    const tcase_t *c = k;
    char s[T_MAXLEN + 1], d[3][T_NFILL + 1], p[T_NPICK + 1], sl[4];
    int i, j;
    for (i = 0; i < c->len && i < T_MAXLEN; i++) s[i] = sym_vis(c->sym[i]);
    s[i < 0 ? 0 : i] = 0;
    for (j = 0; j < 3; j++) { for (i = 0; i < c->dlen[j] && i < T_NFILL; i++) d[j][i] = sym_vis(c->dset[j][i]); d[j][i] = 0; }
    for (i = 0; i < T_NPICK; i++) p[i] = (char)('0' + c->pick[i] % 10);
    p[T_NPICK] = 0;
    for (i = 0; i < 3; i++) sl[i] = sym_vis(c->slack[i] % 5);
    sl[3] = 0;
    snprintf(buf, n, "%s(string=\"%s\" len=%d, dmax=%s%s%s, destbos=%s, %d delimiter strings \"%s\" \"%s\" \"%s\", string used by call i: %s)", c->wide ? "wcstok_s" : "strtok_s", s, c->len,
             c->dmode == 0 ? "len (no terminator inside dmax)" : c->dmode == 1 ? "len+1" : "len+4 behind-terminator=\"", c->dmode == 2 ? sl : "", c->dmode == 2 ? "\"" : "",
             c->bos ? "exact" : "unknown", c->nsets, d[0], c->nsets > 1 ? d[1] : "", c->nsets > 2 ? d[2] : "", p);
}

static int h_count;
static void t_handler(const char *msg, void *ptr, errno_t err) { (void)msg; (void)ptr; (void)err; h_count++; }

/* ---- reference tokenizer -------------------------------------------- */
enum { E_TOKEN_DELIM, E_TOKEN_END, E_NULL_NOTOKEN, E_NULL_AFTER, E_RUNOFF };
typedef struct tmodel {
    uint32_t b[T_MAXLEN + 8];
    size_t dmax0;
    size_t pos;        /* where the next search starts */
    int exhausted;     /* a null pointer was (or after this token will be) the answer forever */
    int why;           /* E_TOKEN_END / E_NULL_NOTOKEN / E_RUNOFF: how the tokens ran out */
} tmodel_t;

static int in_set(uint32_t ch, const uint32_t *set, int n) { int i; for (i = 0; i < n; i++) if (set[i] == ch) return 1; return 0; }

/* one call. returns E_*, *start = token start index, *nulled = index overwritten with NUL or -1 */
static int model_step(tmodel_t *m, const uint32_t *set, int nset, size_t *start, long *nulled) {
    size_t p = m->pos;
    *nulled = -1;
    *start = 0;
    if (m->exhausted) return E_NULL_AFTER;
    while (p < m->dmax0 && m->b[p] != 0 && in_set(m->b[p], set, nset)) p++;
    if (p >= m->dmax0) { m->exhausted = 1; m->why = E_RUNOFF; return E_RUNOFF; }
    if (m->b[p] == 0) { m->exhausted = 1; m->why = E_NULL_NOTOKEN; m->pos = p; return E_NULL_NOTOKEN; }
    *start = p;
    while (p < m->dmax0 && m->b[p] != 0 && !in_set(m->b[p], set, nset)) p++;
    if (p >= m->dmax0) { m->exhausted = 1; m->why = E_RUNOFF; return E_RUNOFF; }
    if (m->b[p] == 0) { m->exhausted = 1; m->why = E_TOKEN_END; m->pos = p; return E_TOKEN_END; }
    m->b[p] = 0;
    *nulled = (long)p;
    m->pos = p + 1;
    return E_TOKEN_DELIM;
}

static void build(const tcase_t *c, tmodel_t *m, uint32_t sets[3][T_NFILL], size_t *dmax0) {
    int i, s;
    size_t n = (size_t)c->len;
    memset(m, 0, sizeof *m);
    for (i = 0; i < c->len; i++) m->b[i] = sym_char(c->wide, c->sym[i]);
    if (c->dmode >= 1) m->b[n++] = 0;
    if (c->dmode == 2) for (i = 0; i < 3; i++) m->b[n++] = sym_char(c->wide, c->slack[i] % 5);
    m->dmax0 = *dmax0 = n;
    for (s = 0; s < 3; s++) for (i = 0; i < c->dlen[s]; i++) sets[s][i] = sym_char(c->wide, c->dset[s][i]);
}

static inline uint32_t getu(const unsigned char *p, int unit, size_t i) { return unit == 1 ? p[i] : ((const uint32_t *)(const void *)p)[i]; }
static inline void putu(unsigned char *p, int unit, size_t i, uint32_t v) { if (unit == 1) p[i] = (unsigned char)v; else ((uint32_t *)(void *)p)[i] = v; }

static const char *whyname(int e) { return e == E_TOKEN_END ? "after-end-token" : e == E_NULL_NOTOKEN ? "after-no-token" : "after-error"; }

static void exec_tok(const void *k, res_t *r, const runcfg_t *cfg) {
    const tcase_t *c = k;
    tmodel_t M;
    uint32_t sets[3][T_NFILL];
    size_t dmax0, i, start;
    long nulled;
    int unit = c->wide ? 4 : 1, s, call, cap, ntok = 0, endtok = 0, terminated = c->dmode != 0;
    unsigned char *buf, *dbuf[3], *poison, *bad;
    rsize_t *dmaxp;
    void **ptrp;
    const char *row = c->wide ? "wcstok_s" : "strtok_s";
    int lockstep = 1, tail = 0, nulls = 0, changes = 0;
    size_t prev_d;
    void *last_tok = NULL;
    (void)cfg;
    r->hash = cs_hash_bytes(CS_HASH_INIT, c, sizeof *c);
    if (c->len < 0 || c->len > T_MAXLEN || c->nsets < 1 || c->nsets > 3 || c->dmode < 0 || c->dmode > 2) { res_label(r, "skipped"); return; }
    for (i = 0; i < (size_t)c->len; i++) if (c->sym[i] > SY_S) { res_label(r, "skipped"); return; }
    for (s = 0; s < 3; s++) {
        if (c->dlen[s] > T_NFILL) { res_label(r, "skipped"); return; }
        for (i = 0; i < c->dlen[s]; i++) {
            int e = c->dset[s][i];
            if (!(e == SY_D1 || e == SY_D2 || e == SY_S || (e >= SY_FILL0 && e < SY_FILL0 + T_NFILL))) { res_label(r, "skipped"); return; }
        }
    }
    cap = 2 * c->len + 4;
    /* dry run of the reference: token count, labels, non-triviality */
    build(c, &M, sets, &dmax0);
    for (call = 0; call < cap; call++) {
        int si = c->pick[call % T_NPICK] % c->nsets;
        int e = model_step(&M, sets[si], c->dlen[si], &start, &nulled);
        if (call && si != c->pick[(call - 1) % T_NPICK] % c->nsets && e != E_NULL_AFTER) changes = 1;
        if (e == E_TOKEN_DELIM || e == E_TOKEN_END) ntok++;
        if (e == E_TOKEN_END) endtok = 1;
        if (e != E_TOKEN_DELIM) break;
    }
    r->nontrivial = ntok >= 2 || endtok || c->dmode == 2;
    res_label(r, c->wide ? "row:wcstok_s" : "row:strtok_s");
    res_label(r, c->dmode == 0 ? "view:no-terminator-within-dmax" : c->dmode == 1 ? "view:dmax=len+1" : "view:dmax=len+4");
    res_label(r, ntok == 0 ? "tokens:0" : ntok == 1 ? "tokens:1" : ntok <= 4 ? "tokens:2-4" : "tokens:5+");
    if (endtok) res_label(r, "last-token-without-delimiter");
    if (changes) res_label(r, "delimiters-change-between-calls");

    /* the real thing */
    build(c, &M, sets, &dmax0);
    ar_reset();
    buf = ar_alloc(G_NA, PL_END, dmax0 * (size_t)unit, 0);
    for (i = 0; i < dmax0; i++) putu(buf, unit, i, M.b[i]);
    for (s = 0; s < c->nsets; s++) {
        dbuf[s] = ar_alloc(G_NA, PL_END, ((size_t)c->dlen[s] + 1) * (size_t)unit, 0);
        for (i = 0; i < c->dlen[s]; i++) putu(dbuf[s], unit, i, sets[s][i]);
        putu(dbuf[s], unit, c->dlen[s], 0);
    }
    dmaxp = (rsize_t *)(void *)ar_alloc(G_NA, PL_END, sizeof(rsize_t), 0);
    ptrp = (void **)(void *)ar_alloc(G_NA, PL_END, sizeof(void *), 0);
    poison = buf + dmax0 * (size_t)unit + 2048;   /* inside the inaccessible page behind the string */
    *dmaxp = dmax0;
    *ptrp = poison;
    prev_d = dmax0;
    set_str_constraint_handler_s(t_handler); set_mem_constraint_handler_s(t_handler);

    for (call = 0; call < cap + 2 && nulls < 2; call++) {
        int si = c->pick[call % T_NPICK] % c->nsets, dl = c->dlen[si];
        int e = -1;
        void *res = NULL;
        tmodel_t M2 = M;
        const char *ctx;
        size_t d;
        unsigned char *p;
        if (lockstep) e = model_step(&M2, sets[si], dl, &start, &nulled);
        ctx = !terminated ? "unterminated" : M.exhausted ? whyname(M.why) : dl > 16 ? "delim-17" : dl == 0 ? "delim-empty" : call == 0 ? "first-call" : "after-delim-token";
        h_count = 0;
        if (c->wide) AR_GUARDED(res = _wcstok_s_chk(call == 0 ? (wchar_t *)(void *)buf : NULL, dmaxp, (const wchar_t *)(const void *)dbuf[si], (wchar_t **)ptrp, call == 0 && c->bos ? dmax0 * 4 : BOS_UNKNOWN));
        else AR_GUARDED(res = _strtok_s_chk(call == 0 ? (char *)buf : NULL, dmaxp, (const char *)dbuf[si], (char **)ptrp, call == 0 && c->bos ? dmax0 : BOS_UNKNOWN));
        if (g_ar_fault.faulted) {
            long off = (long)(g_ar_fault.addr - (uintptr_t)(buf + dmax0 * (size_t)unit));
            long poff = (long)(g_ar_fault.addr - (uintptr_t)poison);
            const char *wh = g_ar_fault.sig != SIGSEGV ? "signal" : g_ar_fault.is_write ? "write" : "read";
            if (g_ar_fault.sig == SIGSEGV && off >= 0 && off < unit) RES_VIOL(r, "C14:%s:%s-at-dmax:%s", row, wh, ctx);
            else if (g_ar_fault.sig == SIGSEGV && poff > -256 && poff < 256) RES_VIOL(r, "C14:%s:%s-via-unset-ptr:%s", row, wh, ctx);
            else RES_VIOL(r, "C14:%s:%s-fault:%s", row, wh, ctx);
            RES_DETAIL(r, "call %d (%s, delimiter string %d): signal %d, %s at dest%+ld bytes (dmax is %zu elements of %d bytes; *ptr was preset to dest%+ld)", call + 1, call ? "dest=NULL" : "first", si, g_ar_fault.sig,
                       g_ar_fault.is_write ? "store" : "load", (long)(g_ar_fault.addr - (uintptr_t)buf), dmax0, unit, (long)(poison - buf));
            if (g_ar_fault.sig != SIGSEGV) r->fragile = 1;
            return;
        }
        nulls = res ? 0 : nulls + 1;
        if (tail) {
            if (res) {
                RES_VIOL(r, "C14:%s:token-after-error:%s", row, ctx);
                RES_DETAIL(r, "call %d returned dest%+ld after the sequence had ended with an error", call + 1, (long)((unsigned char *)res - buf) / unit);
                return;
            }
            continue;
        }
        if (e == E_RUNOFF) {
            if (res) {
                RES_VIOL(r, "C14:%s:unterminated-token:%s", row, ctx);
                RES_DETAIL(r, "call %d returned dest%+ld although no terminator or delimiter follows within dmax=%zu", call + 1, (long)((unsigned char *)res - buf) / unit, dmax0);
                return;
            }
            if (!h_count) {
                RES_VIOL(r, "C14:%s:unterminated-not-reported:%s", row, ctx);
                RES_DETAIL(r, "call %d returned NULL without invoking the constraint handler although the scan reached dmax=%zu without a terminator", call + 1, dmax0);
                return;
            }
            res_label(r, "unterminated:error-reported");
            tail = 1; lockstep = 0; nulls = 0;
            continue;
        }
        if (!res && h_count && dl > 16 && terminated) {
            /* documented precondition: delim no longer than STRTOK_DELIM_MAX_LEN; rejecting the call is fine, the string must stay intact */
            for (i = 0; i < dmax0; i++) if (getu(buf, unit, i) != M.b[i]) {
                RES_VIOL(r, "C14:%s:rejected-call-wrote:delim-17", row);
                RES_DETAIL(r, "call %d was rejected (17 delimiters) but dest[%zu] changed from 0x%x to 0x%x", call + 1, i, M.b[i], getu(buf, unit, i));
                return;
            }
            res_label(r, "delim-17:rejected");
            break;
        }
        if (!res && h_count && !terminated) { res_label(r, "unterminated:rejected-early"); tail = 1; lockstep = 0; nulls = 0; continue; }
        /* lock-step comparison */
        if (e == E_NULL_NOTOKEN || e == E_NULL_AFTER) {
            if (res) {
                RES_VIOL(r, "C14:%s:%s:%s", row, res == last_tok ? "token-returned-again" : "token-after-null", ctx);
                RES_DETAIL(r, "call %d returned dest%+ld but %s", call + 1, (long)((unsigned char *)res - buf) / unit, e == E_NULL_AFTER ? "the tokens were exhausted by an earlier call" : "only delimiters remain");
                return;
            }
        } else {
            if (!res) {
                RES_VIOL(r, "C14:%s:token-missed:%s", row, ctx);
                RES_DETAIL(r, "call %d returned NULL (handler calls %d) but a token starts at dest+%zu", call + 1, h_count, start);
                return;
            }
            if ((unsigned char *)res != buf + start * (size_t)unit) {
                RES_VIOL(r, "C14:%s:%s:%s", row, res == last_tok ? "token-returned-again" : "wrong-token-start", ctx);
                RES_DETAIL(r, "call %d returned dest%+ld bytes, the token starts at element %zu", call + 1, (long)((unsigned char *)res - buf), start);
                return;
            }
            last_tok = res;
        }
        M = M2;
        for (i = 0; i < dmax0; i++) if (getu(buf, unit, i) != M.b[i]) {
            if (M.b[i] == 0) {
                RES_VIOL(r, "C14:%s:token-not-terminated:%s", row, ctx);
                RES_DETAIL(r, "call %d: dest[%zu] should have been overwritten with NUL, holds 0x%x", call + 1, i, getu(buf, unit, i));
            } else {
                RES_VIOL(r, "C14:%s:non-delim-overwritten:%s", row, ctx);
                RES_DETAIL(r, "call %d: dest[%zu] changed from 0x%x to 0x%x (token returned: %s)", call + 1, i, M.b[i], getu(buf, unit, i), res ? "yes" : "no");
            }
            return;
        }
        d = *dmaxp;
        p = *ptrp;
        if (d > prev_d) {
            RES_VIOL(r, "C14:%s:dmax-grew:%s", row, ctx);
            RES_DETAIL(r, "call %d: *dmaxp went from %zu to %zu", call + 1, prev_d, d);
            return;
        }
        prev_d = d;
        if (p && p >= buf && p <= buf + dmax0 * (size_t)unit && (size_t)(p - buf) / (size_t)unit + d > dmax0) {
            RES_VIOL(r, "C14:%s:ptr+dmax-past-end:%s", row, ctx);
            RES_DETAIL(r, "call %d: *ptr = dest+%zu and *dmaxp = %zu, original dmax %zu", call + 1, (size_t)(p - buf) / (size_t)unit, d, dmax0);
            return;
        }
    }
    if ((bad = ar_check_canaries()) != NULL) {
        long off = 0;
        int bi = ar_locate((uintptr_t)bad, &off);
        RES_VIOL(r, "C14:%s:wrote-outside-objects:%s", row, terminated ? "terminated" : "unterminated");
        RES_DETAIL(r, "canary changed at object %d %+ld bytes", bi, off);
        return;
    }
    for (s = 0; s < c->nsets; s++) {
        for (i = 0; i < c->dlen[s]; i++) if (getu(dbuf[s], unit, i) != sets[s][i]) break;
        if (i < c->dlen[s] || getu(dbuf[s], unit, c->dlen[s]) != 0) {
            RES_VIOL(r, "C14:%s:delimiter-string-modified", row);
            RES_DETAIL(r, "delimiter string %d changed at element %zu", s, i);
            return;
        }
    }
}

static void exec_c14(const void *k, res_t *r, const runcfg_t *cfg) {
    int g;
    exec_tok(k, r, cfg);
    /* a case that ended early may leave damaged canaries behind: repair them so the next case is not blamed */
    for (g = 0; g < 16 && ar_check_canaries(); g++) {}
}

static void tok_init(const runcfg_t *cfg) { (void)cfg; }

const module_t mod_C14 = {"C14", sizeof(tcase_t), 1, {4000000, 20000000}, tok_init, gen_c14, exec_c14, describe_c14,
                          "rows strtok_s, wcstok_s. phase 0: every string of length 0..7 (thorough 0..9) over {2 non-delimiters, 2 delimiters, 1 character that is a delimiter only for some calls} x dmax in {len (no terminator within dmax), len+1, len+4} "
                          "x 7 delimiter configurations (\",;\"; \",;-\" alternating with \",;\"; 16 characters with the delimiters last; \",\" then the empty string; 17 characters; \"-,\" alternating with \";\"; empty); "
                          "random phase: length 0..40, 1..3 delimiter strings of length 0..17 (duplicates and never-matching characters included) chosen per call; every sequence is continued with dest=NULL until two consecutive nulls (cap 2*len+6 calls); "
                          "non-trivial = at least 2 tokens, or a last token not followed by a delimiter, or dmax larger than len+1; distinct by the decoded case"};
