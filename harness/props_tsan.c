/* props_tsan.c -- C12, oracle O-B: two threads execute library calls on thread-private
 * buffers between barriers under ThreadSanitizer. A data race reported on an object
 * of the library is mutable static state shared between calls: a violation, named by
 * the symbol it is in. The race does not have to manifest as a wrong result: TSan's
 * happens-before analysis reports it from the two accesses alone.
 * (module C12T; only meaningful in the "tsan" build of library + harness) */
#define _GNU_SOURCE
#include "pbt.h"
#include <pthread.h>
#include <time.h>
#include <wchar.h>
#include <link.h>
#include <elf.h>
#include <fcntl.h>
#include <sys/stat.h>
#include <sys/mman.h>
#include <unistd.h>
#include "safe_lib.h"
#include "safe_str_lib.h"
#include "safe_mem_lib.h"

#if defined(__has_feature)
#if __has_feature(thread_sanitizer)
#define TT_TSAN 1
#endif
#endif

enum { TF_QSORT, TF_BSEARCH, TF_ASCTIME, TF_CTIME, TF_GMTIME, TF_LOCALTIME, TF_STRERROR, TF_GETENV, TF_SPRINTF_FLOAT, TF_SPRINTF_LS, TF_SWPRINTF, TF_SWPRINTF_NOSPC,
       TF_STRTOK, TF_WCSTOK, TF_WCSNORM, TF_WCSFC, TF_WCSICMP, TF_COPY, TF_MEM, TF_CONV, TF_TMPFILE, TF_VIOLATION, TF_N };
static const char *tfname[] = {"qsort_s", "bsearch_s", "asctime_s", "ctime_s", "gmtime_s", "localtime_s", "strerror_s", "getenv_s", "sprintf_s", "sprintf_s", "swprintf_s", "swprintf_s",
                               "strtok_s", "wcstok_s", "wcsnorm_s", "wcsfc_s", "wcsicmp_s", "strcpy_s", "memcpy_s", "mbstowcs_s", "tmpfile_s", "strcpy_s"};

typedef struct tcase { int fn, a, b, reps; } tcase_t;

static int gen_tt(cs_t *cs, void *k, const runcfg_t *cfg) {
    tcase_t *c = k;
    (void)cfg;
    c->fn = (int)cs_range(cs, 0, TF_N - 1);
    if (cfg->row_filter) { int i; for (i = 0; i < TF_N; i++) if (!strcmp(tfname[i], cfg->row_filter)) c->fn = i; }
    c->a = (int)cs_range(cs, 0, 7);
    c->b = (int)cs_range(cs, 0, 7);
    c->reps = 1 + (int)cs_range(cs, 0, 2);
    return 1;
}
static void tt_describe(const void *k, char *buf, size_t n) {
    const tcase_t *c = k;
    snprintf(buf, n, "two threads x %d: %s variant a=%d b=%d (row %d)", c->reps, tfname[c->fn % TF_N], c->a, c->b, c->fn);
}

/* everything a thread touches is in its own frame */
typedef struct tbuf {
    unsigned char arr[12000];
    char cb[1400];
    wchar_t wb[1300], ws[700];
} tbuf_t;

static int tt_cmp(const void *x, const void *y, void *ctx) { (void)ctx; return memcmp(x, y, 2); }
static void tt_handler(const char *m, void *p, errno_t e) { (void)m; (void)p; (void)e; }

static void tt_call(const tcase_t *c, int tid, tbuf_t *B) {
    struct tm tm, tmo;
    time_t t;
    size_t i, len = 0;
    int a = c->a, b = c->b + tid; /* the two threads work on different values */
    memset(&tm, 0, sizeof tm);
    switch (c->fn % TF_N) {
    case TF_QSORT: case TF_BSEARCH: {
        static const size_t sizes[] = {2, 4, 8, 31, 255, 256, 257, 300};
        size_t sz = sizes[a & 7], nm = 2 + (size_t)(b * 3);
        for (i = 0; i < sz * nm; i++) B->arr[i] = (unsigned char)(i * 131 + (size_t)a + (size_t)tid);
        if (c->fn == TF_QSORT) _qsort_s_chk(B->arr, nm, sz, tt_cmp, NULL, BOS_UNKNOWN);
        else _bsearch_s_chk(B->arr, B->arr, nm, sz, tt_cmp, NULL, BOS_UNKNOWN);
        break;
    }
    case TF_ASCTIME: {
        static const size_t dm[] = {26, 27, 40, 119, 120, 121, 200, 25};
        tm.tm_year = 100 + b; tm.tm_mon = b % 12; tm.tm_mday = 1 + b; tm.tm_hour = 5; tm.tm_wday = 2;
        _asctime_s_chk(B->cb, dm[a & 7], &tm, BOS_UNKNOWN);
        break;
    }
    case TF_CTIME: {
        static const size_t dm[] = {26, 27, 40, 119, 120, 121, 200, 25};
        t = (time_t)(1000000000 + b * 86400);
        _ctime_s_chk(B->cb, dm[a & 7], &t, BOS_UNKNOWN);
        break;
    }
    case TF_GMTIME: t = (time_t)(a * 100000000L + tid); gmtime_s(&t, &tmo); break;
    case TF_LOCALTIME: t = (time_t)(a * 100000000L + tid); localtime_s(&t, &tmo); break;
    case TF_STRERROR: _strerror_s_chk(B->cb, 10 + (size_t)a * 6, 398 + b, BOS_UNKNOWN); break;
    case TF_GETENV: _getenv_s_chk(&len, B->cb, 40 + (size_t)a, (b & 1) ? "PATH" : "VERIF_NOT_SET_XX", BOS_UNKNOWN); break;
    case TF_SPRINTF_FLOAT: {
        static const char *const f[] = {"%f|%d", "%Lf|%d", "%a|%d", "%.40e|%d", "%g|%d", "%#.150Lf|%d", "%30.3f|%d", "%La|%d"};
        if (a == 1 || a == 5 || a == 7) sprintf_s(B->cb, 600, f[a & 7], (long double)(1.5L * b + 1e10L), tid);
        else sprintf_s(B->cb, 600, f[a & 7], 2.5 * b + 1e10, tid);
        break;
    }
    case TF_SPRINTF_LS:
        if (a & 1) snprintf_s(B->cb, 100, "%ls|%lc|%d", L"wide string", (wint_t)(L'a' + b), tid);
        else sprintf_s(B->cb, 100, "%s|%5d|%x", "narrow", b, a);
        break;
    case TF_SWPRINTF:
        if (a & 1) swprintf_s(B->wb, 100, L"%ls-%d-%s", L"wide", b, "narrow");
        else snwprintf_s(B->wb, 100, L"%d %f", b, 1.5 * a);
        break;
    case TF_SWPRINTF_NOSPC: {
        size_t dmax = (a & 1) ? 600 : 20 + (size_t)b;
        for (i = 0; i < 650; i++) B->ws[i] = L'a' + (wchar_t)(i % 26);
        B->ws[650] = 0;
        if (a & 2) swprintf_s(B->wb, dmax, L"%ls", B->ws);
        else snwprintf_s(B->wb, dmax, L"%ls-%d", B->ws, b);
        break;
    }
    case TF_STRTOK: {
        char *ptr = NULL, *tok;
        rsize_t dm = 40;
        snprintf(B->cb, 40, "a,b;;c %d,e", b);
        tok = strtok_s(B->cb, &dm, ",; ", &ptr);
        while (tok) tok = strtok_s(NULL, &dm, ",; ", &ptr);
        break;
    }
    case TF_WCSTOK: {
        wchar_t *ptr = NULL, *tok;
        rsize_t dm = 40;
        swprintf(B->wb, 40, L"a,b;;c %d,e", b);
        tok = wcstok_s(B->wb, &dm, L",; ", &ptr);
        while (tok) tok = wcstok_s(NULL, &dm, L",; ", &ptr);
        break;
    }
    case TF_WCSNORM: {
        size_t n = 0;
        rsize_t l2 = 0;
        B->ws[n++] = L'a';
        for (i = 0; i < (size_t)(a * 3); i++) B->ws[n++] = (i & 1) ? 0x301 : 0x323;
        B->ws[n++] = 0xE9; B->ws[n++] = 0xAC01; B->ws[n] = 0;
        wcsnorm_s(B->wb, 1000, B->ws, (b & 1) ? WCSNORM_NFC : WCSNORM_NFD, &l2);
        break;
    }
    case TF_WCSFC: {
        rsize_t l2 = 0;
        B->ws[0] = L'A'; B->ws[1] = 0xDF; B->ws[2] = 0x130; B->ws[3] = (wchar_t)(0x3a3 + a); B->ws[4] = 0;
        wcsfc_s(B->wb, 64, B->ws, &l2);
        break;
    }
    case TF_WCSICMP: {
        int r = 0;
        B->ws[0] = L'A'; B->ws[1] = 0xDF; B->ws[2] = (wchar_t)(L'a' + b); B->ws[3] = 0;
        B->wb[0] = L'a'; B->wb[1] = L's'; B->wb[2] = L's'; B->wb[3] = 0;
        if (a & 1) wcsicmp_s(B->ws, 20, B->wb, 20, &r); else wcsnatcmp_s(B->ws, 20, B->wb, 20, &r);
        break;
    }
    case TF_COPY:
        strcpy_s(B->cb, 64, "the quick brown fox");
        strcat_s(B->cb, 64, " jumps");
        strncpy_s(B->cb + 100, 50, B->cb, (rsize_t)(5 + b));
        wcscpy_s(B->wb, 30, L"wide fox");
        wcscat_s(B->wb, 30, L"!");
        break;
    case TF_MEM:
        memset_s(B->arr, 300, a, 200 + (rsize_t)b);
        memcpy_s(B->arr + 400, 300, B->arr, 256);
        memmove_s(B->arr + 10, 300, B->arr, 200);
        memzero_s(B->arr, 64);
        break;
    case TF_CONV: {
        size_t rv = 0;
        mbstowcs_s(&rv, B->wb, 40, "plain ascii text", 30);
        wcstombs_s(&rv, B->cb, 40, L"plain wide text", 30);
        break;
    }
    case TF_TMPFILE: {
        FILE *f = NULL;
        if (tmpfile_s(&f) == 0 && f) fclose(f);
        break;
    }
    default: /* a constraint violation dispatched through the registered handler */
        { volatile rsize_t dm = 4; strcpy_s(B->cb, dm, "does not fit"); }
        { volatile rsize_t n = 50; memcpy_s(B->arr, 4, B->arr + 100, n); } /* volatile: the size check is meant to fail at run time, not in clang's diagnose_if */
        break;
    }
}

/* ---- race reports ---- */
static volatile int tt_races;
static volatile uintptr_t tt_race_addr;
static const char *volatile tt_race_desc_p;

typedef struct { uintptr_t value; size_t size; char name[56]; int is_func; } tsym_t;
static tsym_t *tsyms;
static int ntsyms;
static uintptr_t exe_base;
static int tt_phdr_cb(struct dl_phdr_info *info, size_t sz, void *d) { (void)sz; (void)d; exe_base = info->dlpi_addr; return 1; /* first entry: the executable */ }
static void tt_load_symbols(void) {
    int fd = open("/proc/self/exe", O_RDONLY);
    struct stat st;
    unsigned char *m;
    ElfW(Ehdr) *eh;
    ElfW(Shdr) *sh;
    int i;
    dl_iterate_phdr(tt_phdr_cb, NULL);
    if (fd < 0 || fstat(fd, &st) < 0) return;
    m = mmap(NULL, (size_t)st.st_size, PROT_READ, MAP_PRIVATE, fd, 0);
    close(fd);
    if (m == MAP_FAILED) return;
    eh = (ElfW(Ehdr) *)m;
    sh = (ElfW(Shdr) *)(m + eh->e_shoff);
    for (i = 0; i < eh->e_shnum; i++) {
        if (sh[i].sh_type == SHT_SYMTAB) {
            ElfW(Sym) *st0 = (ElfW(Sym) *)(m + sh[i].sh_offset);
            size_t n = sh[i].sh_size / sizeof(ElfW(Sym)), k;
            const char *str = (const char *)(m + sh[sh[i].sh_link].sh_offset);
            tsyms = calloc(n + 1, sizeof(tsym_t));
            for (k = 0; k < n; k++) {
                int ty = ELF64_ST_TYPE(st0[k].st_info);
                if ((ty == STT_OBJECT || ty == STT_TLS) && st0[k].st_size) {
                    tsyms[ntsyms].value = st0[k].st_value; tsyms[ntsyms].size = st0[k].st_size;
                    snprintf(tsyms[ntsyms].name, sizeof tsyms[0].name, "%s", str + st0[k].st_name);
                    ntsyms++;
                }
            }
        }
    }
}
static const char *tt_sym_of(uintptr_t addr) {
    int i;
    uintptr_t v = addr - exe_base;
    for (i = 0; i < ntsyms; i++) if (v >= tsyms[i].value && v < tsyms[i].value + tsyms[i].size) return tsyms[i].name;
    return NULL;
}

#ifdef TT_TSAN
int __tsan_get_report_data(void *report, const char **description, int *count, int *stack_count, int *mop_count, int *loc_count, int *mutex_count,
                           int *thread_count, int *unique_tid_count, void **sleep_trace, unsigned long trace_size);
int __tsan_get_report_mop(void *report, unsigned long idx, int *tid, void **addr, int *size, int *write, int *atomic, void **trace, unsigned long trace_size);
void __tsan_on_report(void *report);
/* not instrumented: a store to the harness's own counters from inside the report callback would itself be
   reported while the report lock is held (observed: deadlock) */
__attribute__((no_sanitize("thread"))) void __tsan_on_report(void *report) {
    const char *desc = NULL;
    int count = 0, sc = 0, mc = 0, lc = 0, mtc = 0, tc = 0, ut = 0, tid = 0, size = 0, wr = 0, at = 0;
    void *sleep_trace[2] = {0, 0}, *trace[2] = {0, 0}, *addr = NULL;
    __tsan_get_report_data(report, &desc, &count, &sc, &mc, &lc, &mtc, &tc, &ut, sleep_trace, 1);
    if (mc > 0) __tsan_get_report_mop(report, 0, &tid, &addr, &size, &wr, &at, trace, 1);
    if (!tt_races) { tt_race_addr = (uintptr_t)addr; tt_race_desc_p = desc; }
    tt_races++;
}
const char *__tsan_default_options(void);
const char *__tsan_default_options(void) { return "halt_on_error=0:exitcode=0:report_signal_unsafe=0:report_thread_leaks=0:history_size=2:second_deadlock_stack=0"; }
#endif

static pthread_barrier_t tt_bar;
typedef struct { const tcase_t *c; int tid; } targ_t;
static void *tt_thread(void *p) {
    targ_t *a = p;
    tbuf_t *B = malloc(sizeof *B); /* private heap block: nothing shared */
    int i;
    if (!B) return NULL;
    memset(B, 0, sizeof *B);
    pthread_barrier_wait(&tt_bar);
    for (i = 0; i < a->c->reps; i++) tt_call(a->c, a->tid, B);
    free(B);
    return NULL;
}

static void tt_init(const runcfg_t *cfg) {
    (void)cfg;
    tt_load_symbols();
    setenv("TZ", "UTC", 1);
    tzset(); /* done once, before any thread exists: localtime_s would otherwise race inside libc's tzset */
}

static void exec_tt(const void *k, res_t *r, const runcfg_t *cfg) {
    const tcase_t *c = k;
    pthread_t th[2];
    targ_t ta[2];
    int i;
    (void)cfg;
    r->hash = cs_hash_bytes(CS_HASH_INIT, c, sizeof *c);
    res_label(r, tfname[c->fn % TF_N]);
#ifndef TT_TSAN
    res_label(r, "not-a-tsan-build");
    return;
#endif
    set_str_constraint_handler_s(tt_handler); set_mem_constraint_handler_s(tt_handler);
    tt_races = 0; tt_race_addr = 0; tt_race_desc_p = NULL;
    pthread_barrier_init(&tt_bar, NULL, 2);
    for (i = 0; i < 2; i++) { ta[i].c = c; ta[i].tid = i; pthread_create(&th[i], NULL, tt_thread, &ta[i]); }
    for (i = 0; i < 2; i++) pthread_join(th[i], NULL);
    pthread_barrier_destroy(&tt_bar);
    r->nontrivial = 1;
    if (tt_races) {
        const char *sym = tt_sym_of(tt_race_addr);
        r->fragile = 1; /* TSan reports each racy pair once per process: start the next case in a fresh worker */
        if (sym && (!strncmp(sym, "tt_", 3) || !strncmp(sym, "g_ar", 4))) { res_label(r, "harness-race(machinery)"); return; }
        RES_VIOL(r, "C12:%s:data-race:%s", tfname[c->fn % TF_N], sym ? sym : "unnamed-object");
        RES_DETAIL(r, "ThreadSanitizer: %s at %p (%s), %d report(s), two threads on private buffers", tt_race_desc_p ? tt_race_desc_p : "?", (void *)tt_race_addr, sym ? sym : "no symbol", tt_races);
    }
}

const module_t mod_C12T = {"C12T", sizeof(tcase_t), 1, {3000, 40000}, tt_init, gen_tt, exec_tt, tt_describe,
                           "two threads execute the same library call (different values, thread-private buffers) between barriers under ThreadSanitizer; non-trivial = both threads ran the call; distinct by (row, variants, repetitions)"};
