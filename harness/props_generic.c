/* props_generic.c -- C01 C02 C03 C04 C05 C08 oracles over the generic case */
#include "generic.h"

static gexec_t X;

static const char *bufname(int b) {
    switch (b) { case 0: return "dest"; case 1: return "src"; case 2: return "out"; case 3: return "errp"; default: return "other"; }
}

static void common_labels(const gcase_t *c, res_t *r) {
    static const char *dk[] = {"dest:exact", "dest:roomy", "dest:toldlie", "dest:overmax"};
    static const char *dc[] = {"dcontent:garbage", "dcontent:str", "dcontent:unterm", "dcontent:bytes"};
    const row_t *row = &g_rows[c->row];
    static const char *fam[] = {"fam:COPY", "fam:CAT", "fam:MEMCPY", "fam:FILL", "fam:INPLACE", "fam:QUERY"};
    res_label(r, fam[row->fam]);
    res_label(r, dk[c->dkind]);
    res_label(r, dc[c->dcontent]);
    res_label(r, c->dbos ? "bos:known" : "bos:unknown");
    if (row->fl & F_SRC) {
        static const char *sc[] = {"scontent:str", "scontent:unterm", "scontent:bytes"};
        res_label(r, sc[c->scontent]);
    }
    if (c->dest_null || c->src_null || c->out_null) res_label(r, "has-null");
}

/* classify the size relation for finding keys (input feature, not line number) */
static const char *relclass(const gcase_t *c) {
    const row_t *row = &g_rows[c->row];
    if (c->dkind == DK_OVERMAX) return "dmax>RSIZE_MAX";
    if (c->dkind == DK_TOLDLIE) return "dmax>destbos";
    if (c->dest_null || c->src_null || c->out_null) return "null-arg";
    if ((row->fl & F_DIN) && c->dcontent == DC_UNTERM) return "dest-unterminated";
    if ((row->fl & F_SRCSTR) && c->scontent == SC_UNTERM) return "src-unterminated";
    if ((row->fl & F_SLEN) && c->slen > row->dmax_max) return "slen>RSIZE_MAX";
    if ((row->fl & F_N) && c->n > row->dmax_max) return "n>RSIZE_MAX";
    return "valid-sizes";
}

/* ---------- C01 / C02 ---------- */
static int gen_c01(cs_t *cs, void *k, const runcfg_t *cfg) { gcase_t *c = k; int ok = gc_gen(cs, c, cfg, 1); c->guard = G_RO; return ok; }
static int gen_c02(cs_t *cs, void *k, const runcfg_t *cfg) { gcase_t *c = k; int ok = gc_gen(cs, c, cfg, 2); c->guard = G_NA; return ok; }

static void exec_c01(const void *k, res_t *r, const runcfg_t *cfg) {
    const gcase_t *c = k;
    const row_t *row = &g_rows[c->row];
    (void)cfg;
    gc_run(c, &X);
    r->hash = gc_hash(c);
    common_labels(c, r);
    /* non-trivial: dest non-NULL and the call stored something or got past entry checks */
    r->nontrivial = !c->dest_null && (row->fl & F_DW) && c->dkind != DK_OVERMAX && c->dmax > 0;
    if (X.faulted && X.sig != SIGSEGV && X.sig != SIGBUS) {
        RES_VIOL(r, "C01:%s:signal-%d:%s", row->name, X.sig, relclass(c));
        RES_DETAIL(r, "signal %d raised inside the call", X.sig);
        r->fragile = 1;
        return;
    }
    if (X.faulted && X.fault_write) {
        RES_VIOL(r, "C01:%s:store-%s-%s:%s", row->name, X.fault_off < 0 ? "before" : "past", bufname(X.fault_buf), relclass(c));
        RES_DETAIL(r, "store fault at %s%+ld (object %zu bytes)", bufname(X.fault_buf), X.fault_off,
                   X.fault_buf == 0 ? c->dtrue : c->strue);
        return;
    }
    if (X.faulted) { res_label(r, "foreign-read-fault"); return; }
    if (X.canary_bad) {
        long off = 0;
        int b = ar_locate((uintptr_t)X.canary_bad, &off);
        int bi = -1;
        if (b >= 0) { unsigned char *p = g_ar.bufs[b].p; bi = p == X.dest ? 0 : (p == X.src ? 1 : (p == X.out ? 2 : (p == X.errp ? 3 : -1))); }
        RES_VIOL(r, "C01:%s:canary-%s-%s:%s", row->name, off < 0 ? "before" : "past", bufname(bi), relclass(c));
        RES_DETAIL(r, "canary overwritten at %s%+ld", bufname(bi), off);
        return;
    }
    /* slack between declared dmax and the true object end must be untouched */
    if (!c->dest_null && c->dkind == DK_ROOMY) {
        size_t decl = c->dmax * (size_t)row->du, i;
        for (i = decl; i < c->dtrue; i++)
            if (X.dest[i] != X.dest_before[i]) {
                RES_VIOL(r, "C01:%s:store-past-dmax-inside-object:%s%s", row->name, relclass(c), c->dbos ? ":bos-known" : "");
                RES_DETAIL(r, "byte dest[%zu] changed, declared dmax covers %zu bytes, object %zu", i, decl, c->dtrue);
                return;
            }
    }
    /* source never written unless it is the destination */
    if ((row->fl & F_SRC) && X.src && memcmp(X.src, X.src_before, c->strue) != 0) {
        RES_VIOL(r, "C01:%s:source-modified:%s", row->name, relclass(c));
        RES_DETAIL(r, "source object changed by the call%s", "");
        return;
    }
    /* read-only rows must not modify dest either */
    if (!(row->fl & F_DW) && memcmp(X.dest, X.dest_before, c->dtrue) != 0) {
        RES_VIOL(r, "C01:%s:readonly-operand-modified:%s", row->name, relclass(c));
        RES_DETAIL(r, "dest of a query function changed%s", "");
    }
}

static void exec_c02(const void *k, res_t *r, const runcfg_t *cfg) {
    const gcase_t *c = k;
    const row_t *row = &g_rows[c->row];
    (void)cfg;
    gc_run(c, &X);
    r->hash = gc_hash(c);
    common_labels(c, r);
    r->nontrivial = !c->dest_null && c->dmax > 0 && c->dkind != DK_OVERMAX && !((row->fl & F_SRC) && c->src_null) &&
                    (row->fl & (F_DIN | F_DMEM | F_SRC));
    if (X.faulted && X.sig != SIGSEGV && X.sig != SIGBUS) {
        res_label(r, "foreign-signal");
        r->fragile = 1;
        return;
    }
    if (X.faulted && !X.fault_write) {
        RES_VIOL(r, "C02:%s:load-%s-%s:%s", row->name, X.fault_off < 0 ? "before" : "past", bufname(X.fault_buf), relclass(c));
        RES_DETAIL(r, "load fault at %s%+ld (object %zu bytes)", bufname(X.fault_buf), X.fault_off,
                   X.fault_buf == 0 ? c->dtrue : c->strue);
        return;
    }
    if (X.faulted) res_label(r, "foreign-store-fault");
}

static void g_init(const runcfg_t *cfg) { (void)cfg; gh_install(); }

const module_t mod_C01 = {"C01", sizeof(gcase_t), 1, {3000000, 40000000}, g_init, gen_c01, exec_c01, gc_describe,
                          "generic rows (COPY CAT MEMCPY FILL INPLACE QUERY): truthful size declarations, RO guard pages + canaries; "
                          "non-trivial = dest non-NULL, dmax>0 within limits and the row writes dest; distinct by decoded arguments minus content seed"};
const module_t mod_C02 = {"C02", sizeof(gcase_t), 1, {3000000, 40000000}, g_init, gen_c02, exec_c02, gc_describe,
                          "generic rows: PROT_NONE guard flush after/before every declared extent; non-trivial = scanned operand non-NULL, "
                          "declared size >= 1, sizes within limits; distinct by decoded arguments minus content seed"};
