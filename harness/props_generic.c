/* props_generic.c -- C01 C02 C03 C04 C05 C08 oracles over the generic case */
#include "generic.h"
#include "wraps.h"

static gexec_t X;

static const char *bufname(int b) {
    switch (b) { case 0: return "dest"; case 1: return "src"; case 2: return "out"; case 3: return "errp"; default: return "other"; }
}

static void common_labels(const gcase_t *c, res_t *r) {
    static const char *dk[] = {"dest:exact", "dest:roomy", "dest:toldlie", "dest:overmax"};
    static const char *dc[] = {"dcontent:garbage", "dcontent:str", "dcontent:unterm", "dcontent:bytes"};
    const row_t *row = &g_rows[c->row];
    static const char *fam[] = {"fam:COPY", "fam:CAT", "fam:MEMCPY", "fam:FILL", "fam:INPLACE", "fam:QUERY"};
    res_label(r, fam[row->fam]);
    res_label(r, dk[c->dkind]);
    res_label(r, dc[c->dcontent]);
    res_label(r, c->dbos ? "bos:known" : "bos:unknown");
    if (row->fl & F_SRC) {
        static const char *sc[] = {"scontent:str", "scontent:unterm", "scontent:bytes"};
        res_label(r, sc[c->scontent]);
    }
    if (c->dest_null || c->src_null || c->out_null) res_label(r, "has-null");
}

/* classify the size relation for finding keys (input feature, not line number) */
static const char *relclass(const gcase_t *c) {
    const row_t *row = &g_rows[c->row];
    if (c->dkind == DK_TOLDLIE) return "dmax>destbos";
    if (c->dest_null || c->src_null || c->out_null) return "null-arg";
    if ((row->fl & F_DIN) && c->dcontent == DC_UNTERM) return "dest-unterminated";
    if ((row->fl & F_SRCSTR) && c->scontent == SC_UNTERM) return "src-unterminated";
    if (c->dkind == DK_OVERMAX) return "dmax>RSIZE_MAX";
    if ((row->fl & F_SLEN) && c->slen > row->dmax_max) return "slen>RSIZE_MAX";
    if ((row->fl & F_N) && c->n > row->dmax_max) return "n>RSIZE_MAX";
    return "valid-sizes";
}

/* ---------- C01 / C02 ---------- */
static int gen_c01(cs_t *cs, void *k, const runcfg_t *cfg) { gcase_t *c = k; int ok = gc_gen(cs, c, cfg, 1); c->guard = G_RO; return ok; }
static int gen_c02(cs_t *cs, void *k, const runcfg_t *cfg) { gcase_t *c = k; int ok = gc_gen(cs, c, cfg, 2); c->guard = G_NA; return ok; }

static void exec_c01(const void *k, res_t *r, const runcfg_t *cfg) {
    const gcase_t *c = k;
    const row_t *row = &g_rows[c->row];
    (void)cfg;
    gc_run(c, &X);
    r->hash = gc_hash(c);
    common_labels(c, r);
    /* non-trivial: dest non-NULL and the call stored something or got past entry checks */
    r->nontrivial = !c->dest_null && (row->fl & F_DW) && c->dkind != DK_OVERMAX && c->dmax > 0;
    if (X.faulted && X.sig != SIGSEGV && X.sig != SIGBUS) {
        RES_VIOL(r, "C01:%s:signal-%d:%s", row->name, X.sig, relclass(c));
        RES_DETAIL(r, "signal %d raised inside the call", X.sig);
        r->fragile = 1;
        return;
    }
    if (X.faulted && X.fault_write) {
        RES_VIOL(r, "C01:%s:store-%s-%s:%s", row->name, X.fault_off < 0 ? "before" : "past", bufname(X.fault_buf), relclass(c));
        RES_DETAIL(r, "store fault at %s%+ld (object %zu bytes)", bufname(X.fault_buf), X.fault_off,
                   X.fault_buf == 0 ? c->dtrue : c->strue);
        return;
    }
    if (X.faulted) { res_label(r, "foreign-read-fault"); return; }
    if (X.canary_bad) {
        long off = 0;
        int b = ar_locate((uintptr_t)X.canary_bad, &off);
        int bi = -1;
        if (b >= 0) { unsigned char *p = g_ar.bufs[b].p; bi = p == X.dest ? 0 : (p == X.src ? 1 : (p == X.out ? 2 : (p == X.errp ? 3 : -1))); }
        RES_VIOL(r, "C01:%s:canary-%s-%s:%s", row->name, off < 0 ? "before" : "past", bufname(bi), relclass(c));
        RES_DETAIL(r, "canary overwritten at %s%+ld", bufname(bi), off);
        return;
    }
    /* slack between declared dmax and the true object end must be untouched */
    if (!c->dest_null && c->dkind == DK_ROOMY) {
        size_t decl = c->dmax * (size_t)row->du, i;
        for (i = decl; i < c->dtrue; i++)
            if (X.dest[i] != X.dest_before[i]) {
                RES_VIOL(r, "C01:%s:store-past-dmax-inside-object:%s%s", row->name, relclass(c), c->dbos ? ":bos-known" : "");
                RES_DETAIL(r, "byte dest[%zu] changed, declared dmax covers %zu bytes, object %zu", i, decl, c->dtrue);
                return;
            }
    }
    /* source never written unless it is the destination */
    if ((row->fl & F_SRC) && X.src && memcmp(X.src, X.src_before, c->strue) != 0) {
        RES_VIOL(r, "C01:%s:source-modified:%s", row->name, relclass(c));
        RES_DETAIL(r, "source object changed by the call%s", "");
        return;
    }
    /* read-only rows must not modify dest either */
    if (!(row->fl & F_DW) && memcmp(X.dest, X.dest_before, c->dtrue) != 0) {
        RES_VIOL(r, "C01:%s:readonly-operand-modified:%s", row->name, relclass(c));
        RES_DETAIL(r, "dest of a query function changed%s", "");
    }
}

static void exec_c02(const void *k, res_t *r, const runcfg_t *cfg) {
    const gcase_t *c = k;
    const row_t *row = &g_rows[c->row];
    (void)cfg;
    gc_run(c, &X);
    r->hash = gc_hash(c);
    common_labels(c, r);
    r->nontrivial = !c->dest_null && c->dmax > 0 && c->dkind != DK_OVERMAX && !((row->fl & F_SRC) && c->src_null) &&
                    (row->fl & (F_DIN | F_DMEM | F_SRC));
    if (X.faulted && X.sig != SIGSEGV && X.sig != SIGBUS) {
        res_label(r, "foreign-signal");
        r->fragile = 1;
        return;
    }
    if (X.faulted && !X.fault_write) {
        RES_VIOL(r, "C02:%s:load-%s-%s:%s", row->name, X.fault_off < 0 ? "before" : "past", bufname(X.fault_buf), relclass(c));
        RES_DETAIL(r, "load fault at %s%+ld (object %zu bytes)", bufname(X.fault_buf), X.fault_off,
                   X.fault_buf == 0 ? c->dtrue : c->strue);
        return;
    }
    if (X.faulted) res_label(r, "foreign-store-fault");
}

/* ---------- shared helpers for C03 C04 C05 C08 ---------- */
static int dest_usable(const gcase_t *c, const row_t *row) {
    return !c->dest_null && c->dmax > 0 && c->dmax <= row->dmax_max && c->dmax * (size_t)row->du <= c->dtrue;
}
/* 1 failure (constraint violation reported), 0 success or plain status */
static int call_failed(const row_t *row, const gexec_t *x) {
    switch (row->ret_kind) {
    case RK_ERRNO: return !(x->a.ret == EOK || x->a.ret == ESNOTFND || x->a.ret == ESNODIFF);
    case RK_PTR_ERRP: return x->a.errp ? x->errp_val != EOK : x->a.ret == 0;
    default: return (x->h_str + x->h_mem) > 0;
    }
}
static long call_code(const row_t *row, const gexec_t *x) {
    if (row->ret_kind == RK_ERRNO) return x->a.ret;
    if (row->ret_kind == RK_PTR_ERRP) return x->a.errp ? x->errp_val : -1;
    return x->h_code;
}
static const char *codename(long c) {
    static char buf[24];
    switch (c) {
    case 0: return "EOK"; case ESNULLP: return "ESNULLP"; case ESZEROL: return "ESZEROL"; case ESLEMIN: return "ESLEMIN";
    case ESLEMAX: return "ESLEMAX"; case ESOVRLP: return "ESOVRLP"; case ESEMPTY: return "ESEMPTY"; case ESNOSPC: return "ESNOSPC";
    case ESUNTERM: return "ESUNTERM"; case ESNODIFF: return "ESNODIFF"; case ESNOTFND: return "ESNOTFND"; case ESLEWRNG: return "ESLEWRNG";
    case EOVERFLOW: return "EOVERFLOW"; case -1: return "-1";
    default: snprintf(buf, sizeof buf, "code%ld", c); return buf;
    }
}
static long first_nul(const unsigned char *p, int w, size_t n) {
    size_t i;
    for (i = 0; i < n; i++) if (gc_elem(p, w, i) == 0) return (long)i;
    return -1;
}

/* ---------- C03: dest is always terminated ---------- */
static int gen_c03(cs_t *cs, void *k, const runcfg_t *cfg) {
    gcase_t *c = k; int ok = gc_gen(cs, c, cfg, 3); c->guard = G_NA;
    c->dest_null = 0; if (c->dkind == DK_OVERMAX) c->dkind = DK_EXACT, c->dmax = c->dtrue / (size_t)g_rows[c->row].du;
    return ok;
}
static void exec_c03(const void *k, res_t *r, const runcfg_t *cfg) {
    const gcase_t *c = k;
    const row_t *row = &g_rows[c->row];
    size_t n = c->dmax * (size_t)row->du / (size_t)row->w;
    (void)cfg;
    gc_run(c, &X);
    r->hash = gc_hash(c);
    common_labels(c, r);
    if (X.faulted) { res_label(r, "foreign-fault"); if (X.sig != SIGSEGV) r->fragile = 1; return; }
    if (!dest_usable(c, row)) { res_label(r, "dest-unusable"); return; }
    r->nontrivial = 1;
    res_label(r, call_failed(row, &X) ? "ret:failure" : "ret:success");
    /* documented exemption: zero-length request defined as a no-op */
    if ((row->fl & F_ZEROLEN_NOOP) && c->slen == 0) { res_label(r, "exempt:zero-length-noop"); return; }
    /* in-place fill rows (strset_s family, strnterminate_s excepted) document "dest shall be null-terminated" and
       define nothing for an unterminated input: not judged (a transform of a non-string is not a string) */
    if ((row->fl & F_DIN) && !(row->fl & F_DIN_TERM) && row->ret_kind == RK_ERRNO && first_nul(X.dest_before, row->w, n) < 0) {
        res_label(r, "exempt:undefined-unterminated-input");
        r->nontrivial = 0;
        return;
    }
    if (first_nul(X.dest, row->w, n) < 0) {
        RES_VIOL(r, "C03:%s:unterminated-after-%s:%s", row->name, codename(call_code(row, &X)), relclass(c));
        RES_DETAIL(r, "no NUL within the first %zu elements of dest after return code %s", n, codename(call_code(row, &X)));
    }
}

/* ---------- C04: a failed call leaves no partial result ---------- */
static int gen_c04(cs_t *cs, void *k, const runcfg_t *cfg) {
    gcase_t *c = k; int ok = gc_gen(cs, c, cfg, 4); c->guard = G_NA;
    c->dest_null = 0; if (c->dkind == DK_OVERMAX) c->dkind = DK_EXACT, c->dmax = c->dtrue / (size_t)g_rows[c->row].du;
    return ok;
}
static void exec_c04(const void *k, res_t *r, const runcfg_t *cfg) {
    const gcase_t *c = k;
    const row_t *row = &g_rows[c->row];
    size_t n = c->dmax * (size_t)row->du / (size_t)row->w, i;
    long code;
    int noslack = cfg->libcfg && strstr(cfg->libcfg, "noslack") != NULL;
    gc_run(c, &X);
    r->hash = gc_hash(c);
    common_labels(c, r);
    if (X.faulted) { res_label(r, "foreign-fault"); if (X.sig != SIGSEGV) r->fragile = 1; return; }
    if (!dest_usable(c, row)) { res_label(r, "dest-unusable"); return; }
    if (!call_failed(row, &X)) { res_label(r, "ret:success"); return; }
    code = call_code(row, &X);
    r->nontrivial = 1;
    res_label(r, "ret:failure");
    if ((row->fl & F_ZEROLEN_NOOP) && c->slen == 0) return;
    /* a source that does not overlap dest is never modified */
    if ((row->fl & F_SRC) && X.src && memcmp(X.src, X.src_before, c->strue) != 0) {
        RES_VIOL(r, "C04:%s:source-modified-on-%s:%s", row->name, codename(code), relclass(c));
        RES_DETAIL(r, "source changed by a failed call%s", "");
        return;
    }
    if (n == 0) return;
    if (gc_elem(X.dest, row->w, 0) != 0) {
        RES_VIOL(r, "C04:%s:dest0-nonzero-after-%s:%s", row->name, codename(code), relclass(c));
        RES_DETAIL(r, "dest[0]=0x%zx after failure %s", gc_elem(X.dest, row->w, 0), codename(code));
        return;
    }
    if (noslack && !(row->fl & F_MEM)) {
        /* documented: only the first element is cleared; remnants are counted, not judged */
        for (i = 1; i < n; i++) if (gc_elem(X.dest, row->w, i) != 0 && gc_elem(X.dest, row->w, i) != gc_elem(X.dest_before, row->w, i)) { res_label(r, "noslack-remnant"); break; }
        return;
    }
    for (i = 0; i < n; i++) {
        size_t v = gc_elem(X.dest, row->w, i);
        if (v != 0 && v != gc_elem(X.dest_before, row->w, i)) {
            RES_VIOL(r, "C04:%s:partial-result-after-%s:%s", row->name, codename(code), relclass(c));
            RES_DETAIL(r, "dest[%zu]=0x%zx (prefill 0x%zx) visible after failure %s", i, v, gc_elem(X.dest_before, row->w, i), codename(code));
            return;
        }
    }
    if (code == ESNOSPC || code == ESOVRLP || code == ESUNTERM || (code == ESNULLP && c->src_null)) {
        for (i = 0; i < n; i++)
            if (gc_elem(X.dest, row->w, i) != 0) {
                RES_VIOL(r, "C04:%s:not-all-cleared-after-%s:%s", row->name, codename(code), relclass(c));
                RES_DETAIL(r, "dest[%zu]=0x%zx not zeroed after %s (dmax %zu)", i, gc_elem(X.dest, row->w, i), codename(code), c->dmax);
                return;
            }
    }
}

/* ---------- C08: nothing stale behind the terminator ---------- */
static int gen_c08(cs_t *cs, void *k, const runcfg_t *cfg) {
    gcase_t *c = k; int ok = gc_gen(cs, c, cfg, 8); c->guard = G_NA;
    c->dest_null = 0; c->src_null = 0; if (c->dkind == DK_OVERMAX) c->dkind = DK_EXACT, c->dmax = c->dtrue / (size_t)g_rows[c->row].du;
    return ok;
}
static void exec_c08(const void *k, res_t *r, const runcfg_t *cfg) {
    const gcase_t *c = k;
    const row_t *row = &g_rows[c->row];
    size_t n = c->dmax * (size_t)row->du / (size_t)row->w, i;
    long L;
    int noslack = cfg->libcfg && strstr(cfg->libcfg, "noslack") != NULL;
    gc_run(c, &X);
    r->hash = gc_hash(c);
    common_labels(c, r);
    if (X.faulted) { res_label(r, "foreign-fault"); if (X.sig != SIGSEGV) r->fragile = 1; return; }
    if (!dest_usable(c, row)) { res_label(r, "dest-unusable"); return; }
    if (call_failed(row, &X)) { res_label(r, "ret:failure"); return; }
    res_label(r, "ret:success");
    if ((row->fl & F_ZEROLEN_NOOP) && c->slen == 0) return;
    if ((row->fl & F_DIN) && !(row->fl & F_DIN_TERM) && first_nul(X.dest_before, row->w, n) < 0) { res_label(r, "exempt:undefined-unterminated-input"); return; }
    if ((row->fl & F_VAL) && row->fam == FAM_FILL && c->val == 0) { res_label(r, "exempt:fill-value-0"); return; }
    L = first_nul(X.dest, row->w, n);
    if (L < 0 && noslack) { /* the no-slack build's half of the statement: at least the terminator is present */
        r->nontrivial = 1;
        RES_VIOL(r, "C08:%s:no-terminator-in-noslack-build:%s", row->name, relclass(c));
        RES_DETAIL(r, "successful call, no NUL within the first %zu elements of dest (library built with --disable-nullslack)", n);
        return;
    }
    if (L < 0) { res_label(r, "foreign-unterminated(C03)"); return; }
    if (!(row->fl & F_SRCSTR) && (row->fl & F_SLEN) && (row->fl & F_DSTR)) {
        /* strcpyfldout_s: copies slen characters, embedded NULs are data; the result ends at slen */
        L = (long)(c->slen < n ? c->slen : n - 1);
    }
    if ((size_t)L + 1 < n) r->nontrivial = 1;
    res_label(r, n > 0x20 ? "dmax>0x20" : "dmax<=0x20");
    if (noslack) return; /* terminator present: verified by L >= 0 */
    for (i = (size_t)L; i < n; i++)
        if (gc_elem(X.dest, row->w, i) != 0) {
            RES_VIOL(r, "C08:%s:stale-slack:%s%s", row->name, relclass(c), n > 0x20 ? ":dmax>0x20" : "");
            RES_DETAIL(r, "dest[%zu]=0x%zx behind the terminator at %ld (dmax %zu)", i, gc_elem(X.dest, row->w, i), L, n);
            return;
        }
}

/* ---------- C05: every violation reported exactly once with the returned code ---------- */
static int gen_c05(cs_t *cs, void *k, const runcfg_t *cfg) { gcase_t *c = k; int ok = gc_gen(cs, c, cfg, 5); c->guard = G_NA; return ok; }

/* definite violations of documented constraints (clear-cut predicates only); fills acceptable codes */
/* the doc defines a zero-length request as EOK (its priority against other violations is not stated): not modelled */
static int zero_length_request(const gcase_t *c, const row_t *row) {
    if ((row->fl & F_ZEROLEN_NOOP) && c->slen == 0) return 1;
    if ((row->fl & F_SLEN) && c->slen == 0 && (row->fam == FAM_COPY || row->fam == FAM_CAT || row->fam == FAM_INPLACE)) return 1;
    if ((row->fl & F_N) && c->n == 0 && (row->fam == FAM_FILL || row->fam == FAM_MEMCPY)) return 1;
    if (row->fam == FAM_INPLACE && row->w == 4 && c->dmax == 0) return 1; /* wcslwr_s/wcsupr_s: "EOK ... or slen = 0" */
    return 0;
}
static int definite_violation(const gcase_t *c, const row_t *row, long *codes, int *ncodes) {
    int n = 0;
    size_t dbytes = c->dmax * (size_t)row->du;
    int has_out = row->out_kind != OUT_NONE || row->ret_kind == RK_PTR_ERRP;
#define ADD(code) do { if (n < 12) codes[n++] = (code); } while (0)
    *ncodes = 0;
    if (zero_length_request(c, row)) return 0;
    if (row->ret_kind == RK_LEN || row->ret_kind == RK_BOOL) return 0; /* no error return channel: only the generic invariants apply */
    if (c->dest_null) ADD(ESNULLP);
    if ((row->fl & F_SRC) && c->src_null) ADD(ESNULLP);
    if (has_out && c->out_null) ADD(ESNULLP);
    if (c->dmax == 0 && !(row->fl & F_DMAX_ZERO_OK)) ADD(ESZEROL);
    if (c->dmax > row->dmax_max) ADD(ESLEMAX);
    if (c->dbos && (c->dmax > (size_t)-1 / (size_t)row->du || dbytes > c->dtrue)) { ADD(EOVERFLOW); ADD(ESLEMAX); }
    if ((row->fl & F_SLEN) && c->slen > row->dmax_max * (size_t)row->du / (size_t)row->su) ADD(ESLEMAX);
    if ((row->fl & F_N) && row->fam != FAM_QUERY && c->n > row->dmax_max) ADD(ESLEMAX);
    if ((row->fl & F_SLEN) && (row->fl & F_SLEN_NZ) && c->slen == 0) ADD(ESZEROL);
    if ((row->fl & F_VAL255) && c->val > 255) ADD(ESLEMAX);
    if (n) {
        /* other codes a simultaneous violation may legitimately produce first */
        if ((row->fl & F_SLE_DMAX) && c->slen * (size_t)row->su > dbytes) { ADD(ESNOSPC); ADD(ESLEMAX); }
        if ((row->fl & F_NLE_DMAX) && c->n * (size_t)row->su > dbytes) { ADD(ESNOSPC); ADD(ESLEMAX); }
        if ((row->fl & F_SRCBOS) && c->sbos) { ADD(EOVERFLOW); ADD(ESLEMAX); }
        ADD(ESUNTERM); ADD(ESNOSPC); ADD(ESOVRLP);
    }
#undef ADD
    *ncodes = n;
    return n > 0;
}

/* benign by construction: nothing documented is violated (conservative: returns 0 when unsure) */
static int benign(const gcase_t *c, const row_t *row) {
    size_t n = c->dmax * (size_t)row->du / (size_t)row->w; /* dest elements declared */
    size_t delems = c->dtrue / (size_t)row->w;
    int has_out = row->out_kind != OUT_NONE || row->ret_kind == RK_PTR_ERRP;
    if (c->dest_null || ((row->fl & F_SRC) && c->src_null) || (has_out && c->out_null)) return 0;
    if (c->dkind != DK_EXACT && c->dkind != DK_ROOMY) return 0;
    if (c->dmax == 0 || c->dmax > row->dmax_max || n > delems) return 0;
    if ((row->fl & F_DIN) && !(c->dcontent == DC_STR && c->dlen < n)) return 0;
    if (zero_length_request(c, row)) return 0;
    if ((row->fl & F_VAL255) && (c->val > 255 || c->val < 0)) return 0;
    if ((row->fl & F_VAL) && row->w == 4 && (c->val > 0x10ffff || c->val < 0)) return 0;
    if ((row->fl & F_N) && c->n > n) return 0;
    if ((row->fl & F_N) && c->n == 0 && row->fam != FAM_FILL) return 0;
    if (row->fl & F_SRC) {
        if (row->fl & F_SLEN) {
            if (c->slen == 0 || c->slen > row->dmax_max) return 0;
            if (c->slen * (size_t)row->su > c->strue) return 0;          /* keep slen within the object (srcbos) */
            if ((row->fl & F_SLE_DMAX) && c->slen * (size_t)row->su > c->dmax * (size_t)row->du) return 0;
        }
        if (row->fl & F_SRCSTR) {
            if (c->scontent != SC_STR) return 0;
            if ((row->fl & F_SLEN) && c->slen_true >= c->slen) return 0; /* terminated inside slen */
            switch (row->fam) {
            case FAM_COPY: if (c->slen_true + 1 > n) return 0; break;
            case FAM_CAT: if (c->dlen + c->slen_true + 1 > n) return 0; break;
            default: if (c->slen_true >= n && !(row->fl & F_SLEN)) return 0; break;
            }
        }
    }
    if (!strcmp(row->name, "memccpy_s") && c->n >= n) return 0; /* n == dmax without the stop character is ESNOSPC by design */
    if (!strcmp(row->name, "strispassword_s")) return 0; /* has its own length window: not modelled here */
    if (!strcmp(row->name, "strrchr_s") && c->dlen == 0) return 0; /* doc: ESZEROL for the empty string */
    if (!strcmp(row->name, "strncat_s") || !strcmp(row->name, "wcsncat_s")) { if (c->slen == 0) return 0; }
    return 1;
}

static void exec_c05(const void *k, res_t *r, const runcfg_t *cfg) {
    const gcase_t *c = k;
    const row_t *row = &g_rows[c->row];
    long codes[12];
    int ncodes = 0, dv, hc, failed, i;
    long code;
    (void)cfg;
    gc_run(c, &X);
    r->hash = gc_hash(c);
    common_labels(c, r);
    dv = definite_violation(c, row, codes, &ncodes);
    if (g_globstate_calls) { /* C12: the call used process-wide state of libc */
        r->nontrivial = 1;
        RES_VIOL(r, "C12:%s:process-wide-state:%s", row->name, g_globstate_sym ? g_globstate_sym : "?");
        RES_DETAIL(r, "%d call(s) of %s (and possibly others) were made inside the library call: state shared by every thread of the process", g_globstate_calls, g_globstate_sym ? g_globstate_sym : "?");
        return;
    }
    if (X.faulted) {
        /* a size above the RSIZE limit must be rejected before dest or src is touched */
        if (X.sig == SIGSEGV && (c->dkind == DK_OVERMAX || ((row->fl & F_SLEN) && c->slen > row->dmax_max * (size_t)row->du / (size_t)row->su))) {
            RES_VIOL(r, "C05:%s:touched-before-rejecting-oversize:%s", row->name, c->dkind == DK_OVERMAX ? "dmax>RSIZE_MAX" : "slen>RSIZE_MAX");
            RES_DETAIL(r, "%s fault at %s%+ld although a size argument exceeds the RSIZE limit", X.fault_write ? "store" : "load", bufname(X.fault_buf), X.fault_off);
        } else res_label(r, "foreign-fault");
        if (X.sig != SIGSEGV) r->fragile = 1;
        return;
    }
    hc = X.h_str + X.h_mem;
    failed = call_failed(row, &X);
    code = call_code(row, &X);
    r->nontrivial = dv || benign(c, row);
    res_label(r, dv ? (ncodes >= 2 && codes[0] != codes[1] ? "viol:multiple" : "viol:definite") : (benign(c, row) ? "viol:none(benign)" : "viol:unmodelled"));
    if (hc > 1) {
        RES_VIOL(r, "C05:%s:handler-invoked-%d-times:%s", row->name, hc, relclass(c));
        RES_DETAIL(r, "handler invoked %d times (codes %s,%s), returned %s", hc, codename(X.h_codes[0]), hc > 1 ? "..." : "", codename(code));
        return;
    }
    if (hc == 1 && (row->ret_kind == RK_ERRNO || (row->ret_kind == RK_PTR_ERRP && X.a.errp))) {
        if (code != X.h_code) {
            RES_VIOL(r, "C05:%s:handler-code-%s-returned-%s:%s", row->name, codename(X.h_code), codename(code), relclass(c));
            RES_DETAIL(r, "handler got %s but the call returned %s", codename(X.h_code), codename(code));
            return;
        }
    }
    if (hc == 1 && row->ret_kind == RK_LEN && X.a.ret < 0 && -X.a.ret != X.h_code) {
        RES_VIOL(r, "C05:%s:handler-code-%s-returned-%ld:%s", row->name, codename(X.h_code), X.a.ret, relclass(c));
        RES_DETAIL(r, "handler got %s but the call returned %ld", codename(X.h_code), X.a.ret);
        return;
    }
    if (failed && hc == 0) {
        RES_VIOL(r, "C05:%s:failure-%s-without-handler:%s", row->name, codename(code), relclass(c));
        RES_DETAIL(r, "returned %s but no handler was invoked", codename(code));
        return;
    }
    if (dv) {
        int okc = 0;
        if (!failed && !(row->ret_kind == RK_BOOL || row->ret_kind == RK_LEN)) {
            RES_VIOL(r, "C05:%s:violation-not-reported:%s", row->name, relclass(c));
            RES_DETAIL(r, "documented constraint violated (expected e.g. %s) but the call returned %s, handler calls %d", codename(codes[0]), codename(code), hc);
            return;
        }
        if (hc == 0) {
            RES_VIOL(r, "C05:%s:violation-without-handler:%s", row->name, relclass(c));
            RES_DETAIL(r, "documented constraint violated (expected e.g. %s) but no handler was invoked; returned %s", codename(codes[0]), codename(code));
            return;
        }
        for (i = 0; i < ncodes; i++) if (codes[i] == X.h_code) okc = 1;
        if (!okc) {
            RES_VIOL(r, "C05:%s:unexpected-code-%s:%s", row->name, codename(X.h_code), relclass(c));
            RES_DETAIL(r, "violated constraint(s) allow %s.. but %s was reported", codename(codes[0]), codename(X.h_code));
            return;
        }
        /* a size above the RSIZE limit is rejected before dest is touched */
        if (c->dkind == DK_OVERMAX && !c->dest_null && memcmp(X.dest, X.dest_before, c->dtrue) != 0) {
            RES_VIOL(r, "C05:%s:dest-written-before-rejecting-oversize:%s%s", row->name, "dmax>RSIZE_MAX", c->dbos ? ":bos-known" : "");
            RES_DETAIL(r, "dmax=%zu exceeds the limit %zu but dest was modified", c->dmax, row->dmax_max);
            return;
        }
    } else if (benign(c, row)) {
        if (hc != 0 || failed) {
            RES_VIOL(r, "C05:%s:handler-on-valid-call-%s:%s", row->name, codename(hc ? X.h_code : code), relclass(c));
            RES_DETAIL(r, "no documented constraint is violated but handler calls=%d, returned %s", hc, codename(code));
            return;
        }
    }
}

static void g_init(const runcfg_t *cfg) { (void)cfg; gh_install(); }

const module_t mod_C01 = {"C01", sizeof(gcase_t), 1, {3000000, 40000000}, g_init, gen_c01, exec_c01, gc_describe,
                          "generic rows (COPY CAT MEMCPY FILL INPLACE QUERY): truthful size declarations, RO guard pages + canaries; "
                          "non-trivial = dest non-NULL, dmax>0 within limits and the row writes dest; distinct by decoded arguments minus content seed"};
const module_t mod_C02 = {"C02", sizeof(gcase_t), 1, {3000000, 40000000}, g_init, gen_c02, exec_c02, gc_describe,
                          "generic rows: PROT_NONE guard flush after/before every declared extent; non-trivial = scanned operand non-NULL, "
                          "declared size >= 1, sizes within limits; distinct by decoded arguments minus content seed"};

const module_t mod_C03 = {"C03", sizeof(gcase_t), 1, {2000000, 20000000}, g_init, gen_c03, exec_c03, gc_describe,
                          "string-producing generic rows; dest prefilled with non-NUL garbage (or unterminated/terminated prior contents for in/out rows); "
                          "non-trivial = dest usable (non-NULL, 0<dmax<=RSIZE limit, within the object); distinct by decoded arguments minus content seed"};
const module_t mod_C04 = {"C04", sizeof(gcase_t), 1, {2000000, 20000000}, g_init, gen_c04, exec_c04, gc_describe,
                          "destination-writing generic rows documented to null dest on violation; dest prefilled with position-coded values 0x81..0xBD, sources from a disjoint alphabet; "
                          "non-trivial = the call reported failure with a usable dest; distinct by decoded arguments minus content seed"};
const module_t mod_C08 = {"C08", sizeof(gcase_t), 1, {2000000, 20000000}, g_init, gen_c08, exec_c08, gc_describe,
                          "generic rows documented to null the slack; dest dirty (non-zero everywhere / garbage behind an input terminator); "
                          "non-trivial = success with at least one slack element behind the terminator; distinct by decoded arguments minus content seed"};

const module_t mod_C05 = {"C05", sizeof(gcase_t), 1, {3000000, 30000000}, g_init, gen_c05, exec_c05, gc_describe,
                          "generic rows; arguments drawn independently from the violation classes (NULL, 0, >RSIZE limit, >known object size, bad value, slen/n relations) and from benign-by-construction operands; "
                          "non-trivial = at least one definite documented violation, or a benign call with all pointers valid; distinct by decoded arguments minus content seed"};
