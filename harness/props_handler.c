/* props_handler.c -- C13: constraint-handler registration behaves as a per-thread
 * override of a global. Stateful / model-based: a generated history of registrations,
 * violations and thread creations is executed by real pthreads one operation at a time
 * (the harness owns the schedule), in lock-step with a reference model. */
#define _GNU_SOURCE
#include "../engine/pbt.h"
#include "wraps.h"
#include <pthread.h>
#include <setjmp.h>
#include <semaphore.h>
#include "safe_str_lib.h"
#include "safe_mem_lib.h"

#define MAXT 6
#define MAXOPS 40
enum { OP_SET_STR, OP_SET_MEM, OP_THRD_SET_STR, OP_THRD_SET_MEM, OP_VIOL_STR, OP_VIOL_MEM, OP_SPAWN, OP_NKIND };
static const char *opname[] = {"set_str", "set_mem", "thrd_set_str", "thrd_set_mem", "violate_str", "violate_mem", "spawn"};

typedef struct hop { uint8_t kind, thread, h; } hop_t;
typedef struct hcase { int nops; int maxt; hop_t op[MAXOPS]; } hcase_t;

static int gen_c13(cs_t *cs, void *k, const runcfg_t *cfg) {
    hcase_t *c = k;
    int i, nthreads = 1;
    c->maxt = cfg->tier ? 6 : 4;
    if (cfg->phase == 0) c->nops = (int)cs_range(cs, 2, 4);
    else c->nops = (int)cs_range(cs, 3, MAXOPS);
    for (i = 0; i < c->nops; i++) {
        hop_t *o = &c->op[i];
        long kd = cs_range(cs, 0, cfg->phase == 0 ? 6 : 9);
        if (kd > 6) kd = 4 + (kd & 1); /* more violations in long histories */
        o->kind = (uint8_t)kd;
        o->thread = (uint8_t)cs_range(cs, 0, nthreads - 1);
        o->h = o->kind <= OP_THRD_SET_MEM ? (uint8_t)cs_range(cs, 0, cfg->phase == 0 ? 2 : 4) : 0;
        if ((o->kind == OP_VIOL_STR || o->kind == OP_VIOL_MEM) && cfg->phase) o->h = (uint8_t)(cs_range(cs, 0, 3) + 4 * (cs_range(cs, 0, 3) == 0 ? cs_range(cs, 1, 3) : 0)); /* bits 2..3: the handler commits a nested violation (1 same kind / 2 other kind) or leaves through longjmp (3); bits 0..1: which constraint is violated: every report site must dispatch by the function's own kind */
        if (o->kind == OP_SPAWN) { if (nthreads < c->maxt) nthreads++; else o->kind = OP_VIOL_STR; }
    }
    return 1;
}

static void c13_describe(const void *k, char *buf, size_t n) {
    const hcase_t *c = k;
    int i, p = snprintf(buf, n, "history[%d]:", c->nops);
    for (i = 0; i < c->nops && p < (int)n - 64; i++) {
        const hop_t *o = &c->op[i];
        if (o->kind <= OP_THRD_SET_MEM) p += snprintf(buf + p, n - (size_t)p, " T%d.%s(%s%d)", o->thread, opname[o->kind], o->h ? "H" : "NULL", o->h ? o->h : 0);
        else p += snprintf(buf + p, n - (size_t)p, " T%d.%s%s", o->thread, opname[o->kind], (o->h >> 2) == 1 ? "[handler violates again, same kind]" : (o->h >> 2) == 2 ? "[handler violates again, other kind]" : (o->h >> 2) == 3 ? "[handler leaves through longjmp]" : "");
    }
}

/* ---- recording handlers ---- */
static struct { int handler; int thread; int code; } rec[8];
static int nrec;
static __thread int my_tid = -1;
/* a handler may itself call a bounds-checked function that violates a constraint (a logging handler with a small buffer):
 * that nested violation is a violation detected on this thread like any other */
static __thread int nest_arm; /* 1: nested string-kind violation, 2: nested memory-kind violation */
/* ... or may not return at all (abort_handler_s does not; an application handler may longjmp to its recovery point):
 * violations detected on that thread afterwards are dispatched as before */
static __thread jmp_buf jump_buf;
static __thread int jump_arm;
static void record(int h, errno_t e) {
    if (nrec < 8) { rec[nrec].handler = h; rec[nrec].thread = my_tid; rec[nrec].code = e; }
    nrec++;
    if (jump_arm) { jump_arm = 0; longjmp(jump_buf, 1); }
    if (nest_arm) {
        int k = nest_arm;
        char s[2] = "a";
        nest_arm = 0;
        if (k == 1) (void)_strcpy_s_chk(NULL, 10, "a", BOS_UNKNOWN);
        else (void)_memcpy_s_chk(NULL, 10, s, 1, BOS_UNKNOWN, BOS_UNKNOWN);
    }
}
static void H1(const char *m, void *p, errno_t e) { (void)m; (void)p; record(1, e); }
static void H2(const char *m, void *p, errno_t e) { (void)m; (void)p; record(2, e); }
static void H3(const char *m, void *p, errno_t e) { (void)m; (void)p; record(3, e); }
static void H4(const char *m, void *p, errno_t e) { (void)m; (void)p; record(4, e); }
static void Hdef(const char *m, void *p, errno_t e) { (void)m; (void)p; record(0, e); }
static constraint_handler_t HT[5] = {NULL, H1, H2, H3, H4};
static int handler_index(constraint_handler_t h) {
    int i;
    if (h == NULL) return -1;
    for (i = 1; i < 5; i++) if (h == HT[i]) return i;
    if (h == ignore_handler_s) return 0;
    return 9;
}

/* ---- worker threads driven one operation at a time ---- */
typedef struct tctl { pthread_t th; sem_t go, done; volatile int op, h, quit; volatile long ret; volatile int spawn_tid; int alive; } tctl_t;
static tctl_t T[MAXT];
static void *thread_main(void *arg);
#define HANDLER_LEFT (-7777L)
static void do_op(int tid, int op, int h) {
    tctl_t *t = &T[tid];
    switch (op) {
    case OP_SET_STR: t->ret = (long)set_str_constraint_handler_s(HT[h]); break;
    case OP_SET_MEM: t->ret = (long)set_mem_constraint_handler_s(HT[h]); break;
    case OP_THRD_SET_STR: t->ret = (long)thrd_set_str_constraint_handler_s(HT[h]); break;
    case OP_THRD_SET_MEM: t->ret = (long)thrd_set_mem_constraint_handler_s(HT[h]); break;
    case OP_VIOL_STR: {
        char d[8] = "x", s2[4] = "abc";
        if ((h >> 2) == 3) { jump_arm = 1; h &= 3; if (setjmp(jump_buf)) { t->ret = HANDLER_LEFT; break; } }
        nest_arm = h >> 2; h &= 3;
        if (h == 1) t->ret = _strcat_s_chk(d, 0, "a", BOS_UNKNOWN);                            /* dmax 0 */
        else if (h == 2) t->ret = _strncpy_s_chk(d, 8, s2, 6, BOS_UNKNOWN, sizeof s2);         /* slen above the known source size */
        else if (h == 3) { t->ret = _sprintf_s_chk(d, 8, BOS_UNKNOWN, NULL); if (t->ret < 0) t->ret = -t->ret; } /* null format */
        else t->ret = _strcpy_s_chk(NULL, 10, "a", BOS_UNKNOWN);
        break;
    }
    case OP_VIOL_MEM: {
        char s[2] = "a", d[8] = "x", s4[4] = "abc";
        if ((h >> 2) == 3) { jump_arm = 1; h &= 3; if (setjmp(jump_buf)) { t->ret = HANDLER_LEFT; break; } }
        nest_arm = (h >> 2) ? 3 - (h >> 2) : 0; h &= 3; /* 1: same kind (memory), 2: the other kind */
        if (h == 1) t->ret = _memset_s_chk(d, 4, 1, 9, BOS_UNKNOWN);                           /* n above dmax */
        else if (h == 2) t->ret = _memcpy_s_chk(d, 8, s4, 6, BOS_UNKNOWN, sizeof s4);         /* slen above the known source size */
        else if (h == 3) t->ret = _memmove_s_chk(d, 0, s, 1, BOS_UNKNOWN, BOS_UNKNOWN);        /* dmax 0 */
        else t->ret = _memcpy_s_chk(NULL, 10, s, 1, BOS_UNKNOWN, BOS_UNKNOWN);
        break;
    }
    case OP_SPAWN: {
        int n = t->spawn_tid;
        T[n].alive = 1; T[n].quit = 0;
        sem_init(&T[n].go, 0, 0); sem_init(&T[n].done, 0, 0);
        pthread_create(&T[n].th, NULL, thread_main, (void *)(long)n);
        t->ret = 0;
        break;
    }
    default: break;
    }
    jump_arm = 0; nest_arm = 0; /* no handler ran: nothing stays armed for a later call */
}
static void *thread_main(void *arg) {
    int tid = (int)(long)arg;
    my_tid = tid;
    for (;;) {
        sem_wait(&T[tid].go);
        if (T[tid].quit) break;
        do_op(tid, T[tid].op, T[tid].h);
        sem_post(&T[tid].done);
    }
    return NULL;
}
static void run_op(int tid, int op, int h) {
    if (tid == 0) { my_tid = 0; do_op(0, op, h); return; }
    T[tid].op = op; T[tid].h = h;
    sem_post(&T[tid].go);
    sem_wait(&T[tid].done);
}

/* ---- model ---- */
enum { M_UNSET = -1, M_DEFAULT = 0 };   /* else handler index 1..4 */

static void exec_c13(const void *k, res_t *r, const runcfg_t *cfg) {
    const hcase_t *c = k;
    int glob[2] = {M_UNSET, M_UNSET};
    int loc[MAXT][2], alt[MAXT][2];
    int nthreads = 1, i, t, regs[2] = {0, 0}, threads_touched = 0, nviol_after = 0;
    unsigned touched_mask = 0;
    (void)cfg;
    r->hash = cs_hash_bytes(CS_HASH_INIT, c->op, sizeof(hop_t) * (size_t)c->nops);
    for (t = 0; t < MAXT; t++) { loc[t][0] = loc[t][1] = M_UNSET; alt[t][0] = alt[t][1] = M_UNSET; T[t].alive = 0; }
    /* fresh process-wide state: the registration variables are static in the library; each case
       starts by restoring "unset" the only way the API allows: it cannot. So run every case in
       a state reached from the previous one is not acceptable -> the runner forks per worker, and
       we normalise here by registering NULL (default) globally and locally on thread 0, which the
       model mirrors. */
    g_default_handler_hook = Hdef;
    my_tid = 0;
    set_str_constraint_handler_s(NULL); set_mem_constraint_handler_s(NULL);
    thrd_set_str_constraint_handler_s(NULL); thrd_set_mem_constraint_handler_s(NULL);
    glob[0] = glob[1] = M_DEFAULT; loc[0][0] = loc[0][1] = M_DEFAULT;
    T[0].alive = 1;
    for (i = 0; i < c->nops; i++) {
        const hop_t *o = &c->op[i];
        int tid = o->thread < nthreads ? o->thread : 0;
        int kind = (o->kind == OP_SET_MEM || o->kind == OP_THRD_SET_MEM || o->kind == OP_VIOL_MEM) ? 1 : 0;
        nrec = 0;
        if (o->kind == OP_SPAWN) {
            if (nthreads >= c->maxt) continue;
            T[tid].spawn_tid = nthreads;
            run_op(tid, OP_SPAWN, 0);
            /* a thread created by tid after tid's thread-local registration: inheriting it or not is left open */
            alt[nthreads][0] = loc[tid][0]; alt[nthreads][1] = loc[tid][1];
            loc[nthreads][0] = loc[nthreads][1] = M_UNSET;
            nthreads++;
            continue;
        }
        run_op(tid, o->kind, o->h);
        if (o->kind <= OP_THRD_SET_MEM) {
            int islocal = o->kind >= OP_THRD_SET_STR;
            int prev = islocal ? loc[tid][kind] : glob[kind];
            int got = handler_index((constraint_handler_t)T[tid].ret);
            int ok;
            if (prev == M_UNSET) {
                ok = (got == -1 || got == 0);
                if (islocal && alt[tid][kind] != M_UNSET) ok = ok || got == alt[tid][kind] || (alt[tid][kind] == M_DEFAULT && got == 0);
            } else if (prev == M_DEFAULT) ok = (got == 0);
            else ok = (got == prev);
            if (!ok) {
                RES_VIOL(r, "C13:%s:wrong-previous-handler:%s", opname[o->kind], prev == M_UNSET ? "first-registration" : (prev == M_DEFAULT ? "after-NULL" : "after-handler"));
                RES_DETAIL(r, "op %d: T%d.%s returned handler index %d, the model's previous is %d (-1 unset, 0 default)", i, tid, opname[o->kind], got, prev);
                goto done;
            }
            if (islocal) { loc[tid][kind] = o->h ? o->h : M_DEFAULT; alt[tid][kind] = M_UNSET; }
            else glob[kind] = o->h ? o->h : M_DEFAULT;
            regs[kind]++;
            touched_mask |= 1u << tid;
            if (nrec) {
                RES_VIOL(r, "C13:%s:handler-invoked-by-registration", opname[o->kind]);
                RES_DETAIL(r, "op %d: a registration call invoked a handler", i);
                goto done;
            }
        } else {
            int expect = loc[tid][kind] != M_UNSET ? loc[tid][kind] : (glob[kind] != M_UNSET ? glob[kind] : M_DEFAULT);
            int expect2 = (loc[tid][kind] == M_UNSET && alt[tid][kind] != M_UNSET) ? alt[tid][kind] : expect;
            const char *src = loc[tid][kind] != M_UNSET ? "thread-local" : (glob[kind] != M_UNSET ? "global" : "default");
            touched_mask |= 1u << tid;
            if (regs[kind] >= 2) nviol_after++;
            if ((o->h >> 2) && (o->h >> 2) != 3 && nrec >= 1) { /* nested violation committed by the first handler: dispatched like any other */
                int nk = (o->h >> 2) == 1 ? kind : 1 - kind;
                int ne = loc[tid][nk] != M_UNSET ? loc[tid][nk] : (glob[nk] != M_UNSET ? glob[nk] : M_DEFAULT);
                int ne2 = (loc[tid][nk] == M_UNSET && alt[tid][nk] != M_UNSET) ? alt[tid][nk] : ne;
                if (nrec != 2) {
                    RES_VIOL(r, "C13:%s:nested-violation-handler-calls-%d:%s", opname[o->kind], nrec - 1, nk == kind ? "same-kind" : "other-kind");
                    RES_DETAIL(r, "op %d: the handler on T%d violated a %s constraint itself; that nested violation invoked %d handlers", i, tid, nk ? "memory" : "string", nrec - 1);
                    goto done;
                }
                if ((rec[1].handler != ne && rec[1].handler != ne2) || rec[1].thread != tid) {
                    RES_VIOL(r, "C13:%s:nested-violation-wrong-handler:%s", opname[o->kind], nk == kind ? "same-kind" : "other-kind");
                    RES_DETAIL(r, "op %d: nested %s violation on T%d ran handler %d on T%d, the model expects %d", i, nk ? "memory" : "string", tid, rec[1].handler, rec[1].thread, ne);
                    goto done;
                }
                nrec = 1;
            }
            if (nrec != 1) {
                RES_VIOL(r, "C13:%s:handler-calls-%d:%s-expected", opname[o->kind], nrec, src);
                RES_DETAIL(r, "op %d: violation on T%d invoked %d handlers", i, tid, nrec);
                goto done;
            }
            if (rec[0].handler != expect && rec[0].handler != expect2) {
                RES_VIOL(r, "C13:%s:wrong-handler:%s-expected%s", opname[o->kind], src, nthreads > 1 ? ":multi-thread" : "");
                RES_DETAIL(r, "op %d: violation on T%d ran handler %d, the model expects %d (0 = default ignore handler)", i, tid, rec[0].handler, expect);
                goto done;
            }
            if (rec[0].thread != tid) {
                RES_VIOL(r, "C13:%s:handler-on-wrong-thread", opname[o->kind]);
                RES_DETAIL(r, "op %d: violation on T%d, handler ran on T%d", i, tid, rec[0].thread);
                goto done;
            }
            if (T[tid].ret != HANDLER_LEFT && rec[0].code != (int)T[tid].ret) {
                RES_VIOL(r, "C13:%s:handler-code-differs", opname[o->kind]);
                RES_DETAIL(r, "op %d: handler got %d, call returned %ld", i, rec[0].code, T[tid].ret);
                goto done;
            }
        }
    }
done:
    for (t = 0; t < MAXT; t++) if (touched_mask & (1u << t)) threads_touched++;
    r->nontrivial = nviol_after > 0 && threads_touched >= 2;
    res_label(r, nthreads == 1 ? "threads:1" : (nthreads == 2 ? "threads:2" : "threads:3+"));
    for (t = 1; t < nthreads; t++) {
        T[t].quit = 1;
        sem_post(&T[t].go);
        pthread_join(T[t].th, NULL);
        sem_destroy(&T[t].go); sem_destroy(&T[t].done);
    }
    g_default_handler_hook = NULL;
}

static void h_init(const runcfg_t *cfg) { (void)cfg; }

const module_t mod_C13 = {"C13", sizeof(hcase_t), 1, {200000, 2000000}, h_init, gen_c13, exec_c13, c13_describe,
                          "histories of 2..40 operations (set_/thrd_set_ str/mem registrations with 4 recording handlers or NULL, violating calls, thread creations) over up to 4 (thorough 6) real threads executed one operation at a time, "
                          "in lock-step with a reference model (thread-local if set, else global, else default; previous handler returned; kinds independent; inheritance by a child of the registering thread left open); "
                          "non-trivial = a violation after >= 2 registrations of that kind with >= 2 threads involved; distinct by operation sequence"};
