/* props_alloc.c -- C20: running out of memory inside the library is an error, not a crash.
 * The harness is linked with -Wl,--wrap=malloc,calloc,realloc,free: while a call is
 * "armed" every allocation request made from the statically linked library is counted,
 * the k-th one can be made to fail, and live blocks are tracked for the leak check. */
#define _GNU_SOURCE
#include "fmt.h"
#include <wchar.h>
#include <errno.h>

#include "wraps.h"

enum { S_LS, S_LONGDOUBLE, S_HEXFLOAT, S_WIDE_NOSPC, S_NORM_MARKS, S_NORM_LONG, S_COMPOSE, S_WCSICMP, S_WCSNATCMP, S_LS_BAD, S_NSITES };
static const char *site_name[] = {"printf-%ls", "printf-long-%L*", "printf-long-float", "wprintf-nospace-probe", "wcsnorm_s-many-marks", "wcsnorm_s-long", "wcsnorm_compose_s", "wcsicmp_s", "wcsnatcmp_s", "printf-%ls-unconvertible"};

typedef struct acase {
    int site;
    int variant;     /* entry point / mode selector */
    int size;        /* length parameter */
    int dmax_rel;
    uint32_t seed;
} acase_t;

static int gen_c20(cs_t *cs, void *k, const runcfg_t *cfg) {
    acase_t *c = k;
    c->site = (int)cs_range(cs, 0, S_NSITES - 1);
    c->variant = (int)cs_range(cs, 0, 7);
    if (cfg->phase == 0) { c->size = (int)cs_range(cs, 0, 3); c->dmax_rel = (int)cs_range(cs, 0, 1); }
    else { c->size = (int)cs_range(cs, 0, 40); c->dmax_rel = (int)cs_range(cs, 0, 3); }
    c->seed = (uint32_t)cs_noise(cs, 0, 0xffff);
    return 1;
}

static void c20_describe(const void *k, char *buf, size_t n) {
    const acase_t *c = k;
    snprintf(buf, n, "site=%s variant=%d size=%d dmax_rel=%d", site_name[c->site % S_NSITES], c->variant, c->size, c->dmax_rel);
}

static int h_calls, h_mem_calls;
static void ah(const char *m, void *p, errno_t e) { (void)m; (void)p; (void)e; h_calls++; }
static void ah_mem(const char *m, void *p, errno_t e) { (void)m; (void)p; (void)e; h_calls++; h_mem_calls++; }

/* one execution of the case; returns: 0 success, 1 failure indication; *cleared = dest cleared as for other violations */
static wchar_t wbuf[4096], wsrc[600], wsrc2[600];
static char nbuf[4096];
static int run_site(const acase_t *c, int *cleared, int *isfmt, int *fault) {
    int rc = 0;
    size_t i;
    *cleared = 1; *isfmt = 0; *fault = 0;
    h_calls = 0; h_mem_calls = 0;
    set_str_constraint_handler_s(ah); set_mem_constraint_handler_s(ah_mem);
    memset(wbuf, 0x55, sizeof wbuf); memset(nbuf, 0x55, sizeof nbuf);
    switch (c->site) {
    case S_LS: case S_LS_BAD: case S_LONGDOUBLE: case S_HEXFLOAT: {
        static const wchar_t *ws[] = {L"w", L"wide string", L"hé€", L""};
        const wchar_t *bad = L"a\x7fffffff";
        int ent = c->variant & 3; /* sprintf_s vsprintf_s snprintf_s vsnprintf_s */
        size_t dmax = c->dmax_rel ? 400 : 6;
        long double ld = 1234.5L + (long double)c->size;
        double dd = 0.15625 * (c->size + 1);
        *isfmt = 1;
        a_armed = 1;
        AR_GUARDED(
            if (c->site == S_LS && (c->variant & 4)) rc = (ent & 2) ? snprintf_s(nbuf, dmax, "%*ls", 4 + c->size, ws[c->size & 3]) : sprintf_s(nbuf, dmax, "%-*ls|", 4 + c->size, ws[c->size & 3]);
            else if (c->site == S_LS) rc = (ent & 2) ? snprintf_s(nbuf, dmax, "x%lsy%dz", ws[c->size & 3], 7) : sprintf_s(nbuf, dmax, "x%lsy%dz", ws[c->size & 3], 7);
            else if (c->site == S_LS_BAD) rc = (ent & 2) ? snprintf_s(nbuf, dmax, "x%lsy", bad) : sprintf_s(nbuf, dmax, "x%lsy", bad);
            /* floating output of 128 characters or more is staged in a heap buffer */
            else if (c->site == S_LONGDOUBLE) rc = (ent & 2) ? snprintf_s(nbuf, dmax, (c->variant & 4) ? "%.*Le tail %d" : "%*Lf tail %d", 130 + c->size, ld, 3) : sprintf_s(nbuf, dmax, (c->variant & 4) ? "%#.*Lg tail %d" : "%-*Lf tail %d", 130 + c->size, ld, 3);
            else if (c->variant & 4) rc = (ent & 2) ? snprintf_s(nbuf, dmax, "%.*La tail %d", 130 + c->size, ld, 3) : sprintf_s(nbuf, dmax, "%*La tail %d", 130 + c->size, ld, 3);
            else rc = (ent & 2) ? snprintf_s(nbuf, dmax, "%.*f tail %d", 130 + c->size, dd, 3) : sprintf_s(nbuf, dmax, "%*e tail %d", 130 + c->size, dd, 3);
        );
        a_armed = 0;
        if (g_ar_fault.faulted) { *fault = 1; return 1; }
        if (rc < 0) { *cleared = nbuf[0] == 0; return 1; }
        return 0;
    }
    case S_WIDE_NOSPC: {
        size_t dmax = 512 + (size_t)(c->size * 8);
        int ent = c->variant & 3;
        /* a result longer than dmax forces the no-space path, which probes the needed size */
        for (i = 0; i < 590; i++) wsrc[i] = L'a' + (wchar_t)(i % 26);
        wsrc[590] = 0;
        a_armed = 1;
        AR_GUARDED(
            if (ent == 0) rc = swprintf_s(wbuf, dmax, L"%ls%ls", wsrc, wsrc);
            else if (ent == 1) rc = snwprintf_s(wbuf, dmax, L"%ls%ls", wsrc, wsrc);
            else rc = swprintf_s(wbuf, dmax, L"%ls-%d-%ls", wsrc, 5, wsrc);
        );
        a_armed = 0;
        if (g_ar_fault.faulted) { *fault = 1; return 1; }
        if (rc < 0) { *cleared = wbuf[0] == 0; return 1; }
        return 0;
    }
    case S_NORM_MARKS: case S_NORM_LONG: case S_COMPOSE: {
        rsize_t len = 0;
        size_t n = 0;
        wcsnorm_mode_t mode = (c->variant & 1) ? WCSNORM_NFC : WCSNORM_NFD;
        if (c->site == S_NORM_LONG) {
            for (i = 0; i < (size_t)(130 + c->size); i++) {
                wsrc[n++] = (i % 7 == 3) ? 0xE9 : L'a';
                /* both allocation sites in one call: heap scratch (long input) AND a run of marks that makes the reorder step allocate */
                if ((c->variant & 2) && i == 60) { size_t m; for (m = 0; m < (size_t)(12 + (c->size & 7)); m++) wsrc[n++] = (m & 1) ? 0x0301 : 0x0323; }
            }
        }
        else { wsrc[n++] = L'a'; for (i = 0; i < (size_t)(12 + c->size); i++) wsrc[n++] = (i & 1) ? 0x0301 : 0x0323; wsrc[n++] = L'b'; }
        wsrc[n] = 0;
        a_armed = 1;
        AR_GUARDED(
            /* dmax_rel 0: a dest too small for the pending marks, so that the no-space exits (which own heap blocks by then) run too */
            if (c->site == S_COMPOSE) { len = n; rc = _wcsnorm_compose_s_chk(wbuf, c->dmax_rel ? 1000 : (rsize_t)(5 + (c->variant & 4)), wsrc, &len, (c->variant & 2) != 0, BOS_UNKNOWN); }
            else rc = wcsnorm_s(wbuf, c->dmax_rel ? 1000 : (rsize_t)(6 + c->size), wsrc, mode, &len);
        );
        a_armed = 0;
        if (g_ar_fault.faulted) { *fault = 1; return 1; }
        if (rc != 0) { *cleared = wbuf[0] == 0; return 1; }
        return 0;
    }
    default: { /* wcsicmp_s / wcsnatcmp_s: the two fold buffers */
        int res = 99;
        size_t n = 6 + (size_t)c->size;
        for (i = 0; i < n; i++) { wsrc[i] = L'A' + (wchar_t)(i % 20); wsrc2[i] = L'a' + (wchar_t)(i % 20); }
        wsrc[n] = wsrc2[n] = 0;
        if (c->variant & 1) wsrc2[n / 2] = 0x110000;      /* the second operand fails to fold */
        if ((c->variant & 3) == 2) wsrc[n / 2] = 0x110000; /* the first one does */
        a_armed = 1;
        AR_GUARDED(
            if (c->site == S_WCSICMP) rc = wcsicmp_s(wsrc, n + 8, wsrc2, n + 8, &res);
            else rc = _wcsnatcmp_s_chk(wsrc, n + 8, wsrc2, n + 8, 1, &res, BOS_UNKNOWN, BOS_UNKNOWN);
        );
        a_armed = 0;
        if (g_ar_fault.faulted) { *fault = 1; return 1; }
        *cleared = 1;
        return rc != 0;
    }
    }
}

static void exec_c20(const void *k, res_t *r, const runcfg_t *cfg) {
    const acase_t *c = k;
    int cleared, isfmt, fault, failed, A, kf;
    static char lab[64];
    (void)cfg;
    r->hash = cs_hash_bytes(CS_HASH_INIT, c, offsetof(acase_t, seed));
    snprintf(lab, sizeof lab, "site:%s", site_name[c->site]);
    /* run 0: no fault, count allocations, require no live block at return */
    a_count = 0; a_fail_at = 0; a_failed = 0; a_nlive = 0; a_foreign_free = 0;
    failed = run_site(c, &cleared, &isfmt, &fault);
    A = a_count;
    res_label(r, site_name[c->site]);
    if (fault) {
        r->fragile = 1;
        RES_VIOL(r, "C20:%s:fault-without-injection", site_name[c->site]);
        RES_DETAIL(r, "signal %d with no allocation failure injected", g_ar_fault.sig);
        return;
    }
    if (a_nlive != 0) {
        RES_VIOL(r, "C20:%s:leak:%s", site_name[c->site], failed ? "on-error-path" : "on-success-path");
        RES_DETAIL(r, "%d block(s) still allocated at return (allocations made: %d, call %s)", a_nlive, A, failed ? "failed" : "succeeded");
        a_nlive = 0;
        return;
    }
    if (A == 0) { res_label(r, "no-allocation-reached"); return; }
    r->nontrivial = 1;
    res_label(r, A == 1 ? "allocs:1" : (A == 2 ? "allocs:2" : "allocs:3+"));
    for (kf = 1; kf <= A; kf++) {
        a_count = 0; a_fail_at = kf; a_failed = 0; a_nlive = 0; a_foreign_free = 0;
        failed = run_site(c, &cleared, &isfmt, &fault);
        a_fail_at = 0;
        if (fault) {
            r->fragile = 1;
            RES_VIOL(r, "C20:%s:null-dereference:alloc-%d-of-%d", site_name[c->site], kf, A);
            RES_DETAIL(r, "allocation %d of %d failed and the library crashed (signal %d, %s at %p)", kf, A, g_ar_fault.sig, g_ar_fault.is_write ? "store" : "load", (void *)g_ar_fault.addr);
            return;
        }
        if (!a_failed) continue; /* this run took a path with fewer allocations */
        if (a_nlive != 0) {
            RES_VIOL(r, "C20:%s:leak-after-failed-allocation:alloc-%d-of-%d", site_name[c->site], kf, A);
            RES_DETAIL(r, "allocation %d of %d failed; %d earlier block(s) were not released", kf, A, a_nlive);
            a_nlive = 0;
            return;
        }
        if (!failed) {
            RES_VIOL(r, "C20:%s:success-despite-failed-allocation:alloc-%d-of-%d", site_name[c->site], kf, A);
            RES_DETAIL(r, "allocation %d of %d failed but the call reported success", kf, A);
            return;
        }
        if (h_mem_calls) { /* all sites are string-family functions: their reports belong to the string handler (judged by C13's check) */
            RES_VIOL(r, "C20:%s:wrong-handler-kind:alloc-%d-of-%d", site_name[c->site], kf, A);
            RES_DETAIL(r, "allocation %d of %d failed and the failure was dispatched to the handler registered for memory functions", kf, A);
            return;
        }
        if (!cleared) {
            RES_VIOL(r, "C20:%s:dest-not-cleared:alloc-%d-of-%d", site_name[c->site], kf, A);
            RES_DETAIL(r, "allocation %d of %d failed, the call failed but dest still holds a partial result", kf, A);
            return;
        }
    }
}

static void a_init(const runcfg_t *cfg) { (void)cfg; }

const module_t mod_C20 = {"C20", sizeof(acase_t), 1, {300000, 3000000}, a_init, gen_c20, exec_c20, c20_describe,
                          "inputs reaching each internal allocation site (%ls, long-double and hex-float directives, wide printf no-space probe, normalization scratch and combining-sequence growth, compose, the fold buffers of wcsicmp_s/wcsnatcmp_s); "
                          "every case is first run without faults (allocations counted, live blocks must be 0) and then once per position k with the k-th allocation failing; non-trivial = at least one allocation reached; distinct by site and parameters"};
