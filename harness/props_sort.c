/* props_sort.c -- C16: qsort_s sorts and bsearch_s finds, for every array and comparator
 *
 * rows: qsort_s, bsearch_s.
 * element = key (1 byte for size 1, else 2 bytes LE) + id (up to 4 bytes) + position/id-derived fill,
 * so that a lost, duplicated or torn element changes the multiset of element hashes.
 * The comparator never dereferences a pointer that is not an element-aligned address inside
 * [base, base+nmemb*size) (or the key object for bsearch_s); it records the offence and returns 0.
 */
#include "../engine/pbt.h"
#include <wchar.h>
#include <errno.h>
#include <limits.h>
#include "safe_lib.h"
#include "safe_str_lib.h"
#include "safe_mem_lib.h"

#define S_MAXN 5000
#define S_MAXSZ 513
enum { ROW_QSORT, ROW_BSEARCH };
enum { IV_NONE, IV_BASE_NULL, IV_CMP_NULL, IV_KEY_NULL, IV_NMEMB_BIG, IV_SIZE_BIG };
enum { KM_EXPLICIT, KM_COUNTS, KM_RANDOM, KM_HUGE, KM_VIRTUAL };
#define S_L34 18454929L   /* Leonardo number L(34): above it the heap orders of the sort differ by more than 32 */
#define S_HUGEMAX 26000000L

typedef struct scase {
    int row;
    int inval;        /* IV_* */
    int hugek;        /* which out-of-range value (IV_NMEMB_BIG / IV_SIZE_BIG) */
    int nmemb;
    int esize;
    int cmpk;         /* 0 ascending on key, 1 descending, 2 constant 0 */
    int place;        /* 0 array ends flush against the guard, 1 starts flush after the guard */
    int bos;          /* 0 unknown, 1 exact */
    int kmode;        /* KM_* */
    int nkeys;        /* KM_RANDOM: key alphabet size, 0 = all keys distinct */
    int order;        /* KM_RANDOM: 0 random 1 ascending 2 descending 3 nearly sorted 4 organ pipe */
    int ctxk;         /* context pointer: 0 object, 1 NULL, 2 odd non-null value */
    int zbase;        /* nmemb == 0: bit0 base NULL, bit1 compar NULL */
    uint8_t keys[12]; /* KM_EXPLICIT: key symbols 0..2 */
    int cnt[3];       /* KM_COUNTS: number of elements with key symbol 0,1,2 (sorted array) */
    uint32_t cseed;
} scase_t;

static const long S_SIZES[14] = {1, 2, 3, 4, 7, 8, 12, 16, 31, 255, 256, 257, 300, 513};
static const long S_QSZ[6] = {1, 2, 3, 4, 8, 257};
static const long S_TSZ[8] = {1, 2, 3, 4, 7, 8, 256, 257};

static int gen_c16(cs_t *cs, void *k, const runcfg_t *cfg) {
    scase_t *c = k;
    int i, n;
    if (cfg->row_filter) {
        if (!strcmp(cfg->row_filter, "qsort_s")) c->row = ROW_QSORT;
        else if (!strcmp(cfg->row_filter, "bsearch_s")) c->row = ROW_BSEARCH;
        else return 0;
    } else c->row = (int)cs_range(cs, 0, 1);
    if (cfg->phase == 0) {
        int nmax = cfg->tier ? 9 : 7;
        n = c->row == ROW_QSORT ? (int)cs_range(cs, 0, nmax + 1) : 0;
        if (n == nmax + 1) {
            /* a very large array (nearly sorted, so that sorting stays linear) */
            c->kmode = KM_HUGE;
            c->esize = 1;
            c->cmpk = (int)cs_range(cs, 0, 1);
            c->place = (int)cs_range(cs, 0, 1);
            c->nmemb = (int)(S_L34 + 1 + (cs_range(cs, 0, 1) ? cs_noise(cs, 1, 4000000) : 0));
            c->bos = (int)cs_noise(cs, 0, 1);
            c->cseed = (uint32_t)cs_noise(cs, 0, 0xffffff);
            return 1;
        }
        c->esize = (int)(cfg->tier ? cs_pick(cs, S_TSZ, 8) : cs_pick(cs, S_QSZ, 6));
        c->cmpk = (int)cs_range(cs, 0, 2);
        c->place = (int)cs_range(cs, 0, 1);
        if (c->row == ROW_QSORT) {
            c->kmode = KM_EXPLICIT;
            for (i = 0; i < n; i++) c->keys[i] = (uint8_t)cs_range(cs, 0, 2);
        } else {
            n = (int)cs_range(cs, 0, cfg->tier ? 40 : 24);
            c->kmode = KM_COUNTS;
            c->cnt[0] = (int)cs_range(cs, 0, n);
            c->cnt[1] = (int)cs_range(cs, 0, n - c->cnt[0]);
            c->cnt[2] = n - c->cnt[0] - c->cnt[1];
        }
        c->nmemb = n;
        c->bos = (int)cs_noise(cs, 0, 1);
        c->ctxk = (int)cs_noise(cs, 0, 2);
        c->zbase = n == 0 ? (int)cs_noise(cs, 0, 3) : 0;
        c->cseed = (uint32_t)cs_noise(cs, 0, 0xffffff);
        return 1;
    }
    if (cs_range(cs, 0, 15) == 15) {
        static const long qk[4] = {IV_BASE_NULL, IV_CMP_NULL, IV_NMEMB_BIG, IV_SIZE_BIG};
        static const long bk[5] = {IV_BASE_NULL, IV_CMP_NULL, IV_KEY_NULL, IV_NMEMB_BIG, IV_SIZE_BIG};
        c->inval = (int)(c->row == ROW_QSORT ? cs_pick(cs, qk, 4) : cs_pick(cs, bk, 5));
        c->hugek = (int)cs_range(cs, 0, 3);
        c->nmemb = (int)cs_range(cs, 2, 8);
        c->esize = (int)S_SIZES[cs_range(cs, 0, 13)];
        c->bos = (int)cs_range(cs, 0, 1);
        c->cmpk = (int)cs_range(cs, 0, 2);
        c->kmode = KM_RANDOM;
        c->nkeys = 3;
        c->cseed = (uint32_t)cs_noise(cs, 0, 0xffffff);
        return 1;
    }
    if (c->row == ROW_BSEARCH && cs_range(cs, 0, 499) == 499) {
        /* a sorted array of 4..14 GiB that is never touched: address space only, the comparator derives an element's key from its address */
        static const long vs[4] = {512, 4096, 65536, 1000};
        c->kmode = KM_VIRTUAL;
        c->esize = (int)vs[cs_range(cs, 0, 3)];
        c->nmemb = (int)(((4L << 30) + cs_range(cs, 1, 10) * (1L << 30)) / c->esize);
        c->cmpk = 0;
        c->bos = (int)cs_range(cs, 0, 1);
        c->cseed = (uint32_t)cs_noise(cs, 0, 0xffffff);
        return 1;
    }
    if (c->row == ROW_QSORT && cs_range(cs, 0, 39999) == 39999) {
        c->kmode = KM_HUGE;
        c->esize = 1;
        c->cmpk = (int)cs_range(cs, 0, 1);
        c->place = (int)cs_range(cs, 0, 1);
        c->nmemb = (int)(S_L34 - 1000000 + cs_range(cs, 0, 7000000));
        c->bos = (int)cs_range(cs, 0, 1);
        c->cseed = (uint32_t)cs_noise(cs, 0, 0xffffff);
        return 1;
    }
    {
        long cl = cs_range(cs, 0, 9);
        if (cl <= 3) n = (int)cs_range(cs, 0, 12);
        else if (cl <= 6) n = (int)cs_range(cs, 13, 64);
        else if (cl <= 8 || !cfg->tier) n = (int)cs_range(cs, 65, 600);
        else n = (int)cs_range(cs, 601, S_MAXN);
    }
    c->nmemb = n;
    c->esize = (int)S_SIZES[cs_range(cs, 0, 13)];
    c->cmpk = (int)cs_range(cs, 0, 2);
    c->place = (int)cs_range(cs, 0, 1);
    c->bos = (int)cs_range(cs, 0, 1);
    c->kmode = KM_RANDOM;
    {
        static const long nk[6] = {0, 1, 2, 3, 16, 256};
        c->nkeys = (int)cs_pick(cs, nk, 6);
    }
    c->order = (int)cs_range(cs, 0, 4);
    c->ctxk = (int)cs_range(cs, 0, 2);
    c->zbase = n == 0 ? (int)cs_range(cs, 0, 3) : 0;
    c->cseed = (uint32_t)cs_noise(cs, 0, 0xffffff);
    return 1;
}

static const char *cmpname(int k) { return k == 0 ? "ascending" : k == 1 ? "descending" : "constant-0"; }
static const char *ivname(int k) {
    return k == IV_BASE_NULL ? "null-base" : k == IV_CMP_NULL ? "null-compar" : k == IV_KEY_NULL ? "null-key"
         : k == IV_NMEMB_BIG ? "nmemb-above-max" : k == IV_SIZE_BIG ? "size-above-max" : "none";
}
static const char *rowname(int r) { return r == ROW_QSORT ? "qsort_s" : "bsearch_s"; }

static void describe_c16(const void *k, char *buf, size_t n) {
    const scase_t *c = k;
    char ks[80] = "";
    int i, o = 0;
    if (c->kmode == KM_EXPLICIT) { for (i = 0; i < c->nmemb && i < 12; i++) o += snprintf(ks + o, sizeof ks - (size_t)o, "%d", 2 * c->keys[i] + 1); }
    else if (c->kmode == KM_COUNTS) snprintf(ks, sizeof ks, "sorted:%dx1,%dx3,%dx5", c->cnt[0], c->cnt[1], c->cnt[2]);
    else if (c->kmode == KM_HUGE) snprintf(ks, sizeof ks, "nearly-sorted-bytes(cseed=%u)", c->cseed);
    else snprintf(ks, sizeof ks, "random(alphabet=%d,order=%d,cseed=%u)", c->nkeys, c->order, c->cseed);
    snprintf(buf, n, "%s(nmemb=%d, size=%d, compar=%s, keys=%s, array %s guard page, basebos=%s, ctx-kind=%d, invalid=%s/%d, zero-variant=%d, compar-magnitude-mode=%d)",
             rowname(c->row), c->nmemb, c->esize, cmpname(c->cmpk), ks, c->place ? "starts after" : "ends at",
             c->bos ? "exact" : "unknown", c->ctxk, ivname(c->inval), c->hugek, c->zbase, (int)((c->cseed >> 3) % 6));
}

/* ---- element layout ---------------------------------------------------- */
static inline unsigned char fillb(uint32_t id, size_t j) {
    return (unsigned char)(((id * 2654435761u) >> 11) + j * 37u + (j >> 8) * 101u + 0x55u);
}
static void put_elem(unsigned char *p, size_t sz, unsigned key, uint32_t id) {
    size_t j;
    p[0] = (unsigned char)(key & 0xff);
    if (sz == 1) return;
    p[1] = (unsigned char)(key >> 8);
    for (j = 2; j < sz; j++) p[j] = j < 6 ? (unsigned char)(id >> (8 * (j - 2))) : fillb(id, j);
}
static inline unsigned get_key(const void *q, size_t sz) {
    const unsigned char *p = q;
    return sz == 1 ? p[0] : (unsigned)(p[0] | (p[1] << 8));
}
static int cmp_keys(unsigned a, unsigned b, int kind) {
    int r;
    if (kind == 2) return 0;
    r = (a > b) - (a < b);
    return kind ? -r : r;
}
/* a comparator may return ANY int of the right sign ("a - b" comparators do): magnitudes that change when truncated to 8 or
 * 16 bits, and the extreme values */
static int cmp_mag(int r, int mag) {
    static const int M[6] = {1, 65536, 32768, 256, 0x10001, INT_MAX};
    if (mag == 5 && r < 0) return INT_MIN;
    return r * M[mag % 6];
}

/* ---- the comparator handed to the library ----------------------------- */
static struct {
    const unsigned char *base;
    size_t n, sz;
    void *ctx;
    const void *key;
    int kind, search, mag;
    unsigned long calls;
    int bad_range, bad_align, bad_ctx, bad_key;
    int aborted;          /* the comparator left the library call after a pointer offence */
    uintptr_t bad_addr;
} G;
static volatile int g_timeout;

static int ptr_ok(const void *p) {
    uintptr_t a = (uintptr_t)p, b = (uintptr_t)G.base;
    if (a < b || a >= b + G.n * G.sz) { if (!G.bad_range && !G.bad_align) G.bad_addr = a; G.bad_range++; return 0; }
    if ((a - b) % G.sz) { if (!G.bad_range && !G.bad_align) G.bad_addr = a; G.bad_align++; return 0; }
    return 1;
}
static int cmpf(const void *x, const void *y, void *ctx) {
    int ok = 1;
    G.calls++;
    if (ctx != G.ctx) G.bad_ctx++;
    if (G.search) { if (x != G.key) { G.bad_key++; ok = 0; } }
    else if (!ptr_ok(x)) ok = 0;
    if (!ptr_ok(y)) ok = 0;
    if (!ok) {
        /* a real comparator would dereference the pointer; leave the call (the sort may otherwise wander for ever) */
        if (g_ar_armed) { G.aborted = 1; siglongjmp(g_ar_jmp, 1); }
        return 0;
    }
    return cmp_mag(cmp_keys(get_key(x, G.sz), get_key(y, G.sz), G.kind), G.mag);
}

static int h_count;
static void s_handler(const char *msg, void *ptr, errno_t err) { (void)msg; (void)ptr; (void)err; h_count++; }

/* ---- big guarded region for arrays that do not fit an arena slot -------- */
#define BIG_PAGES 640UL
#define BIG_DATA (BIG_PAGES * AR_PAGE)
#define BAND 4096UL
static unsigned char *big;
static void on_alarm(int sig) {
    (void)sig;
    if (g_ar_armed) { g_timeout = 1; siglongjmp(g_ar_jmp, 1); }
}
static void sort_init(const runcfg_t *cfg) {
    unsigned char *m;
    struct sigaction sa;
    (void)cfg;
    if (big) return;
    memset(&sa, 0, sizeof sa);
    sa.sa_handler = on_alarm;
    sa.sa_flags = SA_NODEFER;
    sigemptyset(&sa.sa_mask);
    sigaction(SIGALRM, &sa, NULL);
    m = mmap(NULL, BIG_DATA + 2 * AR_PAGE, PROT_NONE, MAP_PRIVATE | MAP_ANONYMOUS, -1, 0);
    if (m == MAP_FAILED) { perror("mmap big"); exit(98); }
    mprotect(m + AR_PAGE, BIG_DATA, PROT_READ | PROT_WRITE);
    big = m + AR_PAGE;
}
static int arr_big;
static unsigned char *band_p;
static unsigned char *alloc_array(size_t bytes, int place) {
    size_t i;
    if (bytes <= AR_DATA) { arr_big = 0; return ar_alloc(G_NA, place ? PL_START : PL_END, bytes, 0); }
    arr_big = 1;
    if (place) { band_p = big + bytes; for (i = 0; i < BAND; i++) band_p[i] = ar_canary((uintptr_t)(band_p + i)); return big; }
    band_p = big + BIG_DATA - bytes - BAND;
    for (i = 0; i < BAND; i++) band_p[i] = ar_canary((uintptr_t)(band_p + i));
    return big + BIG_DATA - bytes;
}
static unsigned char *check_outside(void) {
    unsigned char *bad = ar_check_canaries();
    size_t i;
    if (bad) return bad;
    if (arr_big) for (i = 0; i < BAND; i++) if (band_p[i] != ar_canary((uintptr_t)(band_p + i))) return band_p + i;
    return NULL;
}

/* ---- reference helpers -------------------------------------------------- */
static uint16_t fk[S_MAXN + 8];
static uint64_t H0[S_MAXN + 8], H1[S_MAXN + 8];
static int cmp_u16(const void *a, const void *b) { return (int)*(const uint16_t *)a - (int)*(const uint16_t *)b; }
static int cmp_h(const void *a, const void *b) {
    uint64_t x = *(const uint64_t *)a, y = *(const uint64_t *)b;
    return x < y ? -1 : x > y;
}
static uint32_t lcg(uint32_t *s) { *s = *s * 1664525u + 1013904223u; return *s >> 8; }

/* final key values of the n elements, in initial array order */
static void make_keys(const scase_t *c, size_t n) {
    size_t i;
    uint32_t s = c->cseed * 2654435761u + 12345u;
    if (c->kmode == KM_EXPLICIT) { for (i = 0; i < n; i++) fk[i] = (uint16_t)(2 * c->keys[i] + 1); return; }
    if (c->kmode == KM_COUNTS) {
        size_t j = 0;
        int q, t;
        for (q = 0; q < 3; q++) for (t = 0; t < c->cnt[q]; t++) fk[j++] = (uint16_t)(2 * q + 1);
        return;
    }
    for (i = 0; i < n; i++) fk[i] = (uint16_t)(c->nkeys ? lcg(&s) % (uint32_t)c->nkeys : i);
    if (!c->nkeys) for (i = n; i > 1; i--) { size_t j = lcg(&s) % i; uint16_t t = fk[i - 1]; fk[i - 1] = fk[j]; fk[j] = t; }
    for (i = 0; i < n; i++) { fk[i] = (uint16_t)(2 * fk[i] + 1); if (c->esize == 1) fk[i] &= 0xff; }
    if (c->order >= 1 && n) {
        qsort(fk, n, sizeof fk[0], cmp_u16);
        if (c->order == 2) for (i = 0; i < n / 2; i++) { uint16_t t = fk[i]; fk[i] = fk[n - 1 - i]; fk[n - 1 - i] = t; }
        if (c->order == 3) { size_t q, sw = n / 16 + 1; for (q = 0; q < sw; q++) { size_t a = lcg(&s) % n, b = lcg(&s) % n; uint16_t t = fk[a]; fk[a] = fk[b]; fk[b] = t; } }
        if (c->order == 4) { size_t h = n / 2; for (i = 0; i < (n - h) / 2; i++) { uint16_t t = fk[h + i]; fk[h + i] = fk[n - 1 - i]; fk[n - 1 - i] = t; } }
    }
}
static void *ctx_of(int k) {
    static int cookie;
    return k == 0 ? (void *)&cookie : k == 1 ? NULL : (void *)(uintptr_t)0x5a5a5a5b;
}
static int g_huge;
static const char *szclass(size_t sz) { return g_huge ? "nmemb>18M" : sz > 256 ? "size>256" : "size<=256"; }
static uint64_t elem_hash(const unsigned char *p, size_t sz) { return cs_hash_bytes(CS_HASH_INIT, p, sz); }

/* comparator offences common to both rows. returns 1 if a violation was recorded */
static int check_cmp_flags(res_t *r, const scase_t *c, const unsigned char *base) {
    const char *rn = rowname(c->row);
    if (G.bad_range) {
        RES_VIOL(r, "C16:%s:compared-outside-array:%s", rn, szclass((size_t)c->esize));
        RES_DETAIL(r, "comparator received pointer base%+ld (array is %zu bytes), %d such calls of %lu", (long)(G.bad_addr - (uintptr_t)base), G.n * G.sz, G.bad_range, G.calls);
        return 1;
    }
    if (G.bad_align) {
        RES_VIOL(r, "C16:%s:compared-misaligned-element:%s", rn, szclass((size_t)c->esize));
        RES_DETAIL(r, "comparator received pointer base%+ld which is not a multiple of size %zu", (long)(G.bad_addr - (uintptr_t)base), G.sz);
        return 1;
    }
    if (G.bad_key) {
        RES_VIOL(r, "C16:%s:key-not-first-argument", rn);
        RES_DETAIL(r, "comparator's first argument was not the key pointer in %d of %lu calls", G.bad_key, G.calls);
        return 1;
    }
    if (G.bad_ctx) {
        RES_VIOL(r, "C16:%s:wrong-context", rn);
        RES_DETAIL(r, "comparator received a context other than the caller's in %d of %lu calls", G.bad_ctx, G.calls);
        return 1;
    }
    return 0;
}

static int report_fault(res_t *r, const scase_t *c, const unsigned char *base, const char *what) {
    if (g_timeout) {
        RES_VIOL(r, "C16:%s:did-not-return:%s", rowname(c->row), szclass((size_t)c->esize));
        RES_DETAIL(r, "%s", "the call was still running after 120 s");
        r->fragile = 1;
        return 1;
    }
    if (!g_ar_fault.faulted) return 0;
    RES_VIOL(r, "C16:%s:%s%s-fault:%s", rowname(c->row), what, g_ar_fault.sig != SIGSEGV ? "signal" : g_ar_fault.is_write ? "store" : "load", szclass((size_t)c->esize));
    RES_DETAIL(r, "signal %d, %s at base%+ld (array is %zu bytes)", g_ar_fault.sig, g_ar_fault.is_write ? "store" : "load", (long)(g_ar_fault.addr - (uintptr_t)base), G.n * G.sz);
    if (g_ar_fault.sig != SIGSEGV) r->fragile = 1;
    return 1;
}

static uint64_t inv64(uint64_t a) { /* a odd */
    uint64_t x = a;
    int i;
    for (i = 0; i < 6; i++) x *= 2 - a * x;
    return x;
}
/* a value above RSIZE_MAX_MEM for one factor, the other factor being `other`; variant 3 makes the product wrap to <= bytes */
static size_t huge_value(int k, size_t other, size_t real, size_t bytes) {
    if (k == 0) return (size_t)RSIZE_MAX_MEM + 1;
    if (k == 1) return (size_t)1 << 63;
    if (k == 2) return (size_t)-1;
    {
        int a = __builtin_ctzl(other);
        size_t v;
        if (a > 0) v = ((size_t)1 << (64 - a)) + real;
        else v = (bytes - 1) * inv64(other);
        if (v <= RSIZE_MAX_MEM) v = ((size_t)1 << 63) + real;
        return v;
    }
}

static void exec_invalid(const scase_t *c, res_t *r) {
    size_t n = (size_t)c->nmemb, sz = (size_t)c->esize, bytes = n * sz, i;
    unsigned char *base, *keyp;
    size_t a_n = n, a_sz = sz, bos;
    void *a_base, *a_key;
    int (*a_cmp)(const void *, const void *, void *) = cmpf;
    errno_t ret = 0;
    void *res = NULL;
    make_keys(c, n);
    if (c->row == ROW_BSEARCH) qsort(fk, n, sizeof fk[0], cmp_u16);
    ar_reset();
    base = alloc_array(bytes, 0);
    keyp = ar_alloc(G_NA, PL_END, sz, 0);
    for (i = 0; i < n; i++) put_elem(base + i * sz, sz, fk[i], (uint32_t)i);
    put_elem(keyp, sz, fk[0], 0xfffffff0u);
    a_base = base; a_key = keyp;
    switch (c->inval) {
    case IV_BASE_NULL: a_base = NULL; break;
    case IV_CMP_NULL: a_cmp = NULL; break;
    case IV_KEY_NULL: a_key = NULL; break;
    case IV_NMEMB_BIG: a_n = huge_value(c->hugek, sz, n, bytes); break;
    case IV_SIZE_BIG: a_sz = huge_value(c->hugek, n, sz, bytes); break;
    }
    bos = c->bos ? (c->inval == IV_BASE_NULL ? 0 : bytes) : BOS_UNKNOWN;
    memset(&G, 0, sizeof G);
    G.base = base; G.n = n; G.sz = sz; G.ctx = ctx_of(0); G.key = keyp; G.kind = c->cmpk == 2 ? 0 : c->cmpk; G.mag = (int)((c->cseed >> 3) % 6); G.search = c->row == ROW_BSEARCH;
    h_count = 0;
    set_str_constraint_handler_s(s_handler); set_mem_constraint_handler_s(s_handler);
    res_label(r, "invalid-arguments");
    if (c->row == ROW_QSORT) AR_GUARDED(ret = _qsort_s_chk(a_base, a_n, a_sz, a_cmp, G.ctx, bos));
    else AR_GUARDED(res = _bsearch_s_chk(a_key, a_base, a_n, a_sz, a_cmp, G.ctx, bos));
    if (g_ar_fault.faulted) {
        RES_VIOL(r, "C16:%s:invalid-%s:fault:basebos-%s", rowname(c->row), ivname(c->inval), c->bos ? "known" : "unknown");
        RES_DETAIL(r, "signal %d %s at base%+ld with nmemb=%zu size=%zu", g_ar_fault.sig, g_ar_fault.is_write ? "store" : "load", (long)(g_ar_fault.addr - (uintptr_t)base), a_n, a_sz);
        if (g_ar_fault.sig != SIGSEGV) r->fragile = 1;
        return;
    }
    if (report_fault(r, c, base, "")) return;
    if (G.aborted || (c->row == ROW_QSORT ? ret == 0 : res != NULL)) {
        RES_VIOL(r, "C16:%s:invalid-%s:accepted:basebos-%s", rowname(c->row), ivname(c->inval), c->bos ? "known" : "unknown");
        if (G.aborted) RES_DETAIL(r, "went on to compare with nmemb=%zu (0x%zx) size=%zu (0x%zx), RSIZE_MAX_MEM=%lu; comparator call %lu received base%+ld, outside the %zu-byte array", a_n, a_n, a_sz, a_sz, (unsigned long)RSIZE_MAX_MEM, G.calls, (long)(G.bad_addr - (uintptr_t)base), bytes);
        else if (c->row == ROW_QSORT) RES_DETAIL(r, "returned 0 for nmemb=%zu (0x%zx) size=%zu (0x%zx), RSIZE_MAX_MEM=%lu; comparator called %lu times, %d with pointers outside the %zu-byte array", a_n, a_n, a_sz, a_sz, (unsigned long)RSIZE_MAX_MEM, G.calls, G.bad_range + G.bad_align, bytes);
        else RES_DETAIL(r, "returned non-null base%+ld for nmemb=%zu (0x%zx) size=%zu (0x%zx), RSIZE_MAX_MEM=%lu; comparator called %lu times, %d with pointers outside the %zu-byte array", (long)((uintptr_t)res - (uintptr_t)base), a_n, a_n, a_sz, a_sz, (unsigned long)RSIZE_MAX_MEM, G.calls, G.bad_range + G.bad_align, bytes);
        return;
    }
    if (check_outside()) {
        RES_VIOL(r, "C16:%s:invalid-%s:wrote-outside-array", rowname(c->row), ivname(c->inval));
        RES_DETAIL(r, "%s", "canary changed");
    }
}

static void exec_qsort(const scase_t *c, res_t *r) {
    size_t n = (size_t)c->nmemb, sz = (size_t)c->esize, bytes = n * sz, i;
    unsigned char *base;
    void *a_base;
    int (*a_cmp)(const void *, const void *, void *) = cmpf;
    errno_t ret = -4242;
    unsigned char *bad;
    make_keys(c, n);
    ar_reset();
    base = alloc_array(bytes, c->place);
    for (i = 0; i < n; i++) { put_elem(base + i * sz, sz, fk[i], (uint32_t)i); H0[i] = elem_hash(base + i * sz, sz); }
    a_base = base;
    if (n == 0) { if (c->zbase & 1) a_base = NULL; if (c->zbase & 2) a_cmp = NULL; }
    memset(&G, 0, sizeof G);
    G.base = base; G.n = n; G.sz = sz; G.ctx = ctx_of(c->ctxk); G.kind = c->cmpk; G.mag = (int)((c->cseed >> 3) % 6); G.search = 0;
    h_count = 0;
    set_str_constraint_handler_s(s_handler); set_mem_constraint_handler_s(s_handler);
    AR_GUARDED(ret = _qsort_s_chk(a_base, n, sz, a_cmp, G.ctx, c->bos ? bytes : BOS_UNKNOWN));
    r->nontrivial = n >= 2;
    res_label(r, n == 0 ? "nmemb:0" : n == 1 ? "nmemb:1" : n <= 9 ? "nmemb:2-9" : n <= 64 ? "nmemb:10-64" : n <= 600 ? "nmemb:65-600" : "nmemb:601+");
    res_label(r, sz > 256 ? "size:>256" : (sz & (sz - 1)) ? "size:non-power-of-two" : "size:power-of-two");
    res_label(r, c->cmpk == 0 ? "compar:ascending" : c->cmpk == 1 ? "compar:descending" : "compar:constant-0");
    if (report_fault(r, c, base, "")) return;
    if (check_cmp_flags(r, c, base)) return;
    if (ret != 0) {
        RES_VIOL(r, "C16:qsort_s:valid-call-rejected:%s", n == 0 ? "nmemb=0" : szclass(sz));
        RES_DETAIL(r, "returned %d for a valid array (handler calls %d)", (int)ret, h_count);
        return;
    }
    if ((bad = check_outside()) != NULL) {
        RES_VIOL(r, "C16:qsort_s:wrote-outside-array:%s", szclass(sz));
        RES_DETAIL(r, "byte at base%+ld changed (array is %zu bytes)", (long)(bad - base), bytes);
        return;
    }
    /* permutation: multiset of element images preserved */
    for (i = 0; i < n; i++) H1[i] = elem_hash(base + i * sz, sz);
    qsort(H0, n, sizeof H0[0], cmp_h);
    {
        static uint64_t H2[S_MAXN + 8];
        memcpy(H2, H1, n * sizeof H1[0]);
        qsort(H2, n, sizeof H2[0], cmp_h);
        if (memcmp(H0, H2, n * sizeof H0[0]) != 0) {
            size_t torn = n;
            for (i = 0; i < n; i++) if (!bsearch(&H1[i], H0, n, sizeof H0[0], cmp_h)) { torn = i; break; }
            if (torn < n) {
                RES_VIOL(r, "C16:qsort_s:element-torn:%s", szclass(sz));
                RES_DETAIL(r, "element %zu of the result (key %u) is not a byte-exact copy of any original element", torn, get_key(base + torn * sz, sz));
            } else {
                RES_VIOL(r, "C16:qsort_s:element-lost-or-duplicated:%s", szclass(sz));
                RES_DETAIL(r, "%s", "result holds only original elements but not each exactly once");
            }
            return;
        }
    }
    for (i = 0; i + 1 < n; i++)
        if (cmp_keys(get_key(base + i * sz, sz), get_key(base + (i + 1) * sz, sz), c->cmpk) > 0) {
            RES_VIOL(r, "C16:qsort_s:not-sorted:%s:%s", cmpname(c->cmpk), szclass(sz));
            RES_DETAIL(r, "result[%zu] has key %u, result[%zu] has key %u (nmemb %zu)", i, get_key(base + i * sz, sz), i + 1, get_key(base + (i + 1) * sz, sz), n);
            return;
        }
}

static void exec_bsearch(const scase_t *c, res_t *r) {
    size_t n = (size_t)c->nmemb, sz = (size_t)c->esize, bytes = n * sz, i;
    unsigned char *base, *keyp, *bad;
    void *a_base;
    const void *a_key;
    int (*a_cmp)(const void *, const void *, void *) = cmpf;
    unsigned probes[24];
    int np = 0, q;
    uint64_t h_before;
    uint32_t s = c->cseed * 40503u + 77u;
    make_keys(c, n);
    if (c->cmpk != 2 && n) {
        qsort(fk, n, sizeof fk[0], cmp_u16);
        if (c->cmpk == 1) for (i = 0; i < n / 2; i++) { uint16_t t = fk[i]; fk[i] = fk[n - 1 - i]; fk[n - 1 - i] = t; }
    }
    ar_reset();
    base = alloc_array(bytes, c->place);
    keyp = ar_alloc(G_NA, PL_END, sz, 0);
    for (i = 0; i < n; i++) put_elem(base + i * sz, sz, fk[i], (uint32_t)i);
    h_before = cs_hash_bytes(CS_HASH_INIT, base, bytes);
    /* probe keys: present and absent */
    if (c->kmode != KM_RANDOM) for (q = 0; q <= 6; q++) probes[np++] = (unsigned)q;
    else {
        unsigned lo = 0xffff, hi = 0;
        for (i = 0; i < n; i++) { if (fk[i] < lo) lo = fk[i]; if (fk[i] > hi) hi = fk[i]; }
        probes[np++] = 0;
        if (n) {
            probes[np++] = lo; probes[np++] = hi; probes[np++] = fk[n / 2]; probes[np++] = fk[0]; probes[np++] = fk[n - 1];
            for (q = 0; q < 3; q++) probes[np++] = fk[lcg(&s) % n];
            for (q = 0; q < 3; q++) probes[np++] = (lo + lcg(&s) % (hi - lo + 2)) & ~1u;
            probes[np++] = hi + 1;
        } else probes[np++] = 1;
        if (sz == 1) for (q = 0; q < np; q++) probes[q] &= 0xff;
    }
    r->nontrivial = n >= 2;
    res_label(r, n == 0 ? "nmemb:0" : n == 1 ? "nmemb:1" : n <= 9 ? "nmemb:2-9" : n <= 64 ? "nmemb:10-64" : n <= 600 ? "nmemb:65-600" : "nmemb:601+");
    res_label(r, sz > 256 ? "size:>256" : (sz & (sz - 1)) ? "size:non-power-of-two" : "size:power-of-two");
    res_label(r, c->cmpk == 0 ? "compar:ascending" : c->cmpk == 1 ? "compar:descending" : "compar:constant-0");
    set_str_constraint_handler_s(s_handler); set_mem_constraint_handler_s(s_handler);
    for (q = 0; q < np; q++) {
        void *res = NULL;
        int present = 0;
        put_elem(keyp, sz, probes[q], 0xfffffff0u);
        for (i = 0; i < n; i++) if (cmp_keys(probes[q], fk[i], c->cmpk) == 0) { present = 1; break; }
        a_base = base; a_key = keyp;
        if (n == 0) { if (c->zbase & 1) a_base = NULL; if (c->zbase & 2) a_cmp = NULL; if (q & 1) a_key = NULL; }
        memset(&G, 0, sizeof G);
        G.base = base; G.n = n; G.sz = sz; G.ctx = ctx_of(c->ctxk); G.key = keyp; G.kind = c->cmpk; G.mag = (int)((c->cseed >> 3) % 6); G.search = 1;
        h_count = 0;
        AR_GUARDED(res = _bsearch_s_chk(a_key, a_base, n, sz, a_cmp, G.ctx, c->bos ? bytes : BOS_UNKNOWN));
        if (report_fault(r, c, base, "")) return;
        if (check_cmp_flags(r, c, base)) return;
        res_label(r, present ? "key:present" : "key:absent");
        if (present && !res) {
            RES_VIOL(r, "C16:bsearch_s:present-key-not-found:%s:%s", cmpname(c->cmpk), szclass(sz));
            RES_DETAIL(r, "key %u occurs at index %zu of the sorted array (nmemb %zu) but NULL was returned after %lu comparisons", probes[q], i, n, G.calls);
            return;
        }
        if (!present && res) {
            RES_VIOL(r, "C16:bsearch_s:absent-key-found:%s:%s", cmpname(c->cmpk), szclass(sz));
            RES_DETAIL(r, "key %u does not occur (nmemb %zu) but base%+ld was returned", probes[q], n, (long)((uintptr_t)res - (uintptr_t)base));
            return;
        }
        if (res) {
            uintptr_t a = (uintptr_t)res, b = (uintptr_t)base;
            if (a < b || a >= b + bytes || (a - b) % sz) {
                RES_VIOL(r, "C16:bsearch_s:returned-non-element:%s", szclass(sz));
                RES_DETAIL(r, "returned base%+ld, array is %zu bytes of %zu-byte elements", (long)(a - b), bytes, sz);
                return;
            }
            if (cmp_keys(probes[q], get_key(res, sz), c->cmpk) != 0) {
                RES_VIOL(r, "C16:bsearch_s:returned-non-match:%s:%s", cmpname(c->cmpk), szclass(sz));
                RES_DETAIL(r, "key %u, returned element %zu has key %u", probes[q], (size_t)(a - b) / sz, get_key(res, sz));
                return;
            }
        }
    }
    if ((bad = check_outside()) != NULL) {
        RES_VIOL(r, "C16:bsearch_s:wrote-outside-array:%s", szclass(sz));
        RES_DETAIL(r, "byte at base%+ld changed (array is %zu bytes)", (long)(bad - base), bytes);
        return;
    }
    if (cs_hash_bytes(CS_HASH_INIT, base, bytes) != h_before) {
        RES_VIOL(r, "C16:bsearch_s:array-modified:%s", szclass(sz));
        RES_DETAIL(r, "%s", "the const array changed during the searches");
    }
}

/* one very large array of single bytes, nearly sorted; own guarded mapping */
static void exec_huge(const scase_t *c, res_t *r) {
    size_t n = (size_t)c->nmemb, i, map = ((n + AR_PAGE - 1) / AR_PAGE) * AR_PAGE, cnt0[256], cnt1[256];
    unsigned char *m, *base;
    uint32_t s = c->cseed * 2654435761u + 4711u;
    errno_t ret = -4242;
    int q;
    m = mmap(NULL, map + 2 * AR_PAGE, PROT_NONE, MAP_PRIVATE | MAP_ANONYMOUS, -1, 0);
    if (m == MAP_FAILED) { res_label(r, "skipped:no-memory"); return; }
    mprotect(m + AR_PAGE, map, PROT_READ | PROT_WRITE);
    base = c->place ? m + AR_PAGE : m + AR_PAGE + map - n;
    for (i = 0; i < n; i++) { unsigned v = (unsigned)(i * 256 / n); base[i] = (unsigned char)(c->cmpk ? 255 - v : v); }
    for (q = 0; q < 64; q++) {
        size_t a = (((size_t)lcg(&s) << 12) ^ lcg(&s)) % n, b = (((size_t)lcg(&s) << 12) ^ lcg(&s)) % n;
        unsigned char t = base[a]; base[a] = base[b]; base[b] = t;
    }
    memset(cnt0, 0, sizeof cnt0); memset(cnt1, 0, sizeof cnt1);
    for (i = 0; i < n; i++) cnt0[base[i]]++;
    ar_reset();
    arr_big = 0;
    memset(&G, 0, sizeof G);
    G.base = base; G.n = n; G.sz = 1; G.ctx = ctx_of(0); G.kind = c->cmpk; G.mag = (int)((c->cseed >> 3) % 6); G.search = 0;
    h_count = 0;
    set_str_constraint_handler_s(s_handler); set_mem_constraint_handler_s(s_handler);
    AR_GUARDED(ret = _qsort_s_chk(base, n, 1, cmpf, G.ctx, c->bos ? n : BOS_UNKNOWN));
    r->nontrivial = 1;
    res_label(r, "nmemb:18M+");
    res_label(r, c->cmpk == 0 ? "compar:ascending" : "compar:descending");
    g_huge = 1;
    do {
        if (report_fault(r, c, base, "")) break;
        if (check_cmp_flags(r, c, base)) break;
        if (ret != 0) {
            RES_VIOL(r, "C16:qsort_s:valid-call-rejected:%s", szclass(1));
            RES_DETAIL(r, "returned %d for a valid array of %zu bytes (RSIZE_MAX_MEM is %lu)", (int)ret, n, (unsigned long)RSIZE_MAX_MEM);
            break;
        }
        for (i = 0; i < n; i++) cnt1[base[i]]++;
        if (memcmp(cnt0, cnt1, sizeof cnt0) != 0) {
            RES_VIOL(r, "C16:qsort_s:element-lost-or-duplicated:%s", szclass(1));
            RES_DETAIL(r, "%s", "the multiset of byte values changed");
            break;
        }
        for (i = 0; i + 1 < n; i++)
            if (cmp_keys(base[i], base[i + 1], c->cmpk) > 0) {
                RES_VIOL(r, "C16:qsort_s:not-sorted:%s:%s", cmpname(c->cmpk), szclass(1));
                RES_DETAIL(r, "result[%zu] has key %u, result[%zu] has key %u (nmemb %zu)", i, base[i], i + 1, base[i + 1], n);
                break;
            }
    } while (0);
    g_huge = 0;
    munmap(m, map + 2 * AR_PAGE);
}

/* ---- bsearch_s over a huge untouched array ---- */
static unsigned char *vbase;
static size_t vsize_el;
static long vcmp_outside;
static int cmp_virtual(const void *key, const void *elem, void *ctx) {
    long want = *(const long *)key, idx;
    (void)ctx;
    if ((const unsigned char *)elem < vbase || ((size_t)((const unsigned char *)elem - vbase) % vsize_el) != 0) { vcmp_outside++; return 0; }
    idx = (long)((size_t)((const unsigned char *)elem - vbase) / vsize_el);
    return want < 2 * idx ? -1 : (want > 2 * idx ? 1 : 0);   /* element i holds key 2i */
}
static void exec_virtual(const scase_t *c, res_t *r) {
    static unsigned char *region;
    const size_t REGION = 15UL << 30;
    size_t n = (size_t)c->nmemb, sz = (size_t)c->esize;
    uint32_t s = c->cseed * 2654435761u + 3;
    int q;
    if (!region) { region = mmap(NULL, REGION, PROT_NONE, MAP_PRIVATE | MAP_ANONYMOUS | MAP_NORESERVE, -1, 0); if (region == MAP_FAILED) region = NULL; }
    if (!region || n * sz > REGION || n < 2) { res_label(r, "skipped"); return; }
    vbase = region; vsize_el = sz; vcmp_outside = 0;
    r->nontrivial = 1;
    res_label(r, "row:bsearch_s"); res_label(r, "array>4GiB(virtual)");
    for (q = 0; q < 12; q++) {
        long idx, key;
        void *res = (void *)1;
        s = s * 1664525u + 1013904223u;
        idx = q == 0 ? 0 : q == 1 ? (long)n - 1 : q == 2 ? (long)(((4UL << 30) / sz) + 1) : (long)(((uint64_t)s * n) >> 32);
        key = 2 * idx + (q & 1 && q > 2 ? 1 : 0);  /* odd keys are absent */
        AR_GUARDED(res = _bsearch_s_chk(&key, vbase, n, sz, cmp_virtual, NULL, c->bos ? n * sz : BOS_UNKNOWN));
        if (g_ar_fault.faulted) { r->fragile = 1; RES_VIOL(r, "C16:bsearch_s:fault:%s", "array>4GiB"); RES_DETAIL(r, "signal %d at %p: an element of the array was dereferenced or an address outside it computed (nmemb %zu, size %zu)", g_ar_fault.sig, (void *)g_ar_fault.addr, n, sz); return; }
        if (vcmp_outside) { RES_VIOL(r, "C16:bsearch_s:comparator-got-non-element:%s", "array>4GiB"); RES_DETAIL(r, "the comparator was called with an address that is not an element of the array (nmemb %zu, size %zu)", n, sz); return; }
        if (!(key & 1) && res != vbase + (size_t)idx * sz) { RES_VIOL(r, "C16:bsearch_s:present-key-not-found:ascending:%s", "array>4GiB"); RES_DETAIL(r, "key of element %ld (byte offset %zu) in an array of %zu x %zu bytes: returned %p, expected %p", idx, (size_t)idx * sz, n, sz, res, (void *)(vbase + (size_t)idx * sz)); return; }
        if ((key & 1) && res != NULL) { RES_VIOL(r, "C16:bsearch_s:absent-key-found:ascending:%s", "array>4GiB"); RES_DETAIL(r, "a key between elements %ld and %ld was reported found at %p", idx, idx + 1, res); return; }
    }
}

static void exec_c16(const void *k, res_t *r, const runcfg_t *cfg) {
    const scase_t *c = k;
    (void)cfg;
    r->hash = cs_hash_bytes(CS_HASH_INIT, c, sizeof *c);
    g_timeout = 0;
    if (c->kmode == KM_VIRTUAL) { if (c->row != ROW_BSEARCH || c->esize < 1) { res_label(r, "skipped"); return; } exec_virtual(c, r); return; }
    if (c->kmode == KM_HUGE) {
        if (c->nmemb < 2 || c->nmemb > S_HUGEMAX || c->row != ROW_QSORT) { res_label(r, "skipped"); return; }
        res_label(r, "row:qsort_s");
        alarm(120);
        exec_huge(c, r);
        alarm(0);
        return;
    }
    if (c->nmemb < 0 || c->nmemb > S_MAXN || c->esize < 1 || c->esize > S_MAXSZ) { res_label(r, "skipped"); return; }
    if (c->kmode == KM_EXPLICIT && c->nmemb > 12) { res_label(r, "skipped"); return; }
    if (c->kmode == KM_COUNTS && (c->cnt[0] < 0 || c->cnt[1] < 0 || c->cnt[2] < 0 || c->cnt[0] + c->cnt[1] + c->cnt[2] != c->nmemb)) { res_label(r, "skipped"); return; }
    res_label(r, c->row == ROW_QSORT ? "row:qsort_s" : "row:bsearch_s");
    alarm(120);
    if (c->inval) {
        if (c->nmemb < 2) { res_label(r, "skipped"); alarm(0); return; }
        exec_invalid(c, r);
    } else if (c->row == ROW_QSORT) exec_qsort(c, r);
    else exec_bsearch(c, r);
    alarm(0);
    /* a case that ended early (fault, first violation) may leave damaged canaries behind: repair them so the next case is not blamed */
    { int g; for (g = 0; g < 8 && check_outside(); g++) {} }
}

const module_t mod_C16 = {"C16", sizeof(scase_t), 1, {1200000, 3000000}, sort_init, gen_c16, exec_c16, describe_c16,
                          "rows qsort_s, bsearch_s. phase 0: qsort_s on every key pattern over 3 keys for nmemb 0..7 (thorough 0..9), bsearch_s on every sorted array over 3 keys for nmemb 0..24 (thorough 0..40), "
                          "x element sizes {1,2,3,4,8,257} (thorough {1,2,3,4,7,8,256,257}) x comparator {ascending, descending, constant 0} x array flush against the end / start guard page; "
                          "random phase: nmemb 0..600 (thorough 0..5000), element sizes {1,2,3,4,7,8,12,16,31,255,256,257,300,513}, key alphabets {all distinct,1,2,3,16,256}, initial orders random/ascending/descending/nearly sorted/organ pipe, "
                          "plus a few arrays of 17..26 million one-byte elements (nearly sorted) in both phases; 1 in 16 cases passes a documented-invalid argument (null base/compar/key, nmemb or size above RSIZE_MAX_MEM); non-trivial = nmemb >= 2 (valid arguments); distinct by the decoded case"};
