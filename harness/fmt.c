#define _GNU_SOURCE
#include "fmt.h"
#include <stdarg.h>
#include <limits.h>
#include <float.h>
#include <math.h>
#include <locale.h>
#include <stdint.h>
#include <errno.h>
#include <sys/mman.h>
#include <unistd.h>

const fent_t g_fent[NFENT] = {
    {"sprintf_s", FK_PRINTF, 0, SK_BUF, 0, 0},   {"vsprintf_s", FK_PRINTF, 0, SK_BUF, 1, 0},
    {"snprintf_s", FK_PRINTF, 0, SK_BUF, 0, 1},  {"vsnprintf_s", FK_PRINTF, 0, SK_BUF, 1, 1},
    {"printf_s", FK_PRINTF, 0, SK_STD, 0, 0},    {"vprintf_s", FK_PRINTF, 0, SK_STD, 1, 0},
    {"fprintf_s", FK_PRINTF, 0, SK_STREAM, 0, 0}, {"vfprintf_s", FK_PRINTF, 0, SK_STREAM, 1, 0},
    {"swprintf_s", FK_PRINTF, 1, SK_BUF, 0, 0},  {"vswprintf_s", FK_PRINTF, 1, SK_BUF, 1, 0},
    {"snwprintf_s", FK_PRINTF, 1, SK_BUF, 0, 1}, {"vsnwprintf_s", FK_PRINTF, 1, SK_BUF, 1, 1},
    {"wprintf_s", FK_PRINTF, 1, SK_STD, 0, 0},   {"vwprintf_s", FK_PRINTF, 1, SK_STD, 1, 0},
    {"fwprintf_s", FK_PRINTF, 1, SK_STREAM, 0, 0}, {"vfwprintf_s", FK_PRINTF, 1, SK_STREAM, 1, 0},
    {"sscanf_s", FK_SCANF, 0, SK_BUF, 0, 0},     {"vsscanf_s", FK_SCANF, 0, SK_BUF, 1, 0},
    {"fscanf_s", FK_SCANF, 0, SK_STREAM, 0, 0},  {"vfscanf_s", FK_SCANF, 0, SK_STREAM, 1, 0},
    {"scanf_s", FK_SCANF, 0, SK_STD, 0, 0},      {"vscanf_s", FK_SCANF, 0, SK_STD, 1, 0},
    {"swscanf_s", FK_SCANF, 1, SK_BUF, 0, 0},    {"vswscanf_s", FK_SCANF, 1, SK_BUF, 1, 0},
    {"fwscanf_s", FK_SCANF, 1, SK_STREAM, 0, 0}, {"vfwscanf_s", FK_SCANF, 1, SK_STREAM, 1, 0},
    {"wscanf_s", FK_SCANF, 1, SK_STD, 0, 0},     {"vwscanf_s", FK_SCANF, 1, SK_STD, 1, 0},
};

/* ---- va_list trampolines for the v* entry points ---- */
#define TR_BUF(name, T, fn)                                                    \
    static int name(T *dest, rsize_t dmax, size_t bos, const T *fmt, ...) {    \
        va_list ap; int r; va_start(ap, fmt); r = fn(dest, dmax, bos, fmt, ap); va_end(ap); return r; }
TR_BUF(tr_vsprintf_s, char, _vsprintf_s_chk)
TR_BUF(tr_vsnprintf_s, char, _vsnprintf_s_chk)
TR_BUF(tr_vswprintf_s, wchar_t, _vswprintf_s_chk)
TR_BUF(tr_vsnwprintf_s, wchar_t, _vsnwprintf_s_chk)
static int tr_vprintf_s(const char *fmt, ...) { va_list ap; int r; va_start(ap, fmt); r = vprintf_s(fmt, ap); va_end(ap); return r; }
static int tr_vwprintf_s(const wchar_t *fmt, ...) { va_list ap; int r; va_start(ap, fmt); r = vwprintf_s(fmt, ap); va_end(ap); return r; }
static int tr_vfprintf_s(FILE *f, const char *fmt, ...) { va_list ap; int r; va_start(ap, fmt); r = vfprintf_s(f, fmt, ap); va_end(ap); return r; }
static int tr_vfwprintf_s(FILE *f, const wchar_t *fmt, ...) { va_list ap; int r; va_start(ap, fmt); r = vfwprintf_s(f, fmt, ap); va_end(ap); return r; }
static int tr_vsscanf_s(const char *b, const char *fmt, ...) { va_list ap; int r; va_start(ap, fmt); r = vsscanf_s(b, fmt, ap); va_end(ap); return r; }
static int tr_vswscanf_s(const wchar_t *b, const wchar_t *fmt, ...) { va_list ap; int r; va_start(ap, fmt); r = vswscanf_s(b, fmt, ap); va_end(ap); return r; }
static int tr_vfscanf_s(FILE *f, const char *fmt, ...) { va_list ap; int r; va_start(ap, fmt); r = vfscanf_s(f, fmt, ap); va_end(ap); return r; }
static int tr_vfwscanf_s(FILE *f, const wchar_t *fmt, ...) { va_list ap; int r; va_start(ap, fmt); r = vfwscanf_s(f, fmt, ap); va_end(ap); return r; }
static int tr_vscanf_s(const char *fmt, ...) { va_list ap; int r; va_start(ap, fmt); r = vscanf_s(fmt, ap); va_end(ap); return r; }
static int tr_vwscanf_s(const wchar_t *fmt, ...) { va_list ap; int r; va_start(ap, fmt); r = vwscanf_s(fmt, ap); va_end(ap); return r; }

static void *ent_fn(int e) {
    switch (e) {
    case 0: return (void *)_sprintf_s_chk; case 1: return (void *)tr_vsprintf_s; case 2: return (void *)_snprintf_s_chk; case 3: return (void *)tr_vsnprintf_s;
    case 4: return (void *)printf_s; case 5: return (void *)tr_vprintf_s; case 6: return (void *)fprintf_s; case 7: return (void *)tr_vfprintf_s;
    case 8: return (void *)_swprintf_s_chk; case 9: return (void *)tr_vswprintf_s; case 10: return (void *)_snwprintf_s_chk; case 11: return (void *)tr_vsnwprintf_s;
    case 12: return (void *)wprintf_s; case 13: return (void *)tr_vwprintf_s; case 14: return (void *)fwprintf_s; case 15: return (void *)tr_vfwprintf_s;
    case 16: return (void *)sscanf_s; case 17: return (void *)tr_vsscanf_s; case 18: return (void *)fscanf_s; case 19: return (void *)tr_vfscanf_s;
    case 20: return (void *)scanf_s; case 21: return (void *)tr_vscanf_s; case 22: return (void *)swscanf_s; case 23: return (void *)tr_vswscanf_s;
    case 24: return (void *)fwscanf_s; case 25: return (void *)tr_vfwscanf_s; case 26: return (void *)wscanf_s; default: return (void *)tr_vwscanf_s;
    }
}

static const char *LITS[] = {"", "ab", " ", "x", ": ", "12", "%%", "a%%b"};
#define NLITS 8
static const char *LENS[] = {"", "hh", "h", "l", "ll", "j", "z", "t", "L", "Z", "q"};

void fmt_render(const fcase_t *c, char *out, size_t n) {
    size_t k = 0;
    int i, j, ai = 0, glue = 0;
    const int positional = (c->argmode & 2) != 0; /* every directive written as %<k>$...: the k-th argument */
#define EMIT(...) do { if (k < n) k += (size_t)snprintf(out + k, n - k, __VA_ARGS__); } while (0)
    out[0] = 0;
    for (i = 0; i < c->nd; i++) {
        const fdir_t *d = &c->d[i];
        if (glue) { glue = 0; goto conv; } /* directly after a wide-only unknown conversion: no literal, no escapes in between */
        if (d->lit == LIT_LONG) { int q; for (q = 0; q < 4100 && k + 1 < n; q++) out[k++] = ' '; out[k < n ? k : n - 1] = 0; } /* pushes what follows beyond offset 4096 */
        else EMIT("%s", LITS[d->lit % NLITS]);
        for (j = 0; j < d->esc; j++) EMIT("%%%%");
    conv:
        if (d->conv == '%') { EMIT("%%%%"); continue; }
        if (d->conv == 'N') { EMIT("%%%%n"); continue; }
        if (d->conv == '[') { /* printf: an unknown conversion, printed literally by libc */
            /* wide entry points, half of the time: a character above 0xFF whose LOW BYTE is a flag / length modifier / digit
             * (bytes 1..4 become U+0168 'h', U+016C 'l', U+0231 '1', U+022D '-' in widen()), glued to the next directive */
            if (g_fent[c->ent].wide && g_fent[c->ent].kind != FK_SCANF && (d->vsel & 1)) { EMIT("%%%c", 1 + ((d->vsel >> 1) & 3)); glue = (d->vsel & 8) != 0; }
            else EMIT("%%[x");
            continue;
        }
        EMIT("%%");
        if (positional) EMIT("%d$", ++ai);
        if (d->flags & 32) EMIT("I");   /* glibc extensions a pre-scan has to know about */
        if (d->flags & 64) EMIT("'");
        if (g_fent[c->ent].kind == FK_SCANF) { if (d->suppress && !positional) EMIT("*"); }
        else {
            if (d->flags & 1) EMIT("-");
            if (d->flags & 2) EMIT("+");
            if (d->flags & 4) EMIT(" ");
            if (d->flags & 8) EMIT("#");
            if (d->flags & 16) EMIT("0");
        }
        if (positional) { /* no '*' in positional formats: the drawn star values become literal numbers */
            if (d->width == -2) { if (d->wstar) EMIT("%d", d->wstar < 0 ? -d->wstar : d->wstar); } else if (d->width >= 0) EMIT("%d", d->width);
            if (d->prec == -2) { if (d->pstar >= 0) EMIT(".%d", d->pstar); } else if (d->prec >= 0) EMIT(".%d", d->prec);
        } else {
        if (d->width == -2) EMIT("*"); else if (d->width >= 0) EMIT("%d", d->width);
        if (d->prec == -2) EMIT(".*"); else if (d->prec >= 0) EMIT(".%d", d->prec);
        }
        if (d->conv == 'C') EMIT("lc");
        else if (d->conv == 'S') EMIT("ls");
        else EMIT("%s%c", LENS[d->len % LEN_COUNT], d->conv);
    }
    EMIT("%s", LITS[c->tail_lit % NLITS]);
#undef EMIT
}

int fmt_count_real_n(const fcase_t *c) {
    int i, n = 0;
    for (i = 0; i < c->nd; i++) if (c->d[i].conv == 'n') n++;
    return n;
}

/* ---- values ---- */
static const long long IVALS[] = {0, 1, -1, 42, INT_MAX, INT_MIN, 255, 65535, 123456789, -123456789, LONG_MAX, LONG_MIN, 7, 100000, -42, 1000000000LL};
#define NIV 16
static const double DVALS[] = {0.0, -0.0, 1.0, 0.5, 1.5, 2.5, 0.999, 999999999.0, 1e9, 1000000001.0, 1e15, 1e300, 4.9406564584124654e-324, 123.456, -7.25, 3.0e-5,
                               1e-10, 9.995, 0.125, 1234567.891, -1e9, 2.5e-3, 99.5, 1e100};
#define NDV 24
static const char *SVALS[] = {"", "a", "hello", "0123456789012345678901234567890123456789", "h\xc3\xa9\xe2\x82\xac", "x y"};
#define NSV 6
static const wchar_t *WSVALS[] = {L"", L"a", L"hello", L"hé€", L"\U00010400z", L"wide string 0123456789"};
#define NWSV 6
static const int CVALS[] = {'a', 'Z', '0', ' ', 0xE9, 0};
#define NCV 6
static const unsigned WCVALS[] = {'a', 0xE9, 0x20AC, 0x10400, 'Z', 0};
#define NWCV 6

static double dval(unsigned sel) {
    unsigned k = sel % (NDV + 3);
    if (k == NDV) return INFINITY;
    if (k == NDV + 1) return -INFINITY;
    if (k == NDV + 2) return NAN;
    return DVALS[k];
}

/* "%Lf" arguments: a quarter of them are values no double holds (more than 53 significant bits, or outside the double range) */
static long double ldval(unsigned sel) {
    static const long double LV[] = {0.1L, 1.0L / 3.0L, 3.14159265358979323846264338327950288L, 1e4000L, -1e-4000L, 1.0000000000000000001L,
                                     123456789.123456789123L, -2.000000000000000000434L, 1e-320L, 98765432109876543210.5L};
    if (sel % 64 >= 54) return LV[sel % 64 - 54];
    return (long double)dval(sel);
}

/* ---- handlers ---- */
static fres_t *g_fx;
static void fh(const char *msg, void *ptr, errno_t err) {
    (void)msg; (void)ptr;
    if (g_fx) { if (g_fx->h_count < 4) g_fx->h_codes[g_fx->h_count] = err; g_fx->h_count++; g_fx->h_code = err; }
}

typedef union { int i; unsigned u; long l; long long ll; double d; long double ld; void *p; size_t z; } aval_t;

static unsigned char g_blocks[2 * FMAXD + 2][16];
static const char SCAN_IN[] = "12 34 56 78 90 11 22 ab";

/* output sinks for the stream / stdout entry points: real descriptors (memfd), because
   vfprintf_s rejects streams without a file descriptor; one per orientation */
static FILE *g_sink[2];
static FILE *sink_file(int wide) {
    if (!g_sink[wide]) {
        int fd = memfd_create(wide ? "vsinkw" : "vsinkn", 0);
        g_sink[wide] = fdopen(fd, "w+");
        if (wide) fwide(g_sink[wide], 1);
    }
    fflush(g_sink[wide]);
    if (ftruncate(fileno(g_sink[wide]), 0)) {}
    rewind(g_sink[wide]);
    clearerr(g_sink[wide]);
    return g_sink[wide];
}

static size_t widen(const char *s, wchar_t *w, size_t n) {
    size_t i;
    static const wchar_t hi[5] = {0, 0x0168, 0x016C, 0x0231, 0x022D}; /* see fmt_render, conversion '[' */
    for (i = 0; s[i] && i + 1 < n; i++) w[i] = (unsigned char)s[i] <= 4 ? hi[(unsigned char)s[i]] : (wchar_t)(unsigned char)s[i];
    w[i] = 0;
    return i;
}

static struct { uintptr_t end; int dir; } g_argblk[FMAXD + 1];
static int g_nargblk;
void fmt_run(const fcase_t *c, fres_t *x, int want_ref, int guard) {
    const fent_t *e = &g_fent[c->ent];
    ffi_cif cif;
    ffi_type *types[4 + 3 * FMAXD];
    void *vals[4 + 3 * FMAXD];
    aval_t av[4 + 3 * FMAXD];
    int nfixed = 0, n = 0, i, nblk = 0;
    ffi_arg rc = 0;
    static wchar_t wfmt[FMT_MAXLEN];
    static char inbuf[64];
    static wchar_t winbuf[64];
    FILE *stream = NULL, *saved = NULL;
    char *msptr = NULL;
    size_t mssize = 0;
    int blk_is_n[2 * FMAXD + 2];

    memset(x, 0, offsetof(fres_t, out));
    x->out_len = 0; x->ref_len = -1; x->h_code = -1; x->canary_bad = 0;
    x->nsent = x->sent_changed = x->n_real = x->n_lookalike = 0; x->out[0] = 0; x->ref[0] = 0;
    fmt_render(c, x->fmt, sizeof x->fmt);
    x->n_real = fmt_count_real_n(c);
    for (i = 0; i < c->nd; i++) if (c->d[i].conv == 'N') x->n_lookalike++;
    { static int cur = -1; if (cur != c->locale) { setlocale(LC_ALL, c->locale ? "C.utf8" : "C"); cur = c->locale; } }
    memset(g_blocks, 0xA5, sizeof g_blocks);
    ar_reset();

    /* variable arguments */
#define PUSH(T, field, v) do { av[n].field = (v); types[n] = &(T); vals[n] = &av[n]; n++; } while (0)
    /* fixed arguments are filled in later; reserve slots */
    if (e->sink == SK_BUF && e->kind == FK_PRINTF) nfixed = 4;
    else if (e->sink == SK_BUF) nfixed = 2;
    else if (e->sink == SK_STREAM) nfixed = 2;
    else nfixed = 1;
    n = nfixed;
    g_nargblk = 0;
    for (i = 0; i < c->nd; i++) {
        const fdir_t *d = &c->d[i];
        if (d->conv == '%' || d->conv == 'N' || d->conv == '[') continue;
        if (e->kind == FK_SCANF) {
            if (d->suppress && !(c->argmode & 2)) continue;
            blk_is_n[nblk] = d->conv == 'n';
            PUSH(ffi_type_pointer, p, g_blocks[nblk]); nblk++;
            continue;
        }
        if (d->width == -2 && !(c->argmode & 2)) PUSH(ffi_type_sint, i, d->wstar);
        if (d->prec == -2 && !(c->argmode & 2)) PUSH(ffi_type_sint, i, d->pstar);
        switch (d->conv) {
        case 'd': case 'i': case 'u': case 'x': case 'X': case 'o': {
            long long v = IVALS[d->vsel % NIV];
            switch (d->len) {
            case LEN_L: case LEN_Z: case LEN_T: case LEN_J: case LEN_BIGZ: PUSH(ffi_type_slong, l, (long)v); break;
            case LEN_LL: case LEN_BIGL: case LEN_Q: PUSH(ffi_type_sint64, ll, v); break;
            default: PUSH(ffi_type_sint, i, (int)v); break;
            }
            break;
        }
        case 'c': PUSH(ffi_type_sint, i, CVALS[d->vsel % NCV]); break;
        case 'C': PUSH(ffi_type_uint, u, WCVALS[d->vsel % NWCV]); break;
        case 's': {
            const char *sv = SVALS[d->vsel % NSV];
            if (c->argmode & 1) {
                size_t L = strlen(sv), k2;
                unsigned char *ab;
                int pr = d->prec == -2 ? d->pstar : d->prec;
                /* wide entries hand %s to libc's vswprintf, whose mbsrtowcs step measures strnlen(arg, N*MB_CUR_MAX):
                   that read is libc's, not safeclib's, so those get a terminated argument */
                if (e->wide) pr = -1;
                if (pr >= 0 && d->prec != -1) { /* at most pr bytes may be read: give exactly pr, unterminated */
                    ab = ar_alloc(guard, PL_END, (size_t)pr, 0);
                    for (k2 = 0; k2 < (size_t)pr; k2++) ab[k2] = k2 < L ? (unsigned char)sv[k2] : 'q';
                } else { ab = ar_alloc(guard, PL_END, L + 1, 0); memcpy(ab, sv, L + 1); }
                g_argblk[g_nargblk].end = (uintptr_t)ab + ((pr >= 0 && d->prec != -1) ? (size_t)pr : L + 1); g_argblk[g_nargblk++].dir = i;
                PUSH(ffi_type_pointer, p, ab);
            } else PUSH(ffi_type_pointer, p, (void *)sv);
            break;
        }
        case 'S': {
            const wchar_t *wv = WSVALS[d->vsel % NWSV];
            if (c->argmode & 1) {
                size_t L = wcslen(wv), k2;
                wchar_t *ab;
                int pr = d->prec == -2 ? d->pstar : d->prec;
                if (pr >= 0 && d->prec != -1) {
                    ab = (wchar_t *)(void *)ar_alloc(guard, PL_END, (size_t)pr * sizeof(wchar_t), 0);
                    for (k2 = 0; k2 < (size_t)pr; k2++) ab[k2] = k2 < L ? wv[k2] : L'q';
                } else { ab = (wchar_t *)(void *)ar_alloc(guard, PL_END, (L + 1) * sizeof(wchar_t), 0); memcpy(ab, wv, (L + 1) * sizeof(wchar_t)); }
                g_argblk[g_nargblk].end = (uintptr_t)ab + sizeof(wchar_t) * ((pr >= 0 && d->prec != -1) ? (size_t)pr : L + 1); g_argblk[g_nargblk++].dir = i;
                PUSH(ffi_type_pointer, p, ab);
            } else PUSH(ffi_type_pointer, p, (void *)wv);
            break;
        }
        case 'p': PUSH(ffi_type_pointer, p, (void *)(uintptr_t)(0x1000 * (d->vsel % 7))); break;
        case 'n': blk_is_n[nblk] = 1; PUSH(ffi_type_pointer, p, g_blocks[nblk]); nblk++; break;
        default: /* floating */
            if (d->len == LEN_BIGL) PUSH(ffi_type_longdouble, ld, ldval(d->vsel));
            else PUSH(ffi_type_double, d, dval(d->vsel));
            break;
        }
    }
    x->nsent = nblk;

    /* reference rendering by libc (narrow printf only) */
    if (want_ref && e->kind == FK_PRINTF && !e->wide) {
        ffi_cif rcif;
        ffi_type *rt[4 + 3 * FMAXD];
        void *rv[4 + 3 * FMAXD];
        aval_t r0, r1, r2;
        int m = 0, q;
        ffi_arg rr = 0;
        r0.p = x->ref; r1.z = sizeof x->ref; r2.p = x->fmt;
        rt[m] = &ffi_type_pointer; rv[m++] = &r0;
        rt[m] = &ffi_type_ulong; rv[m++] = &r1;
        rt[m] = &ffi_type_pointer; rv[m++] = &r2;
        for (q = nfixed; q < n; q++) { rt[m] = types[q]; rv[m++] = vals[q]; }
        if (x->n_real == 0 && ffi_prep_cif_var(&rcif, FFI_DEFAULT_ABI, 3, (unsigned)m, &ffi_type_sint, rt) == FFI_OK) {
            ffi_call(&rcif, FFI_FN(snprintf), &rr, rv);
            x->ref_len = (int)rr;
        }
    }

    /* fixed arguments */
    if (e->wide) widen(x->fmt, wfmt, FMT_MAXLEN);
    if (e->kind == FK_PRINTF && e->sink == SK_BUF) {
        size_t w = e->wide ? 4 : 1;
        size_t need = (x->ref_len >= 0) ? (size_t)x->ref_len + 1 : 64;
        long dm = c->dmax_rel == -100 ? 1 : (long)need + c->dmax_rel;
        if (!want_ref || x->ref_len < 0) dm = 64 + (c->dmax_rel > 0 ? c->dmax_rel : 0);
        if (dm < 1) dm = 1;
        if ((size_t)dm * w > AR_DATA - 64) dm = (long)((AR_DATA - 64) / w);
        x->dmax = (size_t)dm;
        x->dest_bytes = x->dmax * w;
        x->dest = ar_alloc(guard, PL_END, x->dest_bytes, 0);
        for (i = 0; i < (int)x->dest_bytes; i++) x->dest[i] = (unsigned char)(c->dirty ? 0x81 + (i % 61) : 0x55);
        if (e->wide) for (i = 0; i < (int)x->dmax; i++) ((uint32_t *)(void *)x->dest)[i] = 0x81 + (unsigned)(i % 61);
        av[0].p = x->dest; types[0] = &ffi_type_pointer; vals[0] = &av[0];
        av[1].z = x->dmax; types[1] = &ffi_type_ulong; vals[1] = &av[1];
        av[2].z = c->dbos ? x->dest_bytes : BOS_UNKNOWN; types[2] = &ffi_type_ulong; vals[2] = &av[2];
        av[3].p = e->wide ? (void *)wfmt : (void *)x->fmt; types[3] = &ffi_type_pointer; vals[3] = &av[3];
    } else if (e->kind == FK_SCANF && e->sink == SK_BUF) {
        if (e->wide) { widen(SCAN_IN, winbuf, 64); av[0].p = winbuf; } else { strcpy(inbuf, SCAN_IN); av[0].p = inbuf; }
        types[0] = &ffi_type_pointer; vals[0] = &av[0];
        av[1].p = e->wide ? (void *)wfmt : (void *)x->fmt; types[1] = &ffi_type_pointer; vals[1] = &av[1];
    } else {
        /* stream / std sinks */
        if (e->kind == FK_PRINTF) stream = sink_file(e->wide);
        else { strcpy(inbuf, SCAN_IN); stream = fmemopen(inbuf, strlen(inbuf), "r"); }
        if (e->sink == SK_STREAM) {
            av[0].p = stream; types[0] = &ffi_type_pointer; vals[0] = &av[0];
            av[1].p = e->wide ? (void *)wfmt : (void *)x->fmt; types[1] = &ffi_type_pointer; vals[1] = &av[1];
        } else {
            if (e->kind == FK_PRINTF) { saved = stdout; stdout = stream; } else { saved = stdin; stdin = stream; }
            av[0].p = e->wide ? (void *)wfmt : (void *)x->fmt; types[0] = &ffi_type_pointer; vals[0] = &av[0];
        }
    }
    if (ffi_prep_cif_var(&cif, FFI_DEFAULT_ABI, (unsigned)nfixed, (unsigned)n, &ffi_type_sint, types) != FFI_OK) { x->ret = -99999; goto cleanup; }
    set_str_constraint_handler_s(fh);
    set_mem_constraint_handler_s(fh);
    g_fx = x;
    errno = 0;
    AR_GUARDED(ffi_call(&cif, FFI_FN(ent_fn(c->ent)), &rc, vals));
    g_fx = NULL;
    x->ret = (int)rc;
    x->faulted = g_ar_fault.faulted; x->fault_write = g_ar_fault.is_write; x->sig = g_ar_fault.sig;
    x->fault_dir = -1;
    if (x->faulted) { int q; for (q = 0; q < g_nargblk; q++) if (g_ar_fault.addr >= g_argblk[q].end && g_ar_fault.addr < g_argblk[q].end + 4096) x->fault_dir = g_argblk[q].dir; }
    for (i = 0; i < nblk; i++) {
        int j;
        if (!blk_is_n[i]) continue;
        for (j = 0; j < 16; j++) if (g_blocks[i][j] != 0xA5) x->sent_changed = 1;
    }
    {
        unsigned char *bad = ar_check_canaries();
        if (bad) x->canary_bad = x->dest ? (long)(bad - x->dest) : 1;
    }
cleanup:
    if (saved) { if (e->kind == FK_PRINTF) stdout = saved; else stdin = saved; }
    if (stream && e->kind == FK_PRINTF) {
        if (x->faulted) { g_sink[e->wide] = NULL; /* stream lock state unknown: abandon it */ }
        else {
            long sz;
            fflush(stream);
            sz = lseek(fileno(stream), 0, SEEK_END);
            if (sz < 0) sz = 0;
            x->out_len = (size_t)sz < sizeof x->out - 1 ? (size_t)sz : sizeof x->out - 1;
            if (pread(fileno(stream), x->out, x->out_len, 0) < 0) x->out_len = 0;
            x->out[x->out_len] = 0;
        }
    } else if (stream && !x->faulted) fclose(stream);
    (void)msptr; (void)mssize;
    if (e->kind == FK_PRINTF && e->sink == SK_BUF && x->dest && !x->faulted) {
        size_t k2 = x->dest_bytes < sizeof x->out ? x->dest_bytes : sizeof x->out;
        memcpy(x->out, x->dest, k2);
        x->out_len = k2;
    }
}

uint64_t fmt_hash(const fcase_t *c) {
    fcase_t t = *c;
    t.seed = 0;
    return cs_hash_bytes(CS_HASH_INIT, &t, sizeof t);
}

void fmt_describe(const void *k, char *buf, size_t n) {
    const fcase_t *c = k;
    char f[512];
    int i, p;
    fmt_render(c, f, sizeof f);
    p = snprintf(buf, n, "%s(fmt=\"%s\"", g_fent[c->ent % NFENT].name, f);
    for (i = 0; i < c->nd && p < (int)n; i++) {
        const fdir_t *d = &c->d[i];
        if (d->conv == '%' || d->conv == 'N') continue;
        p += snprintf(buf + p, n - (size_t)p, ", %c:v%u", d->conv, d->vsel);
        if (d->width == -2 && p < (int)n) p += snprintf(buf + p, n - (size_t)p, "(w*=%d)", d->wstar);
        if (d->prec == -2 && p < (int)n) p += snprintf(buf + p, n - (size_t)p, "(p*=%d)", d->pstar);
    }
    if (p < (int)n) snprintf(buf + p, n - (size_t)p, "; dmax_rel=%d bos=%s locale=%s)", c->dmax_rel, c->dbos ? "known" : "unknown", c->locale ? "C.utf8" : "C");
}

void fmt_gen_dir(cs_t *cs, fdir_t *d, int kind, int allow_n, int floats, int wide_args) {
    static const char iconv[] = {'d', 'i', 'u', 'x', 'X', 'o'};
    static const char fconv[] = {'f', 'F', 'e', 'E', 'g', 'G'};
    long k = cs_range(cs, 0, 19);
    memset(d, 0, sizeof *d);
    d->width = -1; d->prec = -1;
    d->lit = (uint8_t)cs_range(cs, 0, NLITS - 1);
    d->vsel = (uint8_t)cs_range(cs, 0, 63);
    if (kind == FK_SCANF) {
        if (allow_n && k < 7) d->conv = 'n';
        else if (k < 9) d->conv = '%';
        else if (allow_n && k < 10) d->conv = 'N';
        else d->conv = (uint8_t)iconv[cs_range(cs, 0, 5)];
        d->len = (uint8_t)cs_range(cs, 0, 7);
        if (d->conv == 'n' && cs_range(cs, 0, 7) == 0) d->len = (uint8_t)(cs_range(cs, 0, 1) ? LEN_BIGZ : LEN_Q);
        if (cs_range(cs, 0, 3) == 0) d->width = (int16_t)cs_range(cs, 1, 5);
        if (d->conv != 'n' && d->conv != '%' && d->conv != 'N' && cs_range(cs, 0, 7) == 0) d->suppress = 1;
        if (d->conv == 'n' || d->conv == 'N') d->esc = (uint8_t)cs_range(cs, 0, 2);
        if (d->conv == 'n' && cs_range(cs, 0, 7) == 0) d->flags |= cs_range(cs, 0, 1) ? 32 : 64;
        return;
    }
    if (allow_n && k < 7) d->conv = 'n';
    else if (k < 8) d->conv = '%';
    else if (allow_n && k < 9) d->conv = cs_range(cs, 0, 2) ? 'N' : '[';
    else if (k < 13) d->conv = (uint8_t)iconv[cs_range(cs, 0, 5)];
    else if (k < 15) d->conv = 's';
    else if (k < 16) d->conv = 'c';
    else if (k < 17 && wide_args) d->conv = cs_range(cs, 0, 1) ? 'C' : 'S';
    else if (floats) d->conv = (uint8_t)fconv[cs_range(cs, 0, 5)];
    else d->conv = (uint8_t)iconv[cs_range(cs, 0, 5)];
    if (d->conv == 'n' || d->conv == 'N') d->esc = (uint8_t)cs_range(cs, 0, 2);
    if (d->conv == '%' || d->conv == 'N' || d->conv == '[') return;
    d->flags = (uint8_t)cs_range(cs, 0, 31);
    if (cs_range(cs, 0, 2) == 0) d->flags = 0;
    {
        long w = cs_range(cs, 0, 9);
        if (w < 4) d->width = -1;
        else if (w < 7) d->width = (int16_t)cs_range(cs, 1, 40);
        else if (w < 8) d->width = (int16_t)cs_range(cs, 100, 300); /* beyond internal staging buffers (64, 128, 256 characters) */
        else { d->width = -2; d->wstar = (int16_t)cs_range(cs, -12, 40); }
        w = cs_range(cs, 0, 9);
        if (w < 5) d->prec = -1;
        else if (w < 7) d->prec = (int16_t)cs_range(cs, 0, 40);
        else if (w < 8) { d->prec = (int16_t)cs_range(cs, 100, 260); if (cs_range(cs, 0, 5) == 0 && d->conv == 's') d->prec = (int16_t)cs_range(cs, 4090, 5000); /* around and above RSIZE_MAX_STR: a precision is a bound whatever its size */ }
        else { d->prec = -2; d->pstar = (int16_t)cs_range(cs, -3, 40); }
    }
    if (strchr("diuxXon", d->conv)) { d->len = (uint8_t)cs_range(cs, 0, 7); { long q = cs_range(cs, 0, 15); if (q == 0) d->len = LEN_BIGL; /* "%Ld": invalid in ISO C, a glibc synonym of ll; the library rejects it */ else if (q == 1) d->len = LEN_BIGZ; else if (q == 2) d->len = LEN_Q; /* two more length modifiers glibc accepts */ } }
    else if (strchr("fFeEgG", d->conv)) d->len = cs_range(cs, 0, 3) == 0 ? LEN_BIGL : LEN_NONE;
    if (d->conv == 'c' || d->conv == 'C') { d->prec = -1; d->flags &= 1; }
    if (allow_n && d->conv == 'n' && cs_range(cs, 0, 7) == 0) d->flags |= cs_range(cs, 0, 1) ? 32 : 64;
    if (d->conv == 's' || d->conv == 'S') d->flags &= 1;
}
