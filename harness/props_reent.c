/* props_reent.c -- C12 (oracle A, static footprint): for every single call the library's own
 * static storage (.data/.bss of libsafec.so) must be bit-identical before and after.
 * Requires the "shared" library build (the harness is then linked against libsafec.so). */
#define _GNU_SOURCE
#include "generic.h"
#include "fmt.h"
#include <link.h>
#include <elf.h>
#include <fcntl.h>
#include <sys/stat.h>
#include <time.h>
#include <locale.h>

typedef struct rcase {
    int kind;            /* 0 generic row, 1 formatted output, 2 special */
    int sp, a, b;        /* special call selector and parameters */
    gcase_t g;
    fcase_t f;
} rcase_t;

static struct { uintptr_t start; size_t len; } seg[8];
static int nseg;
static uintptr_t lib_base, relro_start, relro_end;
static unsigned char *snap;
static size_t snap_len;
static char lib_path[512];
typedef struct { uintptr_t value; size_t size; char name[48]; } sym_t;
static sym_t *syms;
static int nsyms;

static int phdr_cb(struct dl_phdr_info *info, size_t sz, void *d) {
    int i;
    (void)sz; (void)d;
    if (!info->dlpi_name || !strstr(info->dlpi_name, "libsafec")) return 0;
    lib_base = info->dlpi_addr;
    snprintf(lib_path, sizeof lib_path, "%s", info->dlpi_name);
    for (i = 0; i < info->dlpi_phnum; i++) {
        const ElfW(Phdr) *p = &info->dlpi_phdr[i];
        if (p->p_type == PT_GNU_RELRO) { relro_start = lib_base + p->p_vaddr; relro_end = relro_start + p->p_memsz; }
    }
    for (i = 0; i < info->dlpi_phnum && nseg < 8; i++) {
        const ElfW(Phdr) *p = &info->dlpi_phdr[i];
        if (p->p_type == PT_LOAD && (p->p_flags & PF_W)) { seg[nseg].start = lib_base + p->p_vaddr; seg[nseg].len = p->p_memsz; nseg++; }
    }
    return 1;
}

static void load_symbols(void) {
    int fd = open(lib_path, O_RDONLY);
    struct stat st;
    unsigned char *m;
    ElfW(Ehdr) *eh;
    ElfW(Shdr) *sh;
    int i;
    if (fd < 0 || fstat(fd, &st) < 0) return;
    m = mmap(NULL, (size_t)st.st_size, PROT_READ, MAP_PRIVATE, fd, 0);
    close(fd);
    if (m == MAP_FAILED) return;
    eh = (ElfW(Ehdr) *)m;
    sh = (ElfW(Shdr) *)(m + eh->e_shoff);
    for (i = 0; i < eh->e_shnum; i++) {
        if (sh[i].sh_type == SHT_SYMTAB) {
            ElfW(Sym) *st0 = (ElfW(Sym) *)(m + sh[i].sh_offset);
            size_t n = sh[i].sh_size / sizeof(ElfW(Sym)), k;
            const char *str = (const char *)(m + sh[sh[i].sh_link].sh_offset);
            syms = calloc(n + 1, sizeof(sym_t));
            for (k = 0; k < n; k++)
                if (ELF64_ST_TYPE(st0[k].st_info) == STT_OBJECT && st0[k].st_size) {
                    syms[nsyms].value = st0[k].st_value; syms[nsyms].size = st0[k].st_size;
                    snprintf(syms[nsyms].name, sizeof syms[0].name, "%s", str + st0[k].st_name);
                    nsyms++;
                }
        }
    }
}
static const char *sym_of(uintptr_t addr, long *off) {
    int i;
    uintptr_t v = addr - lib_base;
    for (i = 0; i < nsyms; i++) if (v >= syms[i].value && v < syms[i].value + syms[i].size) { *off = (long)(v - syms[i].value); return syms[i].name; }
    *off = (long)v;
    return "unnamed-static";
}

static void fp_init(const runcfg_t *cfg) {
    int i;
    (void)cfg;
    dl_iterate_phdr(phdr_cb, NULL);
    for (i = 0; i < nseg; i++) snap_len += seg[i].len;
    if (snap_len) snap = malloc(snap_len);
    if (lib_path[0]) load_symbols();
    gh_install();
    setenv("VERIF_ENV_PROBE", "some value for getenv_s", 1);
}
static void take_snapshot(void) {
    size_t o = 0;
    int i;
    for (i = 0; i < nseg; i++) { memcpy(snap + o, (void *)seg[i].start, seg[i].len); o += seg[i].len; }
}
/* returns address of the first changed byte, 0 if none */
static uintptr_t diff_snapshot(size_t *count) {
    size_t o = 0, k, n = 0;
    uintptr_t first = 0;
    int i;
    for (i = 0; i < nseg; i++) {
        const unsigned char *p = (const unsigned char *)seg[i].start;
        if (memcmp(snap + o, p, seg[i].len) != 0)
            for (k = 0; k < seg[i].len; k++) {
                uintptr_t a = seg[i].start + k;
                if (a >= relro_start && a < relro_end) continue;
                if (snap[o + k] != p[k]) {
                    long so = 0;
                    const char *sn = sym_of(a, &so);
                    if (!strcmp(sn, "str_handler") || !strcmp(sn, "mem_handler")) continue; /* the registration itself: allowed mutable state */
                    if (!first) first = a;
                    n++;
                }
            }
        o += seg[i].len;
    }
    *count = n;
    return first;
}

enum { SP_QSORT, SP_ASCTIME, SP_CTIME, SP_GMTIME, SP_LOCALTIME, SP_STRERROR, SP_GETENV, SP_SWPRINTF_NOSPC, SP_WCSNORM, SP_WCSFC, SP_BSEARCH, SP_TMPFILE, SP_N };
static const char *spname[] = {"qsort_s", "asctime_s", "ctime_s", "gmtime_s", "localtime_s", "strerror_s", "getenv_s", "swprintf_s", "wcsnorm_s", "wcsfc_s", "bsearch_s", "tmpfile_s"};

static int gen_c12(cs_t *cs, void *k, const runcfg_t *cfg) {
    rcase_t *c = k;
    runcfg_t sub = *cfg;
    long kd = cs_range(cs, 0, 9);
    sub.phase = 1;
    if (cfg->phase == 0) {
        /* small lattice over the special calls and their size thresholds */
        c->kind = 2;
        c->sp = (int)cs_range(cs, 0, SP_N - 1);
        c->a = (int)cs_range(cs, 0, 7);
        c->b = (int)cs_range(cs, 0, 3);
        return 1;
    }
    if (kd < 4) { c->kind = 0; if (!gc_gen(cs, &c->g, &sub, 5)) return 0; c->g.guard = G_NA; }
    else if (kd < 7) {
        int i;
        c->kind = 1;
        c->f.ent = (int)cs_range(cs, 0, 15);
        c->f.nd = (int)cs_range(cs, 1, 3);
        c->f.locale = 0;
        for (i = 0; i < c->f.nd; i++) fmt_gen_dir(cs, &c->f.d[i], FK_PRINTF, 0, 1, 0);
        c->f.tail_lit = (uint8_t)cs_range(cs, 0, 5);
        c->f.dmax_rel = (int16_t)cs_range(cs, -3, 3);
        c->f.dbos = (uint8_t)cs_range(cs, 0, 1);
        c->f.dirty = 1;
    } else { c->kind = 2; c->sp = (int)cs_range(cs, 0, SP_N - 1); c->a = (int)cs_range(cs, 0, 63); c->b = (int)cs_range(cs, 0, 15); }
    return 1;
}

static const char *case_fn(const rcase_t *c) {
    if (c->kind == 0) return g_rows[c->g.row].name;
    if (c->kind == 1) return g_fent[c->f.ent % NFENT].name;
    return spname[c->sp % SP_N];
}
static void c12_describe(const void *k, char *buf, size_t n) {
    const rcase_t *c = k;
    if (c->kind == 0) gc_describe(&c->g, buf, n);
    else if (c->kind == 1) fmt_describe(&c->f, buf, n);
    else snprintf(buf, n, "%s(special a=%d b=%d)", spname[c->sp % SP_N], c->a, c->b);
}

static int cmp_int(const void *x, const void *y, void *ctx) { (void)ctx; return memcmp(x, y, 2); }
static gexec_t GX;
static fres_t RFX;

static void run_special(const rcase_t *c) {
    static unsigned char arr[16384];
    static char cbuf[4096];
    static wchar_t wb[1200], ws[700];
    struct tm tm, tmo;
    time_t t;
    size_t i, len = 0;
    memset(&tm, 0, sizeof tm);
    switch (c->sp % SP_N) {
    case SP_QSORT: case SP_BSEARCH: {
        static const size_t sizes[] = {2, 4, 8, 31, 255, 256, 257, 300};
        size_t sz = sizes[c->a & 7], nm = 2 + (size_t)(c->b * 5);
        for (i = 0; i < sz * nm; i++) arr[i] = (unsigned char)(i * 131 + c->a);
        if (c->sp % SP_N == SP_QSORT) _qsort_s_chk(arr, nm, sz, cmp_int, NULL, BOS_UNKNOWN);
        else _bsearch_s_chk(arr, arr, nm, sz, cmp_int, NULL, BOS_UNKNOWN);
        break;
    }
    case SP_ASCTIME: {
        static const size_t dm[] = {26, 27, 40, 119, 120, 121, 200, 25};
        tm.tm_year = 100 + c->b; tm.tm_mon = c->b % 12; tm.tm_mday = 1 + c->b; tm.tm_hour = 5; tm.tm_wday = 2;
        _asctime_s_chk(cbuf, dm[c->a & 7], &tm, BOS_UNKNOWN);
        break;
    }
    case SP_CTIME: {
        static const size_t dm[] = {26, 27, 40, 119, 120, 121, 200, 25};
        t = (time_t)(1000000000 + c->b * 86400);
        _ctime_s_chk(cbuf, dm[c->a & 7], &t, BOS_UNKNOWN);
        break;
    }
    case SP_GMTIME: t = (time_t)(c->a * 100000000L); gmtime_s(&t, &tmo); break;
    case SP_LOCALTIME: t = (time_t)(c->a * 100000000L); localtime_s(&t, &tmo); break;
    case SP_STRERROR: _strerror_s_chk(cbuf, 10 + (size_t)c->a * 3, 395 + c->b, BOS_UNKNOWN); break;
    case SP_GETENV: _getenv_s_chk(&len, cbuf, 8 + (size_t)c->a, (c->b & 1) ? "VERIF_ENV_PROBE" : "VERIF_NOT_SET_XX", BOS_UNKNOWN); break;
    case SP_SWPRINTF_NOSPC: {
        size_t dmax = (c->a & 1) ? 600 : 20 + (size_t)c->b;
        for (i = 0; i < 650; i++) ws[i] = L'a' + (wchar_t)(i % 26);
        ws[650] = 0;
        if (c->a & 2) swprintf_s(wb, dmax, L"%ls", ws); else snwprintf_s(wb, dmax, L"%ls-%d", ws, c->b);
        break;
    }
    case SP_WCSNORM: {
        size_t n = 0;
        rsize_t l2 = 0;
        ws[n++] = L'a';
        for (i = 0; i < (size_t)(c->a % 20); i++) ws[n++] = (i & 1) ? 0x301 : 0x323;
        ws[n++] = 0xE9; ws[n] = 0;
        wcsnorm_s(wb, 1000, ws, (c->b & 1) ? WCSNORM_NFC : WCSNORM_NFD, &l2);
        break;
    }
    case SP_WCSFC: {
        rsize_t l2 = 0;
        ws[0] = L'A'; ws[1] = 0xDF; ws[2] = 0x130; ws[3] = (wchar_t)(0x3a3 + c->a); ws[4] = 0;
        wcsfc_s(wb, 64, ws, &l2);
        break;
    }
    default: { /* tmpfile_s */
        FILE *f = NULL;
        if (tmpfile_s(&f) == 0 && f) fclose(f);
        break;
    }
    }
}

static void exec_c12(const void *k, res_t *r, const runcfg_t *cfg) {
    const rcase_t *c = k;
    uintptr_t first;
    size_t nchanged = 0;
    (void)cfg;
    r->hash = cs_hash_bytes(CS_HASH_INIT, &c->kind, sizeof c->kind);
    if (c->kind == 0) r->hash = cs_hash_u64(r->hash, gc_hash(&c->g));
    else if (c->kind == 1) r->hash = cs_hash_u64(r->hash, fmt_hash(&c->f));
    else { r->hash = cs_hash_u64(r->hash, (uint64_t)c->sp * 100003u + (uint64_t)c->a * 101u + (uint64_t)c->b); }
    if (!nseg) {
        RES_VIOL(r, "C12:%s:BROKEN-no-libsafec.so-segment", "harness");
        RES_DETAIL(r, "the harness is not linked against libsafec.so (needs the shared config)%s", "");
        return;
    }
    res_label(r, c->kind == 0 ? "kind:generic-row" : (c->kind == 1 ? "kind:formatted-output" : "kind:special"));
    gh_install();
    take_snapshot();
    if (c->kind == 0) { gc_run(&c->g, &GX); if (GX.faulted) { res_label(r, "foreign-fault"); if (GX.sig != SIGSEGV) r->fragile = 1; return; } }
    else if (c->kind == 1) { fmt_run(&c->f, &RFX, 0, G_NA); gh_install(); if (RFX.faulted) { res_label(r, "foreign-fault"); r->fragile = 1; return; } }
    else { AR_GUARDED(run_special(c)); if (g_ar_fault.faulted) { res_label(r, "foreign-fault"); r->fragile = 1; return; } }
    first = diff_snapshot(&nchanged);
    r->nontrivial = 1;
    if (first) {
        long off = 0;
        const char *s = sym_of(first, &off);
        RES_VIOL(r, "C12:%s:static-storage-written:%s", case_fn(c), s);
        RES_DETAIL(r, "%zu byte(s) of the library's static storage changed during the call, first at %s+%ld", nchanged, s, off);
    }
}

const module_t mod_C12 = {"C12", sizeof(rcase_t), 1, {300000, 3000000}, fp_init, gen_c12, exec_c12, c12_describe,
                          "every generated call (generic rows with valid and invalid arguments, 16 printf entry points incl. floating / long double / hex-float directives, and qsort_s / bsearch_s / asctime_s / ctime_s / gmtime_s / localtime_s / strerror_s / getenv_s / wide printf no-space / wcsnorm_s / wcsfc_s / tmpfile_s around their size thresholds) "
                          "is bracketed by a snapshot of the writable PT_LOAD segment of libsafec.so (.data/.bss, RELRO excluded); non-trivial = the call reached the library; distinct by decoded call"};
