/*------------------------------------------------------------------
 * safe_config.h -- Safe C Lib configs
 * include/safe_config.h.  Generated from safe_config.h.in by configure.
 *
 * August 2017, Reini Urban
 * September 2022, Reini Urban
 *
 * Copyright (c) 2017,2022 by Reini Urban
 * All rights reserved.
 *
 * Permission is hereby granted, free of charge, to any person
 * obtaining a copy of this software and associated documentation
 * files (the "Software"), to deal in the Software without
 * restriction, including without limitation the rights to use,
 * copy, modify, merge, publish, distribute, sublicense, and/or
 * sell copies of the Software, and to permit persons to whom the
 * Software is furnished to do so, subject to the following
 * conditions:
 *
 * The above copyright notice and this permission notice shall be
 * included in all copies or substantial portions of the Software.
 *
 * THE SOFTWARE IS PROVIDED "AS IS", WITHOUT WARRANTY OF ANY KIND,
 * EXPRESS OR IMPLIED, INCLUDING BUT NOT LIMITED TO THE WARRANTIES
 * OF MERCHANTABILITY, FITNESS FOR A PARTICULAR PURPOSE AND
 * NONINFRINGEMENT.  IN NO EVENT SHALL THE AUTHORS OR COPYRIGHT
 * HOLDERS BE LIABLE FOR ANY CLAIM, DAMAGES OR OTHER LIABILITY,
 * WHETHER IN AN ACTION OF CONTRACT, TORT OR OTHERWISE, ARISING
 * FROM, OUT OF OR IN CONNECTION WITH THE SOFTWARE OR THE USE OR
 * OTHER DEALINGS IN THE SOFTWARE.
 *------------------------------------------------------------------
 */

#ifndef __SAFE_LIB_CONFIG_H__
#define __SAFE_LIB_CONFIG_H__

#ifdef __cplusplus
extern "C" {
#endif

#ifdef __MINGW32__
# if defined __MINGW64_VERSION_MAJOR && defined __MINGW64_VERSION_MINOR
#   define HAVE_MINGW64  /* mingw-w64 (either 32 or 64bit) */
# else
#   define HAVE_MINGW32  /* old mingw */
# endif
#endif

/*
 * Safe Lib specific configuration values.
 */

/*
 * We depart from the C11 standard and allow memory and string
 * operations to have different max sizes. See the respective
 * safe_mem_lib.h or safe_str_lib.h files.
 */

#ifndef RSIZE_MAX_MEM
/* maximum buffer length. default: 256UL << 20 (256MB) */
#define RSIZE_MAX_MEM (256UL << 20)  /* 256MB */
#endif

#ifndef RSIZE_MAX_STR
/* maximum string length. default: 4UL << 10 (4KB) */
#define RSIZE_MAX_STR (4UL << 10) /* 4KB */
#endif

/* Null out the remaining part of a string buffer if it is not completely used */
#define SAFECLIB_STR_NULL_SLACK 1

/* Disable the C11 invoke_safe_{str,mem}_constraint_handler callbacks on
   errors, for performance, smaller size and less flexibility. */
#undef SAFECLIB_DISABLE_CONSTRAINT_HANDLER

/* Define to include some additional unsafe C11 functions:
 * tmpnam_s
 */
#undef SAFECLIB_ENABLE_UNSAFE

/* Define to disable additional functions not defined
 * in the C11 appendix K specification
 */
#undef SAFECLIB_DISABLE_EXTENSIONS

/* Define to disable new multibyte and wchar support.
 * E.g. for the linux kernel
 */
#undef SAFECLIB_DISABLE_WCHAR

/* Define to disable linking with dllimport, only relevant to windows.
 * Defined with a static libsafec.
 */
#undef DISABLE_DLLIMPORT

/*
 * Defined by your compiler when __builtin_object_size() is available
 * for compile-time dmax checks. Override when you use a different compiler.
 * Available since: clang-3.3+, gcc-4.1+.
 */
#ifndef HAVE___BUILTIN_OBJECT_SIZE
# define HAVE___BUILTIN_OBJECT_SIZE 1
#endif

/*
 * Defined by your compiler when __builtin_constant_p() is available
 * for compile-time checks. Override when you use a different compiler.
 * Available since: clang-3.1+, gcc-3.4+.
 */
#ifndef HAVE___BUILTIN_CONSTANT_P
#define HAVE___BUILTIN_CONSTANT_P 1
#endif

/*
 * Defined by --enable-warn-dmax, to enable dmax checks against
 *  __builtin_object_size(dest)
 */
#undef HAVE_WARN_DMAX

/*
 * Defined by --enable-error-dmax to make HAVE_WARN_DMAX fatal
 */
#undef HAVE_ERROR_DMAX

/*
 * Set if libsafec3 was compiled with C99 support.
 */
#define SAFECLIB_HAVE_C99 1

/*
 * Set to a default ignopre or abort default handler.
 */
#undef SAFECLIB_DEFAULT_HANDLER

/*
 * The spec does not call out a maximum len for the strtok src
 * string (the max delims size), so one is defined here.
 */
#ifndef STRTOK_DELIM_MAX_LEN
#define  STRTOK_DELIM_MAX_LEN  16
#endif

#ifdef __cplusplus
}
#endif

#endif /* __SAFE_LIB_CONFIG_H__ */
