/*------------------------------------------------------------------
 * safe_types.h - C99 std types & defs or Linux kernel equivalents
 *
 * March 2007, Bo Berry
 * Modified 2012, Jonathan Toppins <jtoppins@users.sourceforge.net>
 * Modified 2017-2020, Reini Urban <rurban@cpan.org>
 *
 * Copyright (c) 2007-2013 by Cisco Systems, Inc
 * Copyright (c) 2017-2020 by Reini Urban
 * All rights reserved.
 *
 * Permission is hereby granted, free of charge, to any person
 * obtaining a copy of this software and associated documentation
 * files (the "Software"), to deal in the Software without
 * restriction, including without limitation the rights to use,
 * copy, modify, merge, publish, distribute, sublicense, and/or
 * sell copies of the Software, and to permit persons to whom the
 * Software is furnished to do so, subject to the following
 * conditions:
 *
 * The above copyright notice and this permission notice shall be
 * included in all copies or substantial portions of the Software.
 *
 * THE SOFTWARE IS PROVIDED "AS IS", WITHOUT WARRANTY OF ANY KIND,
 * EXPRESS OR IMPLIED, INCLUDING BUT NOT LIMITED TO THE WARRANTIES
 * OF MERCHANTABILITY, FITNESS FOR A PARTICULAR PURPOSE AND
 * NONINFRINGEMENT.  IN NO EVENT SHALL THE AUTHORS OR COPYRIGHT
 * HOLDERS BE LIABLE FOR ANY CLAIM, DAMAGES OR OTHER LIABILITY,
 * WHETHER IN AN ACTION OF CONTRACT, TORT OR OTHERWISE, ARISING
 * FROM, OUT OF OR IN CONNECTION WITH THE SOFTWARE OR THE USE OR
 * OTHER DEALINGS IN THE SOFTWARE.
 *------------------------------------------------------------------
 */

#ifndef __SAFE_TYPES_H__
#define __SAFE_TYPES_H__

#ifdef __cplusplus
extern "C" {
#endif

#ifdef __KERNEL__
/* linux kernel environment */

#include <linux/stddef.h>
#include <linux/types.h>
#include <linux/errno.h>

/* errno_t isn't defined in the kernel */
typedef int errno_t;

#else

#include <stdio.h>
#include <sys/types.h>
#include <inttypes.h>
#include <stdint.h>
#include <errno.h>

typedef int errno_t;

#ifndef __cplusplus
#include <stdbool.h>
#else
# undef restrict
# define restrict __restrict
#endif

#endif /* __KERNEL__ */

/* C11 appendix K types - specific for bounds checking */
#ifndef _RSIZE_T /* PGI */
typedef size_t  rsize_t;
#endif

#ifndef RSIZE_MAX
#define RSIZE_MAX (~(rsize_t)0)  /* leave here for completeness */
#endif

#ifdef __GNUC__ /* also clang and icc */

#define __attribute_format__(type, index, check)                               \
    __attribute__((format(type, index, check)))
/* Stalled since 2008 https://gcc.gnu.org/bugzilla/show_bug.cgi?id=64862
   https://gcc.gnu.org/bugzilla/show_bug.cgi?id=38308 */
#if 0
#define __attribute_format_wprintf(index, check)                               \
    __attribute__((format(__wprintf__, index, check)))
#else
#define __attribute_format_wprintf(index, check)
#endif
#if 0
#define __attribute_format_wscanf(index, check)                                \
    __attribute__((format(__wscanf__, index, check)))
#else
#define __attribute_format_wscanf(index, check)
#endif

#else

#define __attribute_format__(type, index, check)
#define __attribute_format_wprintf(index, check)
#define __attribute_format_wscanf(index, check)

#endif

#ifdef __cplusplus
}
#endif
#endif /* __SAFE_TYPES_H__ */
