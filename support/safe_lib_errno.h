/*------------------------------------------------------------------
 * safe_lib_errno.h -- Safe C Lib Error codes
 * include/safe_lib_errno.h.  Generated from safe_lib_errno.h.in by configure.
 *
 * October 2008, Bo Berry
 * Modified 2012, Jonathan Toppins <jtoppins@users.sourceforge.net>
 * September 2017, Reini Urban
 *
 * Copyright (c) 2008-2013 by Cisco Systems, Inc
 * All rights reserved.
 *
 * Permission is hereby granted, free of charge, to any person
 * obtaining a copy of this software and associated documentation
 * files (the "Software"), to deal in the Software without
 * restriction, including without limitation the rights to use,
 * copy, modify, merge, publish, distribute, sublicense, and/or
 * sell copies of the Software, and to permit persons to whom the
 * Software is furnished to do so, subject to the following
 * conditions:
 *
 * The above copyright notice and this permission notice shall be
 * included in all copies or substantial portions of the Software.
 *
 * THE SOFTWARE IS PROVIDED "AS IS", WITHOUT WARRANTY OF ANY KIND,
 * EXPRESS OR IMPLIED, INCLUDING BUT NOT LIMITED TO THE WARRANTIES
 * OF MERCHANTABILITY, FITNESS FOR A PARTICULAR PURPOSE AND
 * NONINFRINGEMENT.  IN NO EVENT SHALL THE AUTHORS OR COPYRIGHT
 * HOLDERS BE LIABLE FOR ANY CLAIM, DAMAGES OR OTHER LIABILITY,
 * WHETHER IN AN ACTION OF CONTRACT, TORT OR OTHERWISE, ARISING
 * FROM, OUT OF OR IN CONNECTION WITH THE SOFTWARE OR THE USE OR
 * OTHER DEALINGS IN THE SOFTWARE.
 *------------------------------------------------------------------
 */

#ifndef __SAFE_LIB_ERRNO_H__
#define __SAFE_LIB_ERRNO_H__

#ifdef __cplusplus
extern "C" {
#endif

#ifdef __KERNEL__
#include <linux/errno.h>
#else
#include <errno.h>
#endif /* __KERNEL__ */

/*
 * Safe Lib specific errno codes.  These can be added to the errno.h file
 * if desired. strerror/perror does not know about these errors though,
 * and it's messages are not extendable, only strerror_s() does.
 */

#ifndef ESNULLP
#define ESNULLP         ( 400 )       /* null ptr                    */
#endif

#ifndef ESZEROL
#define ESZEROL         ( 401 )       /* length is zero              */
#endif

#ifndef ESLEMIN
#define ESLEMIN         ( 402 )       /* length is below min         */
#endif

#ifndef ESLEMAX
#define ESLEMAX         ( 403 )       /* length exceeds RSIZE_MAX    */
#endif

#ifndef ESOVRLP
#define ESOVRLP         ( 404 )       /* overlap undefined           */
#endif

#ifndef ESEMPTY
#define ESEMPTY         ( 405 )       /* empty string                */
#endif

#ifndef ESNOSPC
#define ESNOSPC         ( 406 )       /* not enough space for s2     */
#endif

#ifndef ESUNTERM
#define ESUNTERM        ( 407 )       /* unterminated string         */
#endif

#ifndef ESNODIFF
#define ESNODIFF        ( 408 )       /* no difference               */
#endif

#ifndef ESNOTFND
#define ESNOTFND        ( 409 )       /* not found                   */
#endif

#ifndef ESLEWRNG
#define ESLEWRNG        ( 410 )       /* wrong size                */
#endif

#ifndef ESLAST
#define ESLAST ESLEWRNG
#endif

/* EOK may or may not be defined in errno.h */
#ifndef EOK
#define EOK             ( 0 )
#endif

#ifdef __cplusplus
}
#endif

#endif /* __SAFE_LIB_ERRNO_H__ */
