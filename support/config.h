/* config.h.  Generated from config.h.in by configure.  */
/* config.h.in.  Generated from configure.ac by autoheader.  */


#ifndef __SAFECLIB_CONF_H__
#define __SAFECLIB_CONF_H__


/* If the compiler supports inline assembly define it to that keyword here */
#define ASM_INLINE __asm__

/* Define to 1 if you have the <altivec.h> header file. */
/* #undef HAVE_ALTIVEC_H */

/* Define to 1 if you have the <arm_acle.h> header file. */
/* #undef HAVE_ARM_ACLE_H */

/* Define to 1 if you have the <arm_neon.h> header file. */
/* #undef HAVE_ARM_NEON_H */

/* Define to 1 if you have the `asctime_r' function. */
#define HAVE_ASCTIME_R 1

/* Define to 1 if you have the `asctime_s' function. */
/* #undef HAVE_ASCTIME_S */

/* Defined to 1 when the compiler supports attribute diagnose_if, since
   clang-5 */
/* #undef HAVE_ATTRIBUTE_DIAGNOSE_IF */

/* Define to 1 if you have the `bcmp' function. */
#define HAVE_BCMP 1

/* Define to 1 if you have the `bsearch_s' function. */
/* #undef HAVE_BSEARCH_S */

/* Defined to 1 when the compiler supports c11 */
#define HAVE_C11 1

/* Define to 1 if you have the `ctime_r' function. */
#define HAVE_CTIME_R 1

/* Define to 1 if you have the `ctime_s' function. */
/* #undef HAVE_CTIME_S */

/* Define to 1 if you have the <ctype.h> header file. */
#define HAVE_CTYPE_H 1

/* Defined to 1 when the compiler is C++ */
/* #undef HAVE_CXX */

/* Define to 1 if you have the <dlfcn.h> header file. */
#define HAVE_DLFCN_H 1

/* Define to 1 if you have the <emmintrin.h> header file. */
#define HAVE_EMMINTRIN_H 1

/* Define to 1 if you have the <errno.h> header file. */
#define HAVE_ERRNO_H 1

/* Define to 1 if you have the `explicit_bzero' function. */
#define HAVE_EXPLICIT_BZERO 1

/* Define to 1 if you have the `explicit_memset' function. */
/* #undef HAVE_EXPLICIT_MEMSET */

/* Define to 1 if you have the `feenableexcept' function. */
/* #undef HAVE_FEENABLEEXCEPT */

/* Define to 1 if you have the <fenv.h> header file. */
#define HAVE_FENV_H 1

/* Define to 1 if you have the `fileno' function. */
#define HAVE_FILENO 1

/* Define to 1 if __float128 is usable. */
#define HAVE_FLOAT128 1

/* Define to 1 if you have the <float.h> header file. */
#define HAVE_FLOAT_H 1

/* Define to 1 if you have the `fopen_s' function. */
/* #undef HAVE_FOPEN_S */

/* Define to 1 if you have the `fprintf_s' function. */
/* #undef HAVE_FPRINTF_S */

/* Define to 1 if you have the `freopen_s' function. */
/* #undef HAVE_FREOPEN_S */

/* Define to 1 if you have the `fscanf_s' function. */
/* #undef HAVE_FSCANF_S */

/* Define to 1 if you have the `ftruncate' function. */
#define HAVE_FTRUNCATE 1

/* Define to 1 if the system has the `format' function attribute */
#define HAVE_FUNC_ATTRIBUTE_FORMAT 1

/* Define to 1 if the system has the `format_wprintf' function attribute */
/* #undef HAVE_FUNC_ATTRIBUTE_FORMAT_WPRINTF */

/* Define to 1 if the system has the `format_wscanf' function attribute */
/* #undef HAVE_FUNC_ATTRIBUTE_FORMAT_WSCANF */

/* Define to 1 if the system has the `malloc' function attribute */
#define HAVE_FUNC_ATTRIBUTE_MALLOC 1

/* Define to 1 if the system has the `returns_nonnull' function attribute */
#define HAVE_FUNC_ATTRIBUTE_RETURNS_NONNULL 1

/* Define to 1 if you have the `fwprintf_s' function. */
/* #undef HAVE_FWPRINTF_S */

/* Define to 1 if you have the `fwscanf_s' function. */
/* #undef HAVE_FWSCANF_S */

/* Define to 1 if you have the `getenv_s' function. */
/* #undef HAVE_GETENV_S */

/* Define to 1 if you have the `gets_s' function. */
/* #undef HAVE_GETS_S */

/* Define to 1 if you have the `gmtime_r' function. */
#define HAVE_GMTIME_R 1

/* Define to 1 if you have the `gmtime_s' function. */
/* #undef HAVE_GMTIME_S */

/* Define to 1 if you have the <intrin.h> header file. */
/* #undef HAVE_INTRIN_H */

/* Define to 1 if you have the <inttypes.h> header file. */
#define HAVE_INTTYPES_H 1

/* Define to 1 if you have the `isinfl' function. */
#define HAVE_ISINFL 1

/* Define to 1 if you have the `iswdigit' function. */
#define HAVE_ISWDIGIT 1

/* Define to 1 if you have the `iswspace' function. */
#define HAVE_ISWSPACE 1

/* Define to 1 if you have the <langinfo.h> header file. */
#define HAVE_LANGINFO_H 1

/* Define to 1 if you have the <limits.h> header file. */
#define HAVE_LIMITS_H 1

/* Define to 1 if you have the `localtime_r' function. */
#define HAVE_LOCALTIME_R 1

/* Define to 1 if you have the `localtime_s' function. */
/* #undef HAVE_LOCALTIME_S */

/* Define to 1 if the system has the type `long double'. */
#define HAVE_LONG_DOUBLE 1

/* Define to 1 if the type `long double' works and has more range or precision
   than `double'. */
#define HAVE_LONG_DOUBLE_WIDER 1

/* Define to 1 if the system has the type `long long'. */
#define HAVE_LONG_LONG 1

/* Define to 1 if you have the <malloc.h> header file. */
#define HAVE_MALLOC_H 1

/* Define to 1 if you have the <math.h> header file. */
#define HAVE_MATH_H 1

/* Define to 1 if you have the <mbarrier.h> header file. */
/* #undef HAVE_MBARRIER_H */

/* Define to 1 if you have the `mbsrtowcs' function. */
#define HAVE_MBSRTOWCS 1

/* Define to 1 if you have the `mbsrtowcs_s' function. */
/* #undef HAVE_MBSRTOWCS_S */

/* Define to 1 if <wchar.h> declares mbstate_t. */
#define HAVE_MBSTATE_T 1

/* Define to 1 if you have the `mbstowcs' function. */
#define HAVE_MBSTOWCS 1

/* Define to 1 if you have the `mbstowcs_s' function. */
/* #undef HAVE_MBSTOWCS_S */

/* Define to 1 if you have the `memccpy' function. */
#define HAVE_MEMCCPY 1

/* Define to 1 if you have the `memccpy_s' function. */
/* #undef HAVE_MEMCCPY_S */

/* Define to 1 if you have the `memchr_s' function. */
/* #undef HAVE_MEMCHR_S */

/* Define to 1 if you have the `memcpy_s' function. */
/* #undef HAVE_MEMCPY_S */

/* Define to 1 if you have the `memmove_s' function. */
/* #undef HAVE_MEMMOVE_S */

/* Define to 1 if you have the <memory.h> header file. */
#define HAVE_MEMORY_H 1

/* Define to 1 if you have the `memrchr' function. */
#define HAVE_MEMRCHR 1

/* Define to 1 if you have the `memrchr_s' function. */
/* #undef HAVE_MEMRCHR_S */

/* Define to 1 if you have the `memset' function. */
#define HAVE_MEMSET 1

/* Define to 1 if you have the `memset_s' function. */
/* #undef HAVE_MEMSET_S */

/* Define to 1 if you have the `memzero_s' function. */
/* #undef HAVE_MEMZERO_S */

/* Define to 1 if you have the <mmintrin.h> header file. */
#define HAVE_MMINTRIN_H 1

/* Define to 1 to enable the compat normalization modes for wcsnorm_s NFKC and
   NFKD */
/* #undef HAVE_NORM_COMPAT */

/* Define to 1 if you have the `printf_s' function. */
/* #undef HAVE_PRINTF_S */

/* Define to 1 if you have the `qsort_s' function. */
/* #undef HAVE_QSORT_S */

/* Define to 1 if you have the `scanf_s' function. */
/* #undef HAVE_SCANF_S */

/* Define to 1 if you have the `secure_getenv' function. */
#define HAVE_SECURE_GETENV 1

/* Define to 1 if you have the `snprintf_s' function. */
/* #undef HAVE_SNPRINTF_S */

/* Define to 1 if you have the `snwprintf_s' function. */
/* #undef HAVE_SNWPRINTF_S */

/* Define to 1 if you have the <spe.h> header file. */
/* #undef HAVE_SPE_H */

/* Define to 1 if you have the `sprintf_s' function. */
/* #undef HAVE_SPRINTF_S */

/* Define to 1 if you have the `sscanf_s' function. */
/* #undef HAVE_SSCANF_S */

/* Define to 1 if stdbool.h conforms to C99. */
#define HAVE_STDBOOL_H 1

/* Define to 1 if you have the <stddef.h> header file. */
#define HAVE_STDDEF_H 1

/* Define to 1 if you have the <stdint.h> header file. */
#define HAVE_STDINT_H 1

/* Define to 1 if you have the <stdio.h> header file. */
#define HAVE_STDIO_H 1

/* Define to 1 if you have the <stdlib.h> header file. */
#define HAVE_STDLIB_H 1

/* Define to 1 if you have the `stpcpy' function. */
#define HAVE_STPCPY 1

/* Define to 1 if you have the `stpcpy_s' function. */
/* #undef HAVE_STPCPY_S */

/* Define to 1 if you have the `stpncpy' function. */
#define HAVE_STPNCPY 1

/* Define to 1 if you have the `stpncpy_s' function. */
/* #undef HAVE_STPNCPY_S */

/* Define to 1 if you have the `strcasecmp' function. */
#define HAVE_STRCASECMP 1

/* Define to 1 if you have the `strcasestr' function. */
#define HAVE_STRCASESTR 1

/* Define to 1 if you have the `strcat_s' function. */
/* #undef HAVE_STRCAT_S */

/* Define to 1 if you have the `strchr_s' function. */
/* #undef HAVE_STRCHR_S */

/* Define to 1 if you have the `strcmp' function. */
#define HAVE_STRCMP 1

/* Define to 1 if you have the `strcpy_s' function. */
/* #undef HAVE_STRCPY_S */

/* Define to 1 if you have the `strcspn' function. */
#define HAVE_STRCSPN 1

/* Define to 1 if you have the `strerror' function. */
#define HAVE_STRERROR 1

/* Define to 1 if you have the `strerror_s' function. */
/* #undef HAVE_STRERROR_S */

/* Define to 1 if you have the <strings.h> header file. */
#define HAVE_STRINGS_H 1

/* Define to 1 if you have the <string.h> header file. */
#define HAVE_STRING_H 1

/* Define to 1 if you have the `strncat_s' function. */
/* #undef HAVE_STRNCAT_S */

/* Define to 1 if you have the `strncpy_s' function. */
/* #undef HAVE_STRNCPY_S */

/* Define to 1 if you have the `strnlen' function. */
#define HAVE_STRNLEN 1

/* Define to 1 if you have the `strnlen_s' function. */
/* #undef HAVE_STRNLEN_S */

/* Define to 1 if you have the `strnset_s' function. */
/* #undef HAVE_STRNSET_S */

/* Define to 1 if you have the `strnstr' function. */
/* #undef HAVE_STRNSTR */

/* Define to 1 if 'strnstr' is usable. */
/* #undef HAVE_STRNSTR_OK */

/* Define to 1 if you have the `strpbrk' function. */
#define HAVE_STRPBRK 1

/* Define to 1 if you have the `strrchr' function. */
#define HAVE_STRRCHR 1

/* Define to 1 if you have the `strrchr_s' function. */
/* #undef HAVE_STRRCHR_S */

/* Define to 1 if you have the `strset_s' function. */
/* #undef HAVE_STRSET_S */

/* Define to 1 if you have the `strspn' function. */
#define HAVE_STRSPN 1

/* Define to 1 if you have the `strspn_s' function. */
/* #undef HAVE_STRSPN_S */

/* Define to 1 if you have the `strstr' function. */
#define HAVE_STRSTR 1

/* Define to 1 if you have the `strstr_s' function. */
/* #undef HAVE_STRSTR_S */

/* Define to 1 if you have the `strtok_s' function. */
/* #undef HAVE_STRTOK_S */

/* Define to 1 if you have the `strzero_s' function. */
/* #undef HAVE_STRZERO_S */

/* Define to 1 if you have the `swprintf_s' function. */
/* #undef HAVE_SWPRINTF_S */

/* Define to 1 if you have the `swscanf_s' function. */
/* #undef HAVE_SWSCANF_S */

/* Define to 1 if you have the <sys/stat.h> header file. */
#define HAVE_SYS_STAT_H 1

/* Define to 1 if you have the <sys/time.h> header file. */
#define HAVE_SYS_TIME_H 1

/* Define to 1 if you have the <sys/types.h> header file. */
#define HAVE_SYS_TYPES_H 1

/* Define to 1 if you have the `timingsafe_bcmp' function. */
/* #undef HAVE_TIMINGSAFE_BCMP */

/* Define to 1 if you have the `timingsafe_memcmp' function. */
/* #undef HAVE_TIMINGSAFE_MEMCMP */

/* Define to 1 if you have the `tmpfile_s' function. */
/* #undef HAVE_TMPFILE_S */

/* Define to 1 if you have the `tmpnam_s' function. */
/* #undef HAVE_TMPNAM_S */

/* Define if struct tm has the tm_gmtoff member. */
#define HAVE_TM_GMTOFF 1

/* Define to 1 if you have the `towctrans' function. */
#define HAVE_TOWCTRANS 1

/* Define to 1 if you have the `towfc_s' function. */
/* #undef HAVE_TOWFC_S */

/* Define to 1 if you have the `towlower' function. */
#define HAVE_TOWLOWER 1

/* Define to 1 if you have the `towupper' function. */
#define HAVE_TOWUPPER 1

/* Define to 1 if 'towupper' is usable. */
/* #undef HAVE_TOWUPPER_OK */

/* Define to 1 if the system has the type `uintptr_t'. */
#define HAVE_UINTPTR_T 1

/* Define to 1 if you have the <unistd.h> header file. */
#define HAVE_UNISTD_H 1

/* Uses -Wuser-defined-warnings */
/* #undef HAVE_USER_DEFINED_WARNINGS */

/* Define to 1 if you have the <valgrind/valgrind.h> header file. */
#define HAVE_VALGRIND_VALGRIND_H 1

/* Define to 1 if you have the `vfprintf_s' function. */
/* #undef HAVE_VFPRINTF_S */

/* Define to 1 if you have the `vfscanf_s' function. */
/* #undef HAVE_VFSCANF_S */

/* Define to 1 if you have the `vfwprintf_s' function. */
/* #undef HAVE_VFWPRINTF_S */

/* Define to 1 if you have the `vfwscanf_s' function. */
/* #undef HAVE_VFWSCANF_S */

/* Define to 1 if you have the `vprintf_s' function. */
/* #undef HAVE_VPRINTF_S */

/* Define to 1 if you have the `vscanf_s' function. */
/* #undef HAVE_VSCANF_S */

/* Define to 1 if you have the `vsnprintf_s' function. */
/* #undef HAVE_VSNPRINTF_S */

/* Define to 1 if you have the `vsnwprintf' function. */
/* #undef HAVE_VSNWPRINTF */

/* Define to 1 if you have the `vsnwprintf_s' function. */
/* #undef HAVE_VSNWPRINTF_S */

/* Define to 1 if you have the `vsprintf_s' function. */
/* #undef HAVE_VSPRINTF_S */

/* Define to 1 if you have the `vsscanf_s' function. */
/* #undef HAVE_VSSCANF_S */

/* Define to 1 if you have the `vswprintf' function. */
#define HAVE_VSWPRINTF 1

/* Define to 1 if you have the `vswprintf_s' function. */
/* #undef HAVE_VSWPRINTF_S */

/* Define to 1 if you have the `vswscanf' function. */
#define HAVE_VSWSCANF 1

/* Define to 1 if you have the `vswscanf_s' function. */
/* #undef HAVE_VSWSCANF_S */

/* Define to 1 if you have the `vwprintf_s' function. */
/* #undef HAVE_VWPRINTF_S */

/* Define to 1 if you have the `vwscanf_s' function. */
/* #undef HAVE_VWSCANF_S */

/* Have -Wrestrict */
#define HAVE_WARNING_RESTRICT 1

/* Define to 1 if you have the <wchar.h> header file. */
#define HAVE_WCHAR_H 1

/* Define to 1 if you have the `wcrtomb_s' function. */
/* #undef HAVE_WCRTOMB_S */

/* Define to 1 if you have the `wcscat_s' function. */
/* #undef HAVE_WCSCAT_S */

/* Define to 1 if you have the `wcscmp' function. */
#define HAVE_WCSCMP 1

/* Define to 1 if you have the `wcscmp_s' function. */
/* #undef HAVE_WCSCMP_S */

/* Define to 1 if you have the `wcscoll_s' function. */
/* #undef HAVE_WCSCOLL_S */

/* Define to 1 if you have the `wcscpy_s' function. */
/* #undef HAVE_WCSCPY_S */

/* Define to 1 if you have the `wcsfc_s' function. */
/* #undef HAVE_WCSFC_S */

/* Define to 1 if you have the `wcsicmp_s' function. */
/* #undef HAVE_WCSICMP_S */

/* Define to 1 if you have the `wcslwr_s' function. */
/* #undef HAVE_WCSLWR_S */

/* Define to 1 if you have the `wcsncat_s' function. */
/* #undef HAVE_WCSNCAT_S */

/* Define to 1 if you have the `wcsncmp_s' function. */
/* #undef HAVE_WCSNCMP_S */

/* Define to 1 if you have the `wcsncpy_s' function. */
/* #undef HAVE_WCSNCPY_S */

/* Define to 1 if you have the `wcsnlen_s' function. */
/* #undef HAVE_WCSNLEN_S */

/* Define to 1 if you have the `wcsnset_s' function. */
/* #undef HAVE_WCSNSET_S */

/* Define to 1 if you have the `wcsrtombs_s' function. */
/* #undef HAVE_WCSRTOMBS_S */

/* Define to 1 if you have the `wcsset_s' function. */
/* #undef HAVE_WCSSET_S */

/* Define to 1 if you have the `wcsstr' function. */
#define HAVE_WCSSTR 1

/* Define to 1 if you have the `wcsstr_s' function. */
/* #undef HAVE_WCSSTR_S */

/* Define to 1 if you have the `wcstok_s' function. */
/* #undef HAVE_WCSTOK_S */

/* Define to 1 if you have the `wcstombs_s' function. */
/* #undef HAVE_WCSTOMBS_S */

/* Define to 1 if you have the `wcsupr_s' function. */
/* #undef HAVE_WCSUPR_S */

/* Define to 1 if you have the `wctomb_s' function. */
/* #undef HAVE_WCTOMB_S */

/* Define to 1 if you have the `wmemchr' function. */
#define HAVE_WMEMCHR 1

/* Define to 1 if you have the `wmemcmp' function. */
#define HAVE_WMEMCMP 1

/* Define to 1 if you have the `wmemcmp_s' function. */
/* #undef HAVE_WMEMCMP_S */

/* Define to 1 if you have the `wmemcpy_s' function. */
/* #undef HAVE_WMEMCPY_S */

/* Define to 1 if you have the `wmemmove_s' function. */
/* #undef HAVE_WMEMMOVE_S */

/* Define to 1 if you have the `wprintf_s' function. */
/* #undef HAVE_WPRINTF_S */

/* Define to 1 if you have the `wscanf_s' function. */
/* #undef HAVE_WSCANF_S */

/* Define to 1 if you have the <x86intrin.h> header file. */
#define HAVE_X86INTRIN_H 1

/* Define to 1 if you have the <xmmintrin.h> header file. */
#define HAVE_XMMINTRIN_H 1

/* Define to 1 if the system has the type `_Bool'. */
#define HAVE__BOOL 1

/* Define to 1 if you have the `_memcmp_s_chk' function. */
/* #undef HAVE__MEMCMP_S_CHK */

/* Define to 1 if you have the `_memcpy_s_chk' function. */
/* #undef HAVE__MEMCPY_S_CHK */

/* Define to 1 if you have the `_memmove_s_chk' function. */
/* #undef HAVE__MEMMOVE_S_CHK */

/* Define to 1 if you have the `_memset_s_chk' function. */
/* #undef HAVE__MEMSET_S_CHK */

/* Define to 1 if you have the `_printf_s_chk' function. */
/* #undef HAVE__PRINTF_S_CHK */

/* Define to 1 if you have the `_snprintf_s_chk' function. */
/* #undef HAVE__SNPRINTF_S_CHK */

/* Define to 1 if you have the `_sprintf_s_chk' function. */
/* #undef HAVE__SPRINTF_S_CHK */

/* Define to 1 if you have the `_strcat_s_chk' function. */
/* #undef HAVE__STRCAT_S_CHK */

/* Define to 1 if you have the `_strcpy_s_chk' function. */
/* #undef HAVE__STRCPY_S_CHK */

/* Define to 1 if you have the `_strncat_s_chk' function. */
/* #undef HAVE__STRNCAT_S_CHK */

/* Define to 1 if you have the `_strncpy_s_chk' function. */
/* #undef HAVE__STRNCPY_S_CHK */

/* Define to 1 if you have the `_strnlen_s_chk' function. */
/* #undef HAVE__STRNLEN_S_CHK */

/* Define to 1 if you have the `_swprintf_s_chk' function. */
/* #undef HAVE__SWPRINTF_S_CHK */

/* Define to 1 if you have the `_vfprintf_s_chk' function. */
/* #undef HAVE__VFPRINTF_S_CHK */

/* Define to 1 if you have the `_vfwprintf_s_chk' function. */
/* #undef HAVE__VFWPRINTF_S_CHK */

/* Define to 1 if you have the `_vsnprintf_s_chk' function. */
/* #undef HAVE__VSNPRINTF_S_CHK */

/* Define to 1 if you have the `_vsprintf_s_chk' function. */
/* #undef HAVE__VSPRINTF_S_CHK */

/* Define to 1 if you have the `__bnd_chk_ptr_bounds' function. */
/* #undef HAVE___BND_CHK_PTR_BOUNDS */

/* Define to 1 if you have the `__bnd_null_ptr_bounds' function. */
/* #undef HAVE___BND_NULL_PTR_BOUNDS */

/* Define to 1 if you have the `__bnd_set_ptr_bounds' function. */
/* #undef HAVE___BND_SET_PTR_BOUNDS */

/* Define to 1 if the system has the `__builtin_constant_p' built-in function
   */
#define HAVE___BUILTIN_CONSTANT_P 1

/* Define to 1 if the system has the `__builtin_ctz' built-in function */
#define HAVE___BUILTIN_CTZ 1

/* Define to 1 if the system has the `__builtin_object_size' built-in function
   */
#define HAVE___BUILTIN_OBJECT_SIZE 1

/* Define to 1 if the system has the `__builtin___bnd_chk_ptr_bounds' built-in
   function */
/* #undef HAVE___BUILTIN___BND_CHK_PTR_BOUNDS */

/* Define to 1 if the system has the `__builtin___bnd_null_ptr_bounds'
   built-in function */
/* #undef HAVE___BUILTIN___BND_NULL_PTR_BOUNDS */

/* Define to 1 if the system has the `__builtin___bnd_set_ptr_bounds' built-in
   function */
/* #undef HAVE___BUILTIN___BND_SET_PTR_BOUNDS */

/* Define to 1 if the system has the `__builtin___dsb' built-in function */
/* #undef HAVE___BUILTIN___DSB */

/* Define to 1 if the system has the `__builtin___isb' built-in function */
/* #undef HAVE___BUILTIN___ISB */

/* Define to 1 if the system has the `__dsb' built-in function */
/* #undef HAVE___DSB */

/* Define to 1 if the system has the `__isb' built-in function */
/* #undef HAVE___ISB */

/* Define to 1 if you have the `__memcpy_chk' function. */
#define HAVE___MEMCPY_CHK 1

/* Define to 1 if you have the `__memmove_chk' function. */
#define HAVE___MEMMOVE_CHK 1

/* Define to 1 if you have the `__memset_chk' function. */
#define HAVE___MEMSET_CHK 1

/* Define to 1 if you have the `__printf_chk' function. */
#define HAVE___PRINTF_CHK 1

/* Define to 1 if you have the `__snprintf_chk' function. */
#define HAVE___SNPRINTF_CHK 1

/* Define to 1 if you have the `__sprintf_chk' function. */
#define HAVE___SPRINTF_CHK 1

/* Define to 1 if you have the `__strcat_chk' function. */
#define HAVE___STRCAT_CHK 1

/* Define to 1 if you have the `__strcpy_chk' function. */
#define HAVE___STRCPY_CHK 1

/* Define to 1 if you have the `__strncat_chk' function. */
#define HAVE___STRNCAT_CHK 1

/* Define to 1 if you have the `__strncpy_chk' function. */
#define HAVE___STRNCPY_CHK 1

/* Define to 1 if you have the `__swprintf_chk' function. */
#define HAVE___SWPRINTF_CHK 1

/* Define to 1 if you have the `__vfprintf_chk' function. */
#define HAVE___VFPRINTF_CHK 1

/* Define to 1 if you have the `__vfwprintf_chk' function. */
#define HAVE___VFWPRINTF_CHK 1

/* Define to 1 if you have the `__vsnprintf_chk' function. */
#define HAVE___VSNPRINTF_CHK 1

/* Define to 1 if you have the `__vsprintf_chk' function. */
#define HAVE___VSPRINTF_CHK 1

/* Define to 1 if you have the `__vsscanf_chk' function. */
/* #undef HAVE___VSSCANF_CHK */

/* Define to 1 if you have the `__vswscanf_chk' function. */
/* #undef HAVE___VSWSCANF_CHK */

/* Define to the sub-directory where libtool stores uninstalled libraries. */
#define LT_OBJDIR ".libs/"

/* Define to the address where bug reports for this package should be sent. */
#define PACKAGE_BUGREPORT "https://github.com/rurban/safeclib/issues"

/* Define to the full name of this package. */
#define PACKAGE_NAME "Safe C Library"

/* Define to the full name and version of this package. */
#define PACKAGE_STRING "Safe C Library UNKNOWN"

/* Define to the one symbol short name of this package. */
#define PACKAGE_TARNAME "safeclib"

/* Define to the home page for this package. */
#define PACKAGE_URL "http://github.com/rurban/safeclib/"

/* Define to the version of this package. */
#define PACKAGE_VERSION "UNKNOWN"

/* Defined to 1 to disable exponential floating point notation (%e/%g) in the
   printf functions */
/* #undef PRINTF_DISABLE_SUPPORT_EXPONENTIAL */

/* Defined to 1 to disable float support in the printf functions */
/* #undef PRINTF_DISABLE_SUPPORT_FLOAT */

/* Defined to 1 to disable long double types (%Lf/%Le/%Lg/%La) in the printf
   functions */
/* #undef PRINTF_DISABLE_SUPPORT_LONG_DOUBLE */

/* Defined to 1 to disable long long types (%llu/%p) in the printf functions
   */
/* #undef PRINTF_DISABLE_SUPPORT_LONG_LONG */

/* Defined to 1 to disable ptrdiff_t type (%t) in the printf functions */
/* #undef PRINTF_DISABLE_SUPPORT_PTRDIFF_T */

/* Defined to 1 when the compiler supports c99, mostly (...) macros */
#define SAFECLIB_HAVE_C99 1

/* The size of `size_t', as computed by sizeof. */
#define SIZEOF_SIZE_T 8

/* The number of bytes in type time_t */
#define SIZEOF_TIME_T 8

/* The number of bytes in type wchar_t */
#define SIZEOF_WCHAR_T 4

/* Define to 1 if all of the C90 standard headers exist (not just the ones
   required in a freestanding environment). This macro is provided for
   backward compatibility; new code need not use it. */
#define STDC_HEADERS 1

/* Define to 1 if you can safely include both <sys/time.h> and <time.h>. This
   macro is obsolete. */
#define TIME_WITH_SYS_TIME 1

/* Define for Solaris 2.5.1 so the uint32_t typedef from <sys/synch.h>,
   <pthread.h>, or <semaphore.h> is not used. If the typedef were allowed, the
   #define below would cause a syntax error. */
/* #undef _UINT32_T */

/* Define for Solaris 2.5.1 so the uint64_t typedef from <sys/synch.h>,
   <pthread.h>, or <semaphore.h> is not used. If the typedef were allowed, the
   #define below would cause a syntax error. */
/* #undef _UINT64_T */

/* Define for Solaris 2.5.1 so the uint8_t typedef from <sys/synch.h>,
   <pthread.h>, or <semaphore.h> is not used. If the typedef were allowed, the
   #define below would cause a syntax error. */
/* #undef _UINT8_T */

/* Define to empty if `const' does not conform to ANSI C. */
/* #undef const */

/* Define to `__inline__' or `__inline' if that's what the C compiler
   calls it, or to nothing if 'inline' is not supported under any name.  */
#ifndef __cplusplus
/* #undef inline */
#endif

/* Define to the type of a signed integer type of width exactly 32 bits if
   such a type exists and the standard includes do not define it. */
/* #undef int32_t */

/* Define to a type if <wchar.h> does not define. */
/* #undef mbstate_t */

/* Define to the equivalent of the C99 'restrict' keyword, or to
   nothing if this is not supported.  Do not define if restrict is
   supported only directly.  */
#define restrict __restrict__
/* Work around a bug in older versions of Sun C++, which did not
   #define __restrict__ or support _Restrict or __restrict__
   even though the corresponding Sun C compiler ended up with
   "#define restrict _Restrict" or "#define restrict __restrict__"
   in the previous line.  This workaround can be removed once
   we assume Oracle Developer Studio 12.5 (2016) or later.  */
#if defined __SUNPRO_CC && !defined __RESTRICT && !defined __restrict__
# define _Restrict
# define __restrict__
#endif

/* Define to `unsigned int' if <sys/types.h> does not define. */
/* #undef size_t */

/* Define to the type of an unsigned integer type of width exactly 16 bits if
   such a type exists and the standard includes do not define it. */
/* #undef uint16_t */

/* Define to the type of an unsigned integer type of width exactly 32 bits if
   such a type exists and the standard includes do not define it. */
/* #undef uint32_t */

/* Define to the type of an unsigned integer type of width exactly 64 bits if
   such a type exists and the standard includes do not define it. */
/* #undef uint64_t */

/* Define to the type of an unsigned integer type of width exactly 8 bits if
   such a type exists and the standard includes do not define it. */
/* #undef uint8_t */

/* Define to the type of an unsigned integer type wide enough to hold a
   pointer, if such a type exists, and if the system does not define it. */
/* #undef uintptr_t */


#endif /* __SAFECLIB_CONF_H__ */

