#!/usr/bin/env python3
"""run_seeded.py [--src DIR] [ID ...]  -- apply every seeded mutant (seeded/<ID>/<k>/patch.diff, or --src tree)
to /repo, run the property's quick check, record whether it goes red, and undo the change.
Results -> seeded/RESULTS.json. /repo must be clean."""
import json, os, subprocess, sys, glob, time
VERIF = os.path.dirname(os.path.dirname(os.path.abspath(__file__)))
src = os.path.join(VERIF, "seeded")
args = sys.argv[1:]
only_new = False
if args and args[0] == "--only-new":
    only_new = True; args = args[1:]
if args and args[0] == "--src":
    src = args[1]; args = args[2:]
ids = args or sorted(os.listdir(src))
res = {}
rp = os.path.join(VERIF, "seeded", "RESULTS.json")
if os.path.exists(rp):
    res = json.load(open(rp))
assert subprocess.run(["git", "-C", "/repo", "status", "--porcelain", "--untracked-files=no"], capture_output=True, text=True).stdout.strip() == "", "/repo not clean"
for pid in ids:
    d = os.path.join(src, pid)
    if not os.path.isdir(d): continue
    for k in sorted(os.listdir(d)):
        patch = os.path.join(d, k, "patch.diff")
        if not os.path.exists(patch): continue
        tag = "%s/%s" % (pid, k)
        if only_new and tag in res: continue
        a = subprocess.run(["git", "-C", "/repo", "apply", "--3way", patch], capture_output=True, text=True)
        if a.returncode != 0:
            a = subprocess.run(["git", "-C", "/repo", "apply", patch], capture_output=True, text=True)
        if a.returncode != 0:
            res[tag] = dict(applied=False, note=a.stderr[-300:]); print(tag, "patch does not apply")
            # a failed 3-way attempt leaves unmerged paths: reset the index first, then the files (the other order keeps the conflict markers)
            subprocess.run(["git", "-C", "/repo", "reset", "-q"]); subprocess.run(["git", "-C", "/repo", "checkout", "--", "."]); continue
        t0 = time.time()
        try:
            # scratch evidence/replay/run dirs: a run against a mutated tree must not touch the real ones
            env = dict(os.environ, VERIF_EVIDENCE_DIR="/tmp/seedrun/evidence", VERIF_REPLAY_DIR="/tmp/seedrun/replays", VERIF_RUNS_DIR="/tmp/seedrun/runs")
            for dd in ("evidence", "replays", "runs"): os.makedirs("/tmp/seedrun/" + dd, exist_ok=True)
            r = subprocess.run([os.path.join(VERIF, "check"), pid, "--tier", "quick"], capture_output=True, text=True, errors="replace", cwd=VERIF, timeout=1500, env=env)
            viol = [l for l in r.stdout.splitlines() if l.startswith("VIOLATION")]
            keys = [l.strip() for l in r.stdout.splitlines() if l.startswith("  key=")]
            res[tag] = dict(applied=True, exit=r.returncode, detected=(r.returncode == 1 and bool(viol)), n_violation_lines=len(viol), keys=keys[:6], wall_s=round(time.time() - t0, 1), tail=r.stdout.splitlines()[-1:], stderr_tail=r.stderr.splitlines()[-6:] if (r.returncode not in (0, 1) or not viol and r.returncode) else [])
        except subprocess.TimeoutExpired:
            res[tag] = dict(applied=True, exit=None, detected=False, note="timeout")
        finally:
            subprocess.run(["git", "-C", "/repo", "reset", "-q"]) 
            subprocess.run(["git", "-C", "/repo", "checkout", "--", "."])
        print(tag, "DETECTED" if res[tag].get("detected") else "MISSED", res[tag].get("keys", [])[:2], flush=True)
        json.dump(res, open(rp, "w"), indent=1, sort_keys=True)
print(json.dumps({k: v.get("detected") for k, v in res.items()}, indent=0))
