#!/usr/bin/env python3
"""run_benign.py [--only-new] [ID ...] -- false-alarm test: apply every property-PRESERVING variant (benign/<ID>/<k>/patch.diff)
to a scratch worktree of /repo's HEAD, run ALL twenty quick checks against it (VERIF_SRC, scratch evidence/replay dirs) and record
every check that goes red. A red check on a variant whose property still holds is a false alarm of the machinery.
Results -> benign/RESULTS.json."""
import json, os, subprocess, sys, time
VERIF = os.path.dirname(os.path.dirname(os.path.abspath(__file__)))
src = os.path.join(VERIF, "benign")
WT = os.environ.get("BENIGN_WT", "/tmp/wt_benign")   # a second instance can run beside the first with its own worktree,
SCR = os.environ.get("BENIGN_SCRATCH", "/tmp/benignrun")  # scratch directories and results file (BENIGN_RESULTS), merged afterwards
args = sys.argv[1:]
only_new = False
if args and args[0] == "--only-new": only_new = True; args = args[1:]
ids = args or sorted(d for d in os.listdir(src) if os.path.isdir(os.path.join(src, d)))
rp = os.environ.get("BENIGN_RESULTS", os.path.join(src, "RESULTS.json"))
res = json.load(open(rp)) if os.path.exists(rp) else {}
def sh(*a, **k): return subprocess.run(a, capture_output=True, text=True, errors="replace", **k)
head = sh("git", "-C", "/repo", "rev-parse", "HEAD").stdout.strip()
if not os.path.isdir(WT): sh("git", "-C", "/repo", "worktree", "add", "-f", "--detach", WT, head)
PROPS = ["C%02d" % i for i in range(1, 21)]
env = dict(os.environ, VERIF_SRC=WT, VERIF_EVIDENCE_DIR=SCR + "/evidence", VERIF_REPLAY_DIR=SCR + "/replays", VERIF_RUNS_DIR=SCR + "/runs", VERIF_MAX_NEW="6")
for dd in ("evidence", "replays", "runs"): os.makedirs(SCR + "/" + dd, exist_ok=True)
for pid in ids:
    d = os.path.join(src, pid)
    for k in sorted(os.listdir(d)):
        patch = os.path.join(d, k, "patch.diff")
        tag = "%s/%s" % (pid, k)
        if not os.path.exists(patch) or (only_new and tag in res): continue
        sh("git", "-C", WT, "checkout", "-q", "--detach", head); sh("git", "-C", WT, "checkout", "--", ".")
        a = sh("git", "-C", WT, "apply", patch)
        if a.returncode != 0:
            res[tag] = dict(applied=False, note=a.stderr[-300:]); print(tag, "patch does not apply", flush=True); continue
        red = {}
        t0 = time.time()
        for p in PROPS:
            r = sh(os.path.join(VERIF, "check"), p, "--tier", "quick", cwd=VERIF, env=env, timeout=3000)
            if r.returncode != 0 or "VIOLATION" in r.stdout:
                red[p] = dict(exit=r.returncode, keys=[l.strip()[:300] for l in r.stdout.splitlines() if l.startswith("  key=") or l.startswith("  (regression")][:8],
                              broken=[l[:300] for l in r.stdout.splitlines() if l.startswith("BROKEN")][:2])
        res[tag] = dict(applied=True, red_checks=red, wall_s=round(time.time() - t0, 1))
        print(tag, "ALL GREEN" if not red else "RED: " + ", ".join("%s(%d keys)" % (p, len(v["keys"])) for p, v in red.items()), flush=True)
        json.dump(res, open(rp, "w"), indent=1, sort_keys=True)
sh("git", "-C", WT, "checkout", "--", ".")
