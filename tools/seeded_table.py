#!/usr/bin/env python3
"""seeded_table.py -- regenerate the table of DESIGN.md section 10 from seeded/<id>/<k>/meta.json and seeded/RESULTS.json"""
import json, os, re, glob
V = os.path.dirname(os.path.dirname(os.path.abspath(__file__)))
res = json.load(open(os.path.join(V, "seeded", "RESULTS.json")))
rows = []
for d in sorted(glob.glob(os.path.join(V, "seeded", "C*", "*"))):
    if not os.path.isdir(d): continue
    pid, k = d.split(os.sep)[-2:]
    mp = os.path.join(d, "meta.json")
    meta = json.load(open(mp)) if os.path.exists(mp) else {}
    r = res.get("%s/%s" % (pid, k), {})
    if not r: verdict = "not run"
    elif not r.get("applied", True): verdict = "patch no longer applies (the code it changed was rewritten by a repair)"
    elif r.get("detected"):
        keys = [re.sub(r"^key=", "", x.split(" ")[0]) for x in r.get("keys", [])[:2]]
        verdict = "**caught** by `./check %s`%s" % (pid, (": " + ", ".join("`%s`" % x for x in keys)) if keys else "")
    else: verdict = "**missed** — " + (meta.get("miss_reason") or "see note below")
    summ = (meta.get("summary") or "").replace("|", "/").replace("\n", " ")
    rows.append("| %s/%s | %s | %s | %s |" % (pid, k, (meta.get("file") or "").replace("src/", ""), summ[:230], verdict))
tab = "| change | file | what was changed | result |\n|---|---|---|---|\n" + "\n".join(rows)
n = len(rows); det = sum(1 for r in res.values() if r.get("detected")); app = sum(1 for r in res.values() if r.get("applied", True))
metas = {}
for d in sorted(glob.glob(os.path.join(V, "seeded", "C*", "*", "meta.json"))):
    metas["/".join(d.split(os.sep)[-3:-1])] = json.load(open(d))
reb = sorted(k for k, m in metas.items() if m.get("rebased"))
obs = sorted(k for k, m in metas.items() if m.get("obsolete"))
tab += "\n\n%d changes kept, %d are caught." % (n, det)
if reb:
    tab += (" %d of them (%s) touched a line that a later `fix:` commit rewrote; the same edit was re-made on the repaired tree and "
            "re-confirmed (`patch.orig.diff` keeps the original)." % (len(reb), ", ".join(reb)))
if obs:
    tab += (" %s can no longer be re-made so that the unedited tests pass; the result dates from the tree it was written for "
            "(`meta.json`: `obsolete`)." % ", ".join(obs))
tab += "\n"
p = os.path.join(V, "DESIGN.md")
s = open(p).read()
B, E = "<!-- seeded-table-begin -->", "<!-- seeded-table-end -->"
if "SEEDED_TABLE_PLACEHOLDER" in s:
    s = s.replace("SEEDED_TABLE_PLACEHOLDER", B + "\n" + tab + "\n" + E)
else:
    s = s[:s.index(B)] + B + "\n" + tab + "\n" + s[s.index(E):]
open(p, "w").write(s)
print("table: %d rows, %d detected" % (n, det))
