#!/usr/bin/env python3
"""seeded_table.py -- regenerate the table of DESIGN.md section 10 from seeded/<id>/<k>/meta.json and seeded/RESULTS.json"""
import json, os, re, glob
V = os.path.dirname(os.path.dirname(os.path.abspath(__file__)))
res = json.load(open(os.path.join(V, "seeded", "RESULTS.json")))
rows = []
for d in sorted(glob.glob(os.path.join(V, "seeded", "C*", "*"))):
    if not os.path.isdir(d): continue
    pid, k = d.split(os.sep)[-2:]
    mp = os.path.join(d, "meta.json")
    meta = json.load(open(mp)) if os.path.exists(mp) else {}
    r = res.get("%s/%s" % (pid, k), {})
    if not r: verdict = "not run"
    elif not r.get("applied", True): verdict = "patch no longer applies (the code it changed was rewritten by a repair)"
    elif r.get("detected"):
        keys = [re.sub(r"^key=", "", x.split(" ")[0]) for x in r.get("keys", [])[:2]]
        verdict = "**caught** by `./check %s`%s" % (pid, (": " + ", ".join("`%s`" % x for x in keys)) if keys else "")
    else: verdict = "**missed** — " + (meta.get("miss_reason") or "see note below")
    summ = (meta.get("summary") or "").replace("|", "/").replace("\n", " ")
    rows.append("| %s/%s | %s | %s | %s |" % (pid, k, (meta.get("file") or "").replace("src/", ""), summ[:230], verdict))
tab = "| change | file | what was changed | result |\n|---|---|---|---|\n" + "\n".join(rows)
n = len(rows); det = sum(1 for r in res.values() if r.get("detected")); app = sum(1 for r in res.values() if r.get("applied", True))
tab += "\n\n%d changes kept, %d still apply to the repaired tree, %d of those are caught.\n" % (n, app, det)
p = os.path.join(V, "DESIGN.md")
s = open(p).read()
B, E = "<!-- seeded-table-begin -->", "<!-- seeded-table-end -->"
if "SEEDED_TABLE_PLACEHOLDER" in s:
    s = s.replace("SEEDED_TABLE_PLACEHOLDER", B + "\n" + tab + "\n" + E)
else:
    s = s[:s.index(B)] + B + "\n" + tab + "\n" + s[s.index(E):]
open(p, "w").write(s)
print("table: %d rows, %d detected" % (n, det))
