#!/usr/bin/env python3
"""reattribute.py BASE [PROP...] -- re-derive the commit of every 'fixed:' line of KNOWN_FINDINGS.txt by binary
search (tools/firstpass.py machinery): the recorded commit becomes the first one in BASE..HEAD at which the saved
replay passes.  Lines whose replay already passes at BASE are reported (the current oracle no longer judges that case
as failing there) and left alone.  Writes KNOWN_FINDINGS.txt in place; prints what changed."""
import sys, os, re, subprocess
HERE = os.path.dirname(os.path.abspath(__file__))
sys.argv_saved = sys.argv[:]
base = sys.argv[1]
props = set(sys.argv[2:])
sys.argv = [sys.argv[0], base]          # firstpass reads argv at import time
sys.path.insert(0, HERE)
import importlib.util
spec = importlib.util.spec_from_file_location("firstpass", os.path.join(HERE, "firstpass.py"))
fp = importlib.util.module_from_spec(spec); spec.loader.exec_module(fp)
driver = fp.driver
lines = open(driver.KNOWN_FILE, errors="replace").read().splitlines(True)
out = []
nchg = nbase = nstill = 0
for ln in lines:
    m = re.match(r"^fixed: property=(\S+) (\S+) key=(\S+) replay=(\S+) (.*)$", ln.rstrip("\n"))
    if not m or (props and m.group(1) not in props):
        out.append(ln); continue
    prop, commit, key, replay, text = m.groups()
    path = os.path.join(driver.VERIF, replay)
    if not os.path.exists(path) or not path.endswith(".case"):
        out.append(ln); continue
    try:
        c, subj = fp.first_pass(path)
    except Exception as e:
        print("ERROR", key, str(e)[:200]); out.append(ln); continue
    if c == "PASSES-AT-BASE":
        nbase += 1; print("passes-at-base:", prop, key); out.append(ln); continue
    if c == "STILL-FAILS":
        nstill += 1; print("STILL-FAILS:", prop, key); out.append(ln); continue
    if c != commit[:len(c)] and not commit.startswith(c):
        nchg += 1
        desc = subj[5:] if subj.startswith("fix: ") else subj
        print("reattributed: %s %s %s -> %s" % (prop, key, commit, c))
        out.append("fixed: property=%s %s key=%s replay=%s %s\n" % (prop, c, key, replay, desc))
    else:
        out.append(ln)
open(driver.KNOWN_FILE, "w").write("".join(out))
print("changed %d, passes-at-base %d, still-fails %d" % (nchg, nbase, nstill))
