#!/usr/bin/env python3
"""firstpass.py BASE REPLAY... | firstpass.py BASE --record PROP -- for each saved replay that passes on /repo HEAD, find (binary search over
BASE..HEAD, one scratch worktree under /tmp) the first 'fix:' commit at which it passes.  Prints
'<replay> <commit> <subject>'.  Used to attribute 'fixed:' records to the commit that repaired them."""
import sys, os, subprocess, re
HERE = os.path.dirname(os.path.abspath(__file__))
sys.path.insert(0, os.path.join(HERE, "..", "lib"))
WT = "/tmp/wt_firstpass"
def sh(*a, **k): return subprocess.run(a, capture_output=True, text=True, **k)
base = sys.argv[1]
commits = sh("git", "-C", "/repo", "log", "--reverse", "--format=%h %s", base + "..HEAD").stdout.strip().splitlines()
commits = [c.split(" ", 1) for c in commits]
if not os.path.isdir(WT):
    sh("git", "-C", "/repo", "worktree", "add", "-f", "--detach", WT, base)
import importlib
cache = {}
def harness_at(commit, cfg):
    key = (commit, cfg)
    if key in cache: return cache[key]
    sh("git", "-C", WT, "checkout", "-q", "--detach", commit)
    os.environ["VERIF_SRC"] = WT
    import hbuild
    h = hbuild.build_harness(cfg)
    # keep a private copy: the vlib cache is LRU-pruned
    dst = "/tmp/fp_harness_%s_%s" % (commit, cfg)
    subprocess.run(["cp", h, dst]); cache[key] = dst
    return dst
import driver
def passes(commit, path):
    mod, cfg = driver.case_meta(path)
    code, rkey, out = driver.replay_case(harness_at(commit, cfg), mod, path, cfg)
    return code == 0
def first_pass(path):
    n = len(commits)
    if not passes(commits[-1][0], path): return ("STILL-FAILS", "")
    if passes(base, path): return ("PASSES-AT-BASE", "")
    lo, hi = -1, n - 1  # lo fails (base), hi passes
    while hi - lo > 1:
        mid = (lo + hi) // 2
        if passes(commits[mid][0], path): hi = mid
        else: lo = mid
    return (commits[hi][0], commits[hi][1])
if __name__ != "__main__": sys.argv = sys.argv[:2]
record = "--record" in sys.argv
paths = [a for a in sys.argv[2:] if not a.startswith("--")]
if record:
    # --record PROP: every kase-bearing replay under replays/PROP whose key is not listed yet
    import glob, shutil
    prop = paths[0]
    opn, fixed = driver.load_known()
    have = {e["key"] for e in opn.get(prop, []) + fixed.get(prop, [])}
    best = {}
    for p in sorted(glob.glob(os.path.join(driver.REPLAY_DIR, prop, "*.case"))):
        if p.endswith(".raw.case"): continue
        txt = open(p, errors="replace").read()
        m = re.search(r"^# key: (.*)$", txt, re.M)
        if not m or not re.search(r"^kase ", txt, re.M): continue
        key = m.group(1).strip()
        if key in have: continue
        if key not in best or len(txt) < len(open(best[key], errors="replace").read()): best[key] = p
    for key, p in sorted(best.items()):
        c, subj = first_pass(p)
        if c in ("STILL-FAILS", "PASSES-AT-BASE"):
            print(key, c); continue
        dd = os.path.join(driver.VERIF, "known", prop); os.makedirs(dd, exist_ok=True)
        dst = os.path.join(dd, re.sub(r"[^A-Za-z0-9_.-]+", "_", key)[:110] + ".case")
        while os.path.exists(dst):  # never overwrite the replay of another record
            dst = dst[:-5] + "_.case"
        shutil.copy(p, dst)
        line = "fixed: property=%s %s key=%s replay=%s %s\n" % (prop, c, key, os.path.relpath(dst, driver.VERIF), subj[5:] if subj.startswith("fix: ") else subj)
        open(driver.KNOWN_FILE, "a").write(line)
        print(line.strip())
else:
    for path in paths:
        print(path, *first_pass(path))
