/* arena.h -- guard-page arena and fault capture (DESIGN.md 1.3)
 *
 * Each slot: [pre guard page][DATA pages][post guard page][fence page PROT_NONE]
 * Buffers are carved so that their true extent ends flush against the post
 * guard (END) or starts flush after the pre guard (START), or sits in the
 * middle (MID). Everything in DATA outside the buffer holds a position-coded
 * canary checked after the call.
 * Guard modes: G_NA (PROT_NONE: loads and stores fault), G_RO (PROT_READ: only
 * stores fault; page holds non-zero filler so over-reads keep scanning).
 */
#ifndef ARENA_H
#define ARENA_H
#define _GNU_SOURCE
#include <signal.h>
#include <setjmp.h>
#include <stdint.h>
#include <stddef.h>
#include <string.h>
#include <sys/mman.h>
#include <ucontext.h>
#include <unistd.h>
#include <stdio.h>
#include <stdlib.h>

#define AR_PAGE 4096UL
#define AR_DATA_PAGES 3UL
#define AR_DATA (AR_PAGE * AR_DATA_PAGES)
#define AR_SLOT (AR_PAGE * (AR_DATA_PAGES + 4))
#define AR_NSLOTS 12

enum { G_NA = 0, G_RO = 1 };
enum { PL_END = 0, PL_START = 1, PL_MID = 2 };

typedef struct ar_buf {
    unsigned char *p;      /* start of the true object */
    size_t size;           /* true size in bytes */
    int slot;
    int used;
} ar_buf_t;

typedef struct ar_fault {
    int faulted;           /* 1 = guard/other fault captured */
    int is_write;
    int sig;
    uintptr_t addr;
    uintptr_t pc;
} ar_fault_t;

typedef struct arena {
    unsigned char *base[2];   /* one region per guard mode */
    int next[2];
    ar_buf_t bufs[2 * AR_NSLOTS];
    int nbufs;
} arena_t;

extern arena_t g_ar;
extern sigjmp_buf g_ar_jmp;
extern volatile int g_ar_armed;
extern ar_fault_t g_ar_fault;

void ar_init(void);
void ar_reset(void);
/* allocate a true object of `size` bytes in guard mode `gmode`, placement `pl`,
 * `align` = byte skew (0..63) added to the 64-aligned position for PL_MID. */
unsigned char *ar_alloc(int gmode, int pl, size_t size, size_t align);
/* check canaries of all slots used since ar_reset(); returns NULL if intact,
 * else address of first corrupted byte */
unsigned char *ar_check_canaries(void);
/* locate address relative to allocated buffers: returns buffer index or -1,
 * *off = signed offset from buffer start */
int ar_locate(uintptr_t addr, long *off);
static inline unsigned char ar_canary(uintptr_t a) { return (unsigned char)(0xC1 + (a % 59)); }

/* Run `stmt` with fault capture. After it: g_ar_fault.faulted tells. */
#define AR_GUARDED(stmt)                                                       \
    do {                                                                       \
        g_ar_fault.faulted = 0;                                                \
        if (sigsetjmp(g_ar_jmp, 1) == 0) {                                     \
            g_ar_armed = 1;                                                    \
            stmt;                                                              \
            g_ar_armed = 0;                                                    \
        } else {                                                               \
            g_ar_armed = 0;                                                    \
        }                                                                      \
    } while (0)

#endif
