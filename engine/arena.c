#include "arena.h"

arena_t g_ar;
sigjmp_buf g_ar_jmp;
volatile int g_ar_armed;
ar_fault_t g_ar_fault;
static unsigned char *g_tmpl; /* canary template, AR_DATA+64 bytes */
static unsigned char g_altstack[65536];

static void ar_handler(int sig, siginfo_t *si, void *uc_) {
    ucontext_t *uc = (ucontext_t *)uc_;
    if (!g_ar_armed) {
        /* fault in harness code itself: a machinery bug, never a verdict */
        char msg[160];
        int n = snprintf(msg, sizeof msg, "HARNESS-FAULT sig=%d addr=%p pc=%p\n", sig, si->si_addr,
                         (void *)uc->uc_mcontext.gregs[REG_RIP]);
        if (write(2, msg, (size_t)n)) {}
        _exit(99);
    }
    g_ar_fault.faulted = 1;
    g_ar_fault.sig = sig;
    g_ar_fault.addr = (uintptr_t)si->si_addr;
    g_ar_fault.is_write = (sig == SIGSEGV || sig == SIGBUS) ? (int)((uc->uc_mcontext.gregs[REG_ERR] >> 1) & 1) : 0;
    g_ar_fault.pc = (uintptr_t)uc->uc_mcontext.gregs[REG_RIP];
    siglongjmp(g_ar_jmp, 1);
}

static unsigned char *slot_base(int g, int s) { return g_ar.base[g] + (size_t)s * AR_SLOT; }
static unsigned char *slot_data(int g, int s) { return slot_base(g, s) + AR_PAGE; }

void ar_init(void) {
    struct sigaction sa;
    stack_t ss;
    int g, s;
    size_t i;
    ss.ss_sp = g_altstack;
    ss.ss_size = sizeof g_altstack;
    ss.ss_flags = 0;
    sigaltstack(&ss, NULL);
    memset(&sa, 0, sizeof sa);
    sa.sa_sigaction = ar_handler;
    sa.sa_flags = SA_SIGINFO | SA_ONSTACK | SA_NODEFER;
    sigemptyset(&sa.sa_mask);
    sigaction(SIGSEGV, &sa, NULL);
    sigaction(SIGBUS, &sa, NULL);
    sigaction(SIGABRT, &sa, NULL);
    sigaction(SIGFPE, &sa, NULL);
    sigaction(SIGILL, &sa, NULL);

    g_tmpl = (unsigned char *)malloc(AR_DATA + 128);
    for (i = 0; i < AR_DATA + 128; i++) g_tmpl[i] = ar_canary(i);

    for (g = 0; g < 2; g++) {
        unsigned char *b = (unsigned char *)mmap(NULL, AR_SLOT * AR_NSLOTS + AR_PAGE, PROT_NONE,
                                                 MAP_PRIVATE | MAP_ANONYMOUS, -1, 0);
        if (b == MAP_FAILED) { perror("mmap"); exit(98); }
        g_ar.base[g] = b + AR_PAGE; /* leading fence */
        for (s = 0; s < AR_NSLOTS; s++) {
            unsigned char *sb = slot_base(g, s);
            /* layout: [pre guard][DATA][post guard][fence NONE][fence NONE] */
            mprotect(sb + AR_PAGE, AR_DATA, PROT_READ | PROT_WRITE);
            for (i = 0; i < AR_DATA; i++) sb[AR_PAGE + i] = ar_canary((uintptr_t)(sb + AR_PAGE + i));
            if (g == G_RO) {
                mprotect(sb, AR_PAGE, PROT_READ | PROT_WRITE);
                memset(sb, 0x47, AR_PAGE);
                mprotect(sb, AR_PAGE, PROT_READ);
                mprotect(sb + AR_PAGE + AR_DATA, AR_PAGE, PROT_READ | PROT_WRITE);
                memset(sb + AR_PAGE + AR_DATA, 0x47, AR_PAGE);
                mprotect(sb + AR_PAGE + AR_DATA, AR_PAGE, PROT_READ);
            }
        }
    }
    g_ar.nbufs = 0;
    g_ar.next[0] = g_ar.next[1] = 0;
}

void ar_reset(void) {
    int i;
    for (i = 0; i < g_ar.nbufs; i++) {
        ar_buf_t *b = &g_ar.bufs[i];
        size_t k;
        for (k = 0; k < b->size; k++) b->p[k] = ar_canary((uintptr_t)(b->p + k));
    }
    g_ar.nbufs = 0;
    g_ar.next[0] = g_ar.next[1] = 0;
}

unsigned char *ar_alloc(int gmode, int pl, size_t size, size_t align) {
    int s = g_ar.next[gmode];
    unsigned char *d, *p;
    ar_buf_t *b;
    if (s >= AR_NSLOTS || size > AR_DATA) {
        fprintf(stderr, "ar_alloc: out of slots or too large (%zu)\n", size);
        _exit(97);
    }
    g_ar.next[gmode] = s + 1;
    d = slot_data(gmode, s);
    if (pl == PL_END) p = d + AR_DATA - size;
    else if (pl == PL_START) p = d;
    else {
        size_t room = AR_DATA - size;
        size_t off = room / 2;
        off -= off % 64;
        p = d + off + (align & 63); /* align = byte skew 0..63 */
        if (p + size > d + AR_DATA) p = d + AR_DATA - size;
    }
    b = &g_ar.bufs[g_ar.nbufs++];
    b->p = p;
    b->size = size;
    b->slot = gmode * AR_NSLOTS + s;
    b->used = 1;
    return p;
}

unsigned char *ar_check_canaries(void) {
    int i, j;
    for (i = 0; i < g_ar.nbufs; i++) {
        ar_buf_t *b = &g_ar.bufs[i];
        int g = b->slot / AR_NSLOTS, s = b->slot % AR_NSLOTS;
        unsigned char *d = slot_data(g, s);
        size_t pre = (size_t)(b->p - d);
        size_t post = AR_DATA - pre - b->size;
        unsigned char *q = b->p + b->size;
        if (pre && memcmp(d, g_tmpl + ((uintptr_t)d % 59), pre) != 0) {
            for (j = 0; j < (int)pre; j++)
                if (d[j] != ar_canary((uintptr_t)(d + j))) {
                    unsigned char *bad = d + j;
                    size_t k;
                    for (k = 0; k < pre; k++) d[k] = ar_canary((uintptr_t)(d + k));
                    return bad;
                }
        }
        if (post && memcmp(q, g_tmpl + ((uintptr_t)q % 59), post) != 0) {
            for (j = 0; j < (int)post; j++)
                if (q[j] != ar_canary((uintptr_t)(q + j))) {
                    unsigned char *bad = q + j;
                    size_t k;
                    for (k = 0; k < post; k++) q[k] = ar_canary((uintptr_t)(q + k));
                    return bad;
                }
        }
    }
    return NULL;
}

int ar_locate(uintptr_t addr, long *off) {
    int i, best = -1;
    long bestd = 0;
    for (i = 0; i < g_ar.nbufs; i++) {
        ar_buf_t *b = &g_ar.bufs[i];
        int g = b->slot / AR_NSLOTS, s = b->slot % AR_NSLOTS;
        unsigned char *sb = slot_base(g, s);
        if (addr >= (uintptr_t)sb && addr < (uintptr_t)sb + AR_SLOT) {
            long d = (long)(addr - (uintptr_t)b->p);
            if (best < 0) { best = i; bestd = d; }
        }
    }
    if (best >= 0 && off) *off = bestd;
    return best;
}
