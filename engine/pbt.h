/* pbt.h -- module interface between the runner and the property modules */
#ifndef PBT_H
#define PBT_H
#include "cs.h"
#include "arena.h"

#define RES_MAXLAB 10

typedef struct res {
    int violation;          /* 0 ok, 1 violation */
    int nontrivial;         /* case satisfies the property's non-triviality rule */
    int fragile;            /* after this case the worker must be restarted */
    uint64_t hash;          /* hash of the decoded case (distinctness) */
    char key[160];          /* finding key  <prop>:<row>:<class> */
    char detail[400];
    const char *labels[RES_MAXLAB];
    int nlabels;
} res_t;

typedef struct runcfg {
    int tier;               /* 0 quick, 1 thorough */
    uint64_t seed;
    const char *row_filter; /* NULL or row name */
    int phase;              /* generator phase: 0 = enumerable lattice, 1 = random */
    const char *libcfg;     /* "plain", "plain-noslack", "asan" ... (informational) */
} runcfg_t;

typedef struct module {
    const char *name;       /* e.g. "C02" */
    size_t case_size;
    int has_enum;           /* phase 0 exists */
    long random_cases[2];   /* default number of random cases per tier */
    void (*init)(const runcfg_t *);
    /* pure: decode a case from the choice stream. return 0 to skip (invalid) */
    int (*gen)(cs_t *, void *kase, const runcfg_t *);
    void (*exec)(const void *kase, res_t *, const runcfg_t *);
    void (*describe)(const void *kase, char *buf, size_t n);
    const char *rule;       /* non-triviality rule text for evidence */
} module_t;

void pbt_register(const module_t *m);
static inline void res_label(res_t *r, const char *l) {
    if (r->nlabels < RES_MAXLAB) r->labels[r->nlabels++] = l;
}
#define RES_VIOL(r, keyfmt, ...)                                               \
    do {                                                                       \
        if (!(r)->violation) {                                                 \
            (r)->violation = 1;                                                \
            snprintf((r)->key, sizeof (r)->key, keyfmt, __VA_ARGS__);          \
        }                                                                      \
    } while (0)
#define RES_DETAIL(r, ...) snprintf((r)->detail, sizeof (r)->detail, __VA_ARGS__)

#endif
