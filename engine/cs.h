/* cs.h -- choice-sequence property-based testing engine (see DESIGN.md 1.2)
 *
 * A test case is the sequence of choices its generator made. Generators only
 * call cs_range()/cs_noise(); drivers decide where the values come from:
 *   random : splitmix64(seed, case index)
 *   enum   : odometer over all cs_range() paths (cs_noise() stays pseudo-random,
 *            seeded by (seed, case index), and is recorded)
 *   replay : values read back from a saved .case file
 *   fuzz   : values decoded from libFuzzer bytes
 * Every drawn value is recorded, so any case can be saved, replayed and shrunk.
 */
#ifndef CS_H
#define CS_H
#include <stdint.h>
#include <stddef.h>
#include <stdio.h>
#include <string.h>
#include <stdlib.h>

#define CS_MAX 512

enum { CS_RANDOM, CS_ENUM, CS_REPLAY, CS_FUZZ };

typedef struct cs {
    int mode;
    uint64_t rng;            /* splitmix state */
    /* record of drawn values (after reduction) and their radix (0 = noise) */
    uint32_t val[CS_MAX];
    uint32_t radix[CS_MAX];
    int n;                   /* values drawn so far in this case */
    /* replay/enum input */
    uint32_t in[CS_MAX];
    int n_in;
    /* enum */
    int enum_done;
    /* fuzz */
    const uint8_t *fz;
    size_t fz_n, fz_i;
    int overflow;
} cs_t;

static inline uint64_t cs_splitmix(uint64_t *s) {
    uint64_t z = (*s += 0x9e3779b97f4a7c15ULL);
    z = (z ^ (z >> 30)) * 0xbf58476d1ce4e5b9ULL;
    z = (z ^ (z >> 27)) * 0x94d049bb133111ebULL;
    return z ^ (z >> 31);
}

static inline void cs_begin(cs_t *cs, int mode, uint64_t seed, uint64_t index) {
    cs->mode = mode;
    cs->n = 0;
    cs->overflow = 0;
    cs->rng = seed * 0x2545F4914F6CDD1DULL + index * 0x9E3779B97F4A7C15ULL + 0x1234567;
    (void)cs_splitmix(&cs->rng);
}

static inline uint32_t cs_raw(cs_t *cs, uint32_t radix, int noise) {
    uint32_t v;
    int i = cs->n;
    if (i >= CS_MAX) { cs->overflow = 1; return 0; }
    switch (cs->mode) {
    case CS_REPLAY:
        v = i < cs->n_in ? cs->in[i] : 0;
        break;
    case CS_ENUM:
        if (noise) v = (uint32_t)(cs_splitmix(&cs->rng) >> 16);
        else v = i < cs->n_in ? cs->in[i] : 0;
        break;
    case CS_FUZZ:
        if (cs->fz_i < cs->fz_n) v = cs->fz[cs->fz_i++]; else v = 0;
        if (radix > 256 || noise) { /* two bytes: the encoding of a recorded case must not depend on a noise draw's range */
            v <<= 8;
            if (cs->fz_i < cs->fz_n) v |= cs->fz[cs->fz_i++];
        }
        break;
    default:
        v = (uint32_t)(cs_splitmix(&cs->rng) >> 16);
    }
    if (radix) v %= radix;
    cs->val[i] = v;
    cs->radix[i] = noise ? 0 : radix;
    cs->n = i + 1;
    return v;
}

/* enumerable choice in [lo,hi] */
static inline long cs_range(cs_t *cs, long lo, long hi) {
    if (hi <= lo) return lo;
    return lo + (long)cs_raw(cs, (uint32_t)(hi - lo + 1), 0);
}
/* non-enumerated ("noise") choice in [lo,hi]: random even in enum mode */
static inline long cs_noise(cs_t *cs, long lo, long hi) {
    if (hi <= lo) return lo;
    return lo + (long)cs_raw(cs, (uint32_t)(hi - lo + 1), 1);
}
static inline int cs_bool(cs_t *cs) { return (int)cs_range(cs, 0, 1); }
/* pick from a table of longs */
static inline long cs_pick(cs_t *cs, const long *tab, int n) { return tab[cs_range(cs, 0, n - 1)]; }

/* enum driver: advance cs->in[] (the odometer) using the radices recorded in the
 * case just run. returns 0 when the space is exhausted. */
static inline int cs_enum_next(cs_t *cs) {
    int i;
    /* copy last run's enumerable values into in[] */
    for (i = 0; i < cs->n; i++) cs->in[i] = cs->val[i];
    cs->n_in = cs->n;
    for (i = cs->n - 1; i >= 0; i--) {
        if (cs->radix[i] == 0) { cs->n_in = i; continue; } /* noise: drop */
        if (cs->in[i] + 1 < cs->radix[i]) {
            cs->in[i]++;
            cs->n_in = i + 1;
            return 1;
        }
        cs->n_in = i;
    }
    return 0;
}

static inline uint64_t cs_hash_bytes(uint64_t h, const void *p, size_t n) {
    const unsigned char *c = (const unsigned char *)p;
    size_t i;
    for (i = 0; i < n; i++) { h ^= c[i]; h *= 0x100000001b3ULL; }
    return h;
}
#define CS_HASH_INIT 0xcbf29ce484222325ULL
static inline uint64_t cs_hash_u64(uint64_t h, uint64_t v) { return cs_hash_bytes(h, &v, sizeof v); }

#endif
