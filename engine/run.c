/* run.c -- runner: forked workers, random/enum drivers, replay, shrink, summary */
#define _GNU_SOURCE
#include "pbt.h"
#include <sys/wait.h>
#include <sys/stat.h>
#include <time.h>
#include <errno.h>
#include <fcntl.h>

extern const module_t *const all_modules[];
extern const int all_modules_n;

#define MAXW 32
#define MAXLAB 384
#define NSAMP 6
#define HASHCAP (3u << 20)

typedef struct wstate {
    volatile int phase;
    volatile uint64_t idx;       /* index of the case being executed */
    volatile uint64_t next_idx;  /* where a respawned worker must resume */
    volatile int n_in;
    uint32_t in[CS_MAX];
    int in_exec;
    int cur_n;                   /* choices of the case being executed */
    uint32_t cur_val[CS_MAX];
    uint64_t evals, nontriv, viols, skipped, gen_total;
    uint64_t fuzz_done;          /* libFuzzer executions so far (phase 2), survives worker restarts */
    int enum_complete;
    int nlab;
    struct { const char *p; char name[136]; uint64_t count; } lab[MAXLAB];
    int nsamp;
    char samp[NSAMP][700];
    uint64_t nhash;
    uint64_t hash[HASHCAP];
} wstate_t;

static wstate_t *W[MAXW];
static const module_t *M;
static runcfg_t CFG;
static const char *OUTDIR = ".";
static int NW = 16;
static long NCASES = -1;
static long ENUM_LIMIT = 200000000L;
static void *KASE;
static int g_use_kase, g_no_kase;
static long FUZZ_RUNS = 0;        /* total libFuzzer executions (phase 2), split over the workers */
static const char *FUZZ_DIR = NULL;

static void lab_add(wstate_t *s, const char *l, int dynamic) {
    int i;
    if (!dynamic)
        for (i = 0; i < s->nlab; i++)
            if (s->lab[i].p == l) { s->lab[i].count++; return; }
    for (i = 0; i < s->nlab; i++)
        if (strcmp(s->lab[i].name, l) == 0) { s->lab[i].count++; return; }
    if (s->nlab < MAXLAB) {
        s->lab[s->nlab].p = dynamic ? NULL : l;
        snprintf(s->lab[s->nlab].name, sizeof s->lab[0].name, "%s", l);
        s->lab[s->nlab].count = 1;
        s->nlab++;
    }
}

static void json_escape(FILE *f, const char *s) {
    fputc('"', f);
    for (; *s; s++) {
        unsigned char c = (unsigned char)*s;
        if (c == '"' || c == '\\') { fputc('\\', f); fputc(c, f); }
        else if (c < 0x20 || c >= 0x7f) fprintf(f, "\\u%04x", c);
        else fputc(c, f);
    }
    fputc('"', f);
}

static int json_escape_buf(char *o, size_t n, const char *s) {
    size_t k = 0;
    if (n < 8) return 0;
    o[k++] = '"';
    for (; *s && k + 8 < n; s++) {
        unsigned char c = (unsigned char)*s;
        if (c == '"' || c == '\\') { o[k++] = '\\'; o[k++] = (char)c; }
        else if (c < 0x20 || c >= 0x7f) k += (size_t)snprintf(o + k, n - k, "\\u%04x", c);
        else o[k++] = (char)c;
    }
    o[k++] = '"';
    o[k] = 0;
    return (int)k;
}

static void write_case_file(const char *path, const cs_t *cs, const char *key, const char *detail, const char *desc) {
    FILE *f = fopen(path, "w");
    int i;
    if (!f) return;
    fprintf(f, "module %s\nphase %d\nchoices", M->name, CFG.phase);
    for (i = 0; i < cs->n; i++) fprintf(f, " %u", cs->val[i]);
    fprintf(f, "\nkase ");
    for (i = 0; i < (int)M->case_size; i++) fprintf(f, "%02x", ((unsigned char *)KASE)[i]);
    fprintf(f, "\n# key: %s\n# detail: %s\n# case: %s\n", key, detail, desc);
    fclose(f);
}

static unsigned char *g_kase_in; /* decoded case read from a replay file (preferred over choices) */
static size_t g_kase_in_n;
static int read_case_file(const char *path, cs_t *cs, int *phase) {
    FILE *f = fopen(path, "r");
    static char line[70000];
    if (!f) return -1;
    cs->n_in = 0;
    *phase = 1;
    g_kase_in_n = 0;
    while (fgets(line, sizeof line, f)) {
        if (strncmp(line, "kase ", 5) == 0) {
            const char *p = line + 5;
            size_t n = 0;
            free(g_kase_in);
            g_kase_in = calloc(1, strlen(p) / 2 + 1);
            while (p[0] && p[1] && p[0] != '\n') {
                unsigned v;
                if (sscanf(p, "%2x", &v) != 1) break;
                g_kase_in[n++] = (unsigned char)v;
                p += 2;
            }
            g_kase_in_n = n;
        }
        if (strncmp(line, "phase ", 6) == 0) *phase = atoi(line + 6);
        if (strncmp(line, "choices", 7) == 0) {
            char *p = line + 7, *e;
            for (;;) {
                unsigned long v = strtoul(p, &e, 10);
                if (e == p) break;
                if (cs->n_in < CS_MAX) cs->in[cs->n_in++] = (uint32_t)v;
                p = e;
            }
        }
    }
    fclose(f);
    return 0;
}

/* run one case in this process */
static void run_one(cs_t *cs, res_t *r, char *desc, size_t dn, int *valid) {
    memset(r, 0, sizeof *r);
    r->hash = CS_HASH_INIT;
    memset(KASE, 0, M->case_size);
    if (g_use_kase && g_kase_in_n) {
        memcpy(KASE, g_kase_in, g_kase_in_n < M->case_size ? g_kase_in_n : M->case_size);
        *valid = 1;
    } else
        *valid = M->gen(cs, KASE, &CFG);
    if (!*valid) return;
    M->exec(KASE, r, &CFG);
    if (desc) M->describe(KASE, desc, dn);
}

static void account(wstate_t *s, res_t *r, cs_t *cs, uint64_t idx, int vfd) {
    int i;
    char desc[700];
    s->evals++;
    for (i = 0; i < r->nlabels; i++) lab_add(s, r->labels[i], 0);
    if (r->nontrivial) {
        s->nontriv++;
        if (s->nhash < HASHCAP) s->hash[s->nhash++] = r->hash;
        if (s->nsamp < NSAMP && (s->nontriv % 97 == 1 || s->nsamp == 0)) {
            M->describe(KASE, s->samp[s->nsamp], sizeof s->samp[0]);
            s->nsamp++;
        }
    }
    if (r->violation) {
        char lk[136];
        uint64_t before = 0;
        int j;
        s->viols++;
        snprintf(lk, sizeof lk, "VIOL %s", r->key);
        for (j = 0; j < s->nlab; j++)
            if (strcmp(s->lab[j].name, lk) == 0) before = s->lab[j].count;
        lab_add(s, lk, 1);
        if (before < 2) {
            /* no stdio/malloc here: the library under test may have corrupted the heap */
            static char line[24000];
            int k = 0, j2;
            M->describe(KASE, desc, sizeof desc);
            k += snprintf(line + k, sizeof line - (size_t)k, "{\"key\":");
            k += json_escape_buf(line + k, sizeof line - (size_t)k, r->key);
            k += snprintf(line + k, sizeof line - (size_t)k, ",\"detail\":");
            k += json_escape_buf(line + k, sizeof line - (size_t)k, r->detail);
            k += snprintf(line + k, sizeof line - (size_t)k, ",\"case\":");
            k += json_escape_buf(line + k, sizeof line - (size_t)k, desc);
            k += snprintf(line + k, sizeof line - (size_t)k, ",\"phase\":%d,\"idx\":%llu,\"choices\":[", CFG.phase, (unsigned long long)idx);
            for (j2 = 0; j2 < cs->n && k < (int)sizeof line - 32; j2++) k += snprintf(line + k, sizeof line - (size_t)k, "%s%u", j2 ? "," : "", cs->val[j2]);
            k += snprintf(line + k, sizeof line - (size_t)k, "],\"kase\":\"");
            for (j2 = 0; j2 < (int)M->case_size && k < (int)sizeof line - 8; j2++) k += snprintf(line + k, sizeof line - (size_t)k, "%02x", ((unsigned char *)KASE)[j2]);
            k += snprintf(line + k, sizeof line - (size_t)k, "\"}\n");
            if (write(vfd, line, (size_t)k)) {}
        }
    }
    if (r->fragile) _exit(42);
}

static void exec_case(wstate_t *s, cs_t *cs, uint64_t idx, int vfd) {
    res_t r;
    s->idx = idx;
    s->cur_n = cs->n;
    memcpy(s->cur_val, cs->val, sizeof(uint32_t) * (size_t)cs->n);
    s->in_exec = 1;
    memset(&r, 0, sizeof r);
    r.hash = CS_HASH_INIT;
    M->exec(KASE, &r, &CFG);
    s->in_exec = 0;
    account(s, &r, cs, idx, vfd);
}

#ifdef CS_LIBFUZZER
/* phase 2: coverage-guided generation. libFuzzer mutates byte strings, the bytes are the choice sequence
 * (CS_FUZZ), the decoded case goes through the same exec/accounting path as the random and enum drivers. */
extern int LLVMFuzzerRunDriver(int *argc, char ***argv, int (*cb)(const uint8_t *, size_t));
const char *__asan_default_options(void);
const char *__asan_default_options(void) {
    return "handle_segv=0:handle_sigbus=0:handle_abort=0:handle_sigill=0:handle_sigfpe=0:abort_on_error=1:"
           "detect_leaks=0:allocator_may_return_null=1:detect_stack_use_after_return=0:symbolize=1";
}
static wstate_t *FZ_S;
static int FZ_VFD;
static long FZ_BUDGET;
static int fz_cb(const uint8_t *data, size_t size) {
    static cs_t cs;
    int valid;
    if ((long)FZ_S->fuzz_done >= FZ_BUDGET) _exit(0); /* budget reached (also after restarts) */
    FZ_S->fuzz_done++;
    cs_begin(&cs, CS_FUZZ, 0, 0);
    cs.fz = data; cs.fz_n = size; cs.fz_i = 0;
    CFG.phase = 1;
    memset(KASE, 0, M->case_size);
    valid = M->gen(&cs, KASE, &CFG);
    if (!valid || cs.overflow) { FZ_S->skipped++; return 0; }
    exec_case(FZ_S, &cs, FZ_S->fuzz_done, FZ_VFD);
    return 0;
}
static void fz_seed_corpus(int w, const char *dir) {
    /* a few random cases in byte form, so that the first units already decode to complete cases */
    cs_t cs;
    int k, i;
    memset(&cs, 0, sizeof cs);
    for (k = 0; k < 24; k++) {
        unsigned char buf[CS_MAX * 2];
        size_t n = 0;
        char path[600];
        FILE *f;
        cs_begin(&cs, CS_RANDOM, CFG.seed, (uint64_t)(1000003 * w + k));
        CFG.phase = 1;
        memset(KASE, 0, M->case_size);
        if (!M->gen(&cs, KASE, &CFG)) continue;
        for (i = 0; i < cs.n; i++) {
            if (cs.radix[i] == 0 || cs.radix[i] > 256) { buf[n++] = (unsigned char)(cs.val[i] >> 8); buf[n++] = (unsigned char)cs.val[i]; }
            else buf[n++] = (unsigned char)cs.val[i];
        }
        snprintf(path, sizeof path, "%s/seed-%d-%d", dir, w, k);
        f = fopen(path, "wb");
        if (f) { fwrite(buf, 1, n, f); fclose(f); }
    }
}
static void fuzz_phase(int w, int vfd) {
    static char a_runs[48], a_seed[48], dir[512];
    static char *argv_[24];
    char **argv = argv_;
    int argc = 0;
    wstate_t *s = W[w];
    FZ_S = s; FZ_VFD = vfd;
    FZ_BUDGET = FUZZ_RUNS / NW + 1;
    if ((long)s->fuzz_done >= FZ_BUDGET) _exit(0);
    snprintf(dir, sizeof dir, "%s/corpus.%d", FUZZ_DIR ? FUZZ_DIR : OUTDIR, w);
    mkdir(dir, 0755);
    if (s->fuzz_done == 0) fz_seed_corpus(w, dir);
    snprintf(a_runs, sizeof a_runs, "-runs=%ld", FZ_BUDGET - (long)s->fuzz_done + 64);
    snprintf(a_seed, sizeof a_seed, "-seed=%llu", (unsigned long long)(CFG.seed * 131 + (uint64_t)w + 1 + s->fuzz_done));
    argv[argc++] = (char *)"fuzz";
    argv[argc++] = a_runs; argv[argc++] = a_seed;
    argv[argc++] = (char *)"-max_len=700"; argv[argc++] = (char *)"-len_control=0";
    argv[argc++] = (char *)"-handle_segv=0"; argv[argc++] = (char *)"-handle_bus=0"; argv[argc++] = (char *)"-handle_abrt=0";
    argv[argc++] = (char *)"-handle_ill=0"; argv[argc++] = (char *)"-handle_fpe=0"; argv[argc++] = (char *)"-handle_int=0";
    argv[argc++] = (char *)"-handle_term=0"; argv[argc++] = (char *)"-handle_xfsz=0"; argv[argc++] = (char *)"-handle_usr1=0"; argv[argc++] = (char *)"-handle_usr2=0";
    argv[argc++] = (char *)"-verbosity=0"; argv[argc++] = (char *)"-print_final_stats=0"; argv[argc++] = (char *)"-timeout=120";
    argv[argc++] = (char *)"-rss_limit_mb=0"; argv[argc++] = (char *)"-close_fd_mask=0";
    argv[argc++] = dir;
    argv[argc] = NULL;
    LLVMFuzzerRunDriver(&argc, &argv, fz_cb);
    _exit(0);
}
#endif

static void worker(int w, int vfd) {
    wstate_t *s = W[w];
    cs_t cs;
    int valid;
    uint64_t idx;
    memset(&cs, 0, sizeof cs);
    ar_init();
    if (M->init) M->init(&CFG);
    for (;;) {
        int phase = s->phase;
        if (phase > 1) break;
        if (FUZZ_RUNS > 0 && !getenv("VERIF_FUZZ_WITH_RANDOM")) { s->phase = 2; break; } /* a fuzz campaign runs phase 2 only */
        if ((phase == 0 && !M->has_enum) || (phase == 1 && NCASES == 0)) {
            s->phase = phase + 1; s->next_idx = 0; s->n_in = 0; continue;
        }
        CFG.phase = phase;
        if (phase == 0) {
            /* enum: every worker walks the whole odometer, executes its share */
            memcpy(cs.in, s->in, sizeof cs.in);
            cs.n_in = s->n_in;
            idx = s->next_idx;
            for (;;) {
                int mine = (int)(idx % (uint64_t)NW) == w;
                cs_begin(&cs, CS_ENUM, CFG.seed, idx);
                memset(KASE, 0, M->case_size);
                valid = M->gen(&cs, KASE, &CFG);
                if (w == 0) s->gen_total++;
                if (valid && mine) exec_case(s, &cs, idx, vfd);
                else if (!valid && mine) s->skipped++;
                if (!cs_enum_next(&cs)) { s->enum_complete = 1; break; }
                idx++;
                memcpy(s->in, cs.in, sizeof(uint32_t) * (size_t)cs.n_in);
                s->n_in = cs.n_in;
                s->next_idx = idx;
                if ((long)idx >= ENUM_LIMIT) break;
            }
            s->phase = 1; s->next_idx = 0; s->n_in = 0;
        } else {
            for (idx = s->next_idx ? s->next_idx : (uint64_t)w; (long)idx < NCASES; idx += (uint64_t)NW) {
                s->next_idx = idx + (uint64_t)NW;
                cs_begin(&cs, CS_RANDOM, CFG.seed, idx);
                memset(KASE, 0, M->case_size);
                valid = M->gen(&cs, KASE, &CFG);
                if (!valid) { s->skipped++; continue; }
                exec_case(s, &cs, idx, vfd);
            }
            s->phase = 2;
        }
    }
#ifdef CS_LIBFUZZER
    if (FUZZ_RUNS > 0 && s->phase == 2) fuzz_phase(w, vfd);
#endif
    _exit(0);
}

static int cmp_u64(const void *a, const void *b) {
    uint64_t x = *(const uint64_t *)a, y = *(const uint64_t *)b;
    return x < y ? -1 : x > y;
}

static double now_s(void) {
    struct timespec ts;
    clock_gettime(CLOCK_MONOTONIC, &ts);
    return (double)ts.tv_sec + (double)ts.tv_nsec * 1e-9;
}

static double HANG_S = 240.0;
static int hungkill[MAXW];
static uint64_t hung_total;
static int do_campaign(void) {
    pid_t pid[MAXW];
    int vfd[MAXW];
    int w, alive = 0;
    double t0 = now_s();
    char path[512];
    uint64_t died = 0;
    for (w = 0; w < NW; w++) {
        W[w] = (wstate_t *)mmap(NULL, sizeof(wstate_t), PROT_READ | PROT_WRITE,
                                MAP_SHARED | MAP_ANONYMOUS | MAP_NORESERVE, -1, 0);
        if (W[w] == MAP_FAILED) { perror("mmap wstate"); return 2; }
        snprintf(path, sizeof path, "%s/viol.%d.jsonl", OUTDIR, w);
        vfd[w] = open(path, O_WRONLY | O_CREAT | O_TRUNC | O_APPEND, 0644);
    }
    fflush(NULL);
    for (w = 0; w < NW; w++) {
        pid[w] = fork();
        if (pid[w] == 0) worker(w, vfd[w]);
        alive++;
    }
    while (alive > 0) {
        int st;
        pid_t p = waitpid(-1, &st, WNOHANG);
        if (p == 0) {
            /* watchdog: a worker that makes no progress for HANG_S seconds is killed; a hang is "inconclusive", never a verdict */
            static uint64_t lastprog[MAXW];
            static double lastt[MAXW];
            double now = now_s();
            struct timespec ts = {0, 50 * 1000 * 1000};
            for (w = 0; w < NW; w++) {
                uint64_t pr = W[w]->evals + W[w]->skipped + W[w]->fuzz_done + W[w]->idx + W[w]->gen_total + (uint64_t)W[w]->phase;
                if (pr != lastprog[w] || lastt[w] == 0) { lastprog[w] = pr; lastt[w] = now; }
                else if (pid[w] > 0 && now - lastt[w] > HANG_S && !hungkill[w]) { hungkill[w] = 1; kill(pid[w], SIGKILL); }
            }
            nanosleep(&ts, NULL);
            continue;
        }
        if (p < 0) break;
        for (w = 0; w < NW; w++) if (pid[w] == p) break;
        if (w == NW) continue;
        alive--;
        pid[w] = 0;
        if (WIFEXITED(st) && WEXITSTATUS(st) == 0) continue;
        if (hungkill[w]) { /* killed by the watchdog: count it, skip the case, go on */
            hungkill[w] = 0;
            hung_total++;
            W[w]->skipped++;
            st = 42 << 8; /* treat like a requested restart */
        }
        /* worker died: 42 = requested restart after a recorded fragile case;
           anything else = uncaptured crash while executing a case */
        if (!(WIFEXITED(st) && WEXITSTATUS(st) == 42)) {
            wstate_t *s = W[w];
            FILE *f = fdopen(dup(vfd[w]), "a");
            int j;
            died++;
            fprintf(f, "{\"key\":\"%s:crash:worker-died-%s%d\",\"detail\":\"worker died (in_exec=%d)\",\"case\":\"\",\"phase\":%d,\"idx\":%llu,\"choices\":[",
                    M->name, WIFSIGNALED(st) ? "sig" : "exit", WIFSIGNALED(st) ? WTERMSIG(st) : WEXITSTATUS(st),
                    s->in_exec, s->phase, (unsigned long long)s->idx);
            for (j = 0; j < s->cur_n; j++) fprintf(f, "%s%u", j ? "," : "", s->cur_val[j]);
            fprintf(f, "]}\n");
            fclose(f);
            s->viols++;
        }
        /* resume after the case that was running */
        {
            wstate_t *s = W[w];
            if (s->phase == 0) {
                /* advance odometer past the running case: replay generator */
                cs_t cs;
                memset(&cs, 0, sizeof cs);
                memcpy(cs.in, s->in, sizeof cs.in);
                cs.n_in = s->n_in;
                cs_begin(&cs, CS_ENUM, CFG.seed, s->next_idx);
                CFG.phase = 0;
                memset(KASE, 0, M->case_size);
                M->gen(&cs, KASE, &CFG);
                if (cs_enum_next(&cs)) {
                    memcpy(s->in, cs.in, sizeof(uint32_t) * (size_t)cs.n_in);
                    s->n_in = cs.n_in;
                    s->next_idx++;
                } else { s->phase = 1; s->next_idx = 0; s->n_in = 0; s->enum_complete = 1; }
            }
            s->in_exec = 0;
            fflush(NULL);
            if (s->phase == 2) { /* fuzz phase: bound the number of restarts of one worker */
                static int respawns[MAXW];
                if (++respawns[w] > 3000) continue;
            }
            pid[w] = fork();
            if (pid[w] == 0) worker(w, vfd[w]);
            alive++;
        }
    }
    /* merge */
    {
        uint64_t evals = 0, nontriv = 0, viols = 0, skipped = 0, nh = 0, distinct = 0, i;
        uint64_t *all;
        FILE *f;
        int enum_complete = M->has_enum ? 1 : 0;
        struct { char name[136]; uint64_t count; } *lab = calloc(MAXLAB * 4, sizeof *lab);
        int nlab = 0, j, k, ns = 0;
        for (w = 0; w < NW; w++) {
            evals += W[w]->evals; nontriv += W[w]->nontriv; viols += W[w]->viols;
            skipped += W[w]->skipped; nh += W[w]->nhash;
            if (M->has_enum && !W[w]->enum_complete) enum_complete = 0;
        }
        all = (uint64_t *)malloc((size_t)(nh + 1) * sizeof(uint64_t));
        nh = 0;
        for (w = 0; w < NW; w++) {
            memcpy(all + nh, W[w]->hash, (size_t)W[w]->nhash * sizeof(uint64_t));
            nh += W[w]->nhash;
        }
        qsort(all, (size_t)nh, sizeof(uint64_t), cmp_u64);
        for (i = 0; i < nh; i++) if (i == 0 || all[i] != all[i - 1]) distinct++;
        for (w = 0; w < NW; w++)
            for (j = 0; j < W[w]->nlab; j++) {
                for (k = 0; k < nlab; k++) if (strcmp(lab[k].name, W[w]->lab[j].name) == 0) break;
                if (k == nlab) { if (nlab >= MAXLAB * 4) continue; snprintf(lab[k].name, sizeof lab[k].name, "%s", W[w]->lab[j].name); nlab++; }
                lab[k].count += W[w]->lab[j].count;
            }
        snprintf(path, sizeof path, "%s/summary.json", OUTDIR);
        f = fopen(path, "w");
        fprintf(f, "{\"module\":\"%s\",\"tier\":%d,\"seed\":%llu,\"libcfg\":\"%s\",\"evaluations\":%llu,\"nontrivial\":%llu,"
                   "\"distinct_nontrivial\":%llu,\"violating_cases\":%llu,\"skipped\":%llu,\"enum_cases\":%llu,"
                   "\"enum_complete\":%s,\"workers_died\":%llu,\"workers_hung\":%llu,\"wall_s\":%.2f,\n\"labels\":{",
                M->name, CFG.tier, (unsigned long long)CFG.seed, CFG.libcfg ? CFG.libcfg : "",
                (unsigned long long)evals, (unsigned long long)nontriv,
                (unsigned long long)distinct, (unsigned long long)viols, (unsigned long long)skipped,
                (unsigned long long)W[0]->gen_total, enum_complete ? "true" : "false",
                (unsigned long long)died, (unsigned long long)hung_total, now_s() - t0);
        for (k = 0; k < nlab; k++) {
            if (k) fputc(',', f);
            json_escape(f, lab[k].name);
            fprintf(f, ":%llu", (unsigned long long)lab[k].count);
        }
        fprintf(f, "},\n\"samples\":[");
        for (w = 0; w < NW && ns < 10; w++)
            for (j = 0; j < W[w]->nsamp && ns < 10; j += 2) {
                if (ns++) fputc(',', f);
                json_escape(f, W[w]->samp[j]);
            }
        fprintf(f, "],\n\"rule\":");
        json_escape(f, M->rule ? M->rule : "");
        fprintf(f, "}\n");
        fclose(f);
        free(all);
        free(lab);
    }
    return 0;
}

/* run a single case (choices in cs->in) in a forked child; returns 0 ok,
 * 1 violation (key/detail filled), 2 crash, 3 invalid */
typedef struct { int code; char key[160]; char detail[400]; char desc[700]; int n; uint32_t val[CS_MAX]; } one_t;

static int run_isolated(cs_t *cs, int phase, one_t *out) {
    one_t *sh = (one_t *)mmap(NULL, sizeof(one_t), PROT_READ | PROT_WRITE, MAP_SHARED | MAP_ANONYMOUS, -1, 0);
    pid_t p;
    int st, code;
    memset(sh, 0, sizeof *sh);
    sh->code = 2;
    fflush(NULL);
    p = fork();
    if (p == 0) {
        res_t r;
        int valid;
        int dn = open("/dev/null", O_WRONLY);
        (void)dn;
        ar_init();
        CFG.phase = phase;
        if (M->init) M->init(&CFG);
        cs_begin(cs, CS_REPLAY, CFG.seed, 0);
        run_one(cs, &r, sh->desc, sizeof sh->desc, &valid);
        if (!valid) { sh->code = 3; _exit(0); }
        sh->n = cs->n;
        memcpy(sh->val, cs->val, sizeof(uint32_t) * (size_t)cs->n);
        snprintf(sh->key, sizeof sh->key, "%s", r.key);
        snprintf(sh->detail, sizeof sh->detail, "%s", r.detail);
        sh->code = r.violation ? 1 : 0;
        _exit(0);
    }
    waitpid(p, &st, 0);
    if (sh->code == 2) {
        snprintf(sh->key, sizeof sh->key, "%s:crash:uncaptured", M->name);
        snprintf(sh->detail, sizeof sh->detail, "child status 0x%x", st);
    }
    code = sh->code;
    if (out) *out = *sh;
    munmap(sh, sizeof *sh);
    return code;
}

static int do_replay(const char *file) {
    cs_t cs;
    one_t o;
    int phase, code;
    memset(&cs, 0, sizeof cs);
    if (read_case_file(file, &cs, &phase) < 0) { fprintf(stderr, "cannot read %s\n", file); return 2; }
    g_use_kase = !g_no_kase;
    code = run_isolated(&cs, phase, &o);
    printf("REPLAY module=%s result=%s\n", M->name, code == 0 ? "ok" : code == 1 ? "violation" : code == 2 ? "crash" : "invalid");
    if (code == 1 || code == 2) printf("key: %s\ndetail: %s\n", o.key, o.detail);
    printf("case: %s\n", o.desc);
    return code == 0 ? 0 : (code == 3 ? 3 : 1);
}

/* shrink: minimise choice values while the same key keeps failing */
static int do_shrink(const char *file, const char *outfile) {
    cs_t cs, best;
    one_t o, ob;
    int phase, i, improved, rounds = 0, tries = 0;
    char want[160];
    memset(&cs, 0, sizeof cs);
    if (read_case_file(file, &cs, &phase) < 0) return 2;
    if (run_isolated(&cs, phase, &ob) != 1 && ob.code != 2) {
        printf("SHRINK: case does not fail\n");
        return 3;
    }
    snprintf(want, sizeof want, "%s", ob.key);
    best = cs;
    /* canonicalise to the values actually drawn */
    best.n_in = ob.n; memcpy(best.in, ob.val, sizeof(uint32_t) * (size_t)ob.n);
    do {
        improved = 0;
        rounds++;
        /* 1. truncate tail (exhausted stream yields 0) */
        while (best.n_in > 0 && best.in[best.n_in - 1] == 0) best.n_in--;
        /* 2. delete one element */
        for (i = best.n_in - 1; i >= 0 && tries < 4000; i--) {
            cs_t c = best;
            memmove(c.in + i, c.in + i + 1, sizeof(uint32_t) * (size_t)(c.n_in - i - 1));
            c.n_in--;
            tries++;
            if (run_isolated(&c, phase, &o) >= 1 && o.code != 3 && strcmp(o.key, want) == 0) {
                /* accept only if not larger lexicographically in length */
                best = c; ob = o; improved = 1;
            }
        }
        /* 3. minimise each value: 0, then binary search downward */
        for (i = 0; i < best.n_in && tries < 4000; i++) {
            uint32_t lo = 0, hi = best.in[i];
            if (hi == 0) continue;
            {
                cs_t c = best;
                c.in[i] = 0;
                tries++;
                if (run_isolated(&c, phase, &o) >= 1 && o.code != 3 && strcmp(o.key, want) == 0) { best = c; ob = o; improved = 1; continue; }
            }
            lo = 1;
            while (lo < hi && tries < 4000) {
                uint32_t mid = lo + (hi - lo) / 2;
                cs_t c = best;
                c.in[i] = mid;
                tries++;
                if (run_isolated(&c, phase, &o) >= 1 && o.code != 3 && strcmp(o.key, want) == 0) { hi = mid; best = c; ob = o; improved = 1; }
                else lo = mid + 1;
            }
        }
    } while (improved && rounds < 6);
    /* final run to get canonical record */
    run_isolated(&best, phase, &ob);
    {
        cs_t rec;
        memset(&rec, 0, sizeof rec);
        rec.n = best.n_in;
        memcpy(rec.val, best.in, sizeof(uint32_t) * (size_t)best.n_in);
        CFG.phase = phase;
        {
            cs_t g;
            memset(&g, 0, sizeof g);
            g.n_in = best.n_in;
            memcpy(g.in, best.in, sizeof(uint32_t) * (size_t)best.n_in);
            cs_begin(&g, CS_REPLAY, CFG.seed, 0);
            memset(KASE, 0, M->case_size);
            M->gen(&g, KASE, &CFG);
        }
        write_case_file(outfile, &rec, ob.key, ob.detail, ob.desc);
    }
    printf("SHRINK: key=%s tries=%d len=%d -> %s\n", want, tries, best.n_in, outfile);
    return 0;
}

static int do_list(void) {
    int i;
    for (i = 0; i < all_modules_n; i++) if (all_modules[i]) printf("%s\n", all_modules[i]->name);
    return 0;
}

int main(int argc, char **argv) {
    int i;
    const char *upgrade = NULL, *modname = NULL, *replay = NULL, *shrink = NULL, *shrink_out = "shrunk.case", *writecase = NULL;
    CFG.seed = 1;
    CFG.libcfg = "plain";
    for (i = 1; i < argc; i++) {
        if (!strcmp(argv[i], "--module") && i + 1 < argc) modname = argv[++i];
        else if (!strcmp(argv[i], "--tier") && i + 1 < argc) CFG.tier = !strcmp(argv[++i], "thorough");
        else if (!strcmp(argv[i], "--seed") && i + 1 < argc) CFG.seed = strtoull(argv[++i], NULL, 10);
        else if (!strcmp(argv[i], "--workers") && i + 1 < argc) NW = atoi(argv[++i]);
        else if (!strcmp(argv[i], "--cases") && i + 1 < argc) NCASES = atol(argv[++i]);
        else if (!strcmp(argv[i], "--enum-limit") && i + 1 < argc) ENUM_LIMIT = atol(argv[++i]);
        else if (!strcmp(argv[i], "--out") && i + 1 < argc) OUTDIR = argv[++i];
        else if (!strcmp(argv[i], "--row") && i + 1 < argc) CFG.row_filter = argv[++i];
        else if (!strcmp(argv[i], "--libcfg") && i + 1 < argc) CFG.libcfg = argv[++i];
        else if (!strcmp(argv[i], "--replay") && i + 1 < argc) replay = argv[++i];
        else if (!strcmp(argv[i], "--shrink") && i + 1 < argc) shrink = argv[++i];
        else if (!strcmp(argv[i], "--shrink-out") && i + 1 < argc) shrink_out = argv[++i];
        else if (!strcmp(argv[i], "--write-case") && i + 1 < argc) writecase = argv[++i];
        else if (!strcmp(argv[i], "--no-kase")) g_no_kase = 1;
        else if (!strcmp(argv[i], "--fuzz-runs") && i + 1 < argc) FUZZ_RUNS = atol(argv[++i]);
        else if (!strcmp(argv[i], "--fuzz-dir") && i + 1 < argc) FUZZ_DIR = argv[++i];
        else if (!strcmp(argv[i], "--upgrade") && i + 1 < argc) upgrade = argv[++i];
        else if (!strcmp(argv[i], "--list")) return do_list();
        else { fprintf(stderr, "unknown arg %s\n", argv[i]); return 2; }
    }
    (void)writecase;
    if (!modname) { fprintf(stderr, "--module required\n"); return 2; }
    for (i = 0; i < all_modules_n; i++) if (all_modules[i] && !strcmp(all_modules[i]->name, modname)) M = all_modules[i];
    if (!M) { fprintf(stderr, "no module %s\n", modname); return 2; }
    if (NW < 1) NW = 1;
    if (NW > MAXW) NW = MAXW;
    if (NCASES < 0) NCASES = M->random_cases[CFG.tier];
    KASE = calloc(1, M->case_size + 64);
    /* the parent decodes cases itself when it writes a shrunk or upgraded file: generators may rely on tables their init builds */
    if ((upgrade || shrink) && M->init) M->init(&CFG);
    if (upgrade) {
        /* print the decoded case of a choices-only case file as hex */
        cs_t cs;
        int phase;
        size_t k;
        memset(&cs, 0, sizeof cs);
        if (read_case_file(upgrade, &cs, &phase) < 0) return 2;
        CFG.phase = phase;
        cs_begin(&cs, CS_REPLAY, CFG.seed, 0);
        memset(KASE, 0, M->case_size);
        M->gen(&cs, KASE, &CFG);
        printf("kase ");
        for (k = 0; k < M->case_size; k++) printf("%02x", ((unsigned char *)KASE)[k]);
        printf("\n");
        return 0;
    }
    if (replay) return do_replay(replay);
    if (shrink) return do_shrink(shrink, shrink_out);
    mkdir(OUTDIR, 0755);
    return do_campaign();
}
